#!/venv/bin/python
"""Regenerates MANIFEST.json from chamlint/manifest_data.py (kept in one
place so that the manifest is always schema-valid)."""
import json
import os
import sys
HERE = os.path.dirname(os.path.abspath(__file__))
sys.path.insert(0, HERE)
from chamlint import manifest_data as M  # noqa: E402

props = [json.loads(l) for l in open(os.path.join(HERE, "properties.jsonl"))]
ids = [p["id"] for p in props]
checks = []
na = []
for pid in ids:
    c = M.CHECKS.get(pid)
    if c is None:
        na.append(dict(property_id=pid, reason=M.NOT_APPLICABLE.get(
            pid, "check under construction in this session; not yet claimed")))
        continue
    checks.append(dict(
        property_id=pid,
        quick_cmd="bin/check %s --tier quick" % pid,
        thorough_cmd="bin/check %s --tier thorough" % pid,
        evidence_file="/verif/evidence/%s.json" % pid,
        replay_cmd_template="bin/check %s --replay {path}" % pid,
        engine="chamlint",
        level_claimed=dict(category="other", text=c["text"],
                           design_ref=c.get("design_ref", "DESIGN.md section 3, " + pid)),
        level_note=c["note"],
        technique=c["technique"],
    ))
manifest = dict(
    version=1,
    setup_cmd="/venv/bin/python -c \"import ast, sys; sys.path.insert(0, '/verif'); import chamlint.core\"",
    hooks=dict(
        guard="MALTHE_CHAMELEON_VERIF",
        enable="none needed: checks parse /repo's sources and execute nothing from it; the guard name is reserved and unused",
        baseline_off_cmd="cd /repo && /venv/bin/python -m pytest -ra -q -p no:cacheprovider --timeout=900 --continue-on-collection-errors",
        source_commits=[],
        add_only=True,
    ),
    engines=[dict(
        name="chamlint", path="/verif/chamlint",
        serves_properties=[c["property_id"] for c in checks],
        kind_free_text="repository-specific static analysis: abstract "
        "interpretation of the code emitter and node constructor over the "
        "syntax tree, path enumeration over embedded generated-code "
        "fragments, regex ASTs, constant tables, call graph; nothing from "
        "/repo is imported or executed")],
    checks=checks,
    not_applicable=na,
    notes=M.NOTES,
)
with open(os.path.join(HERE, "MANIFEST.json"), "w") as f:
    json.dump(manifest, f, indent=1)
print("MANIFEST.json: %d checks, %d not_applicable" % (len(checks), len(na)))
