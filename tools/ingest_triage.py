#!/venv/bin/python
"""Confirm and store the BREAKS verdicts of the triage agents.

usage: tools/ingest_triage.py <tag> [--jobs N] [--skip id,id,...]
 reads /tmp/wt<tag>-NN/seeded/verdicts.json, runs tools/confirm_seeded.py
 for every BREAKS mutant (worktree, id, property, slug), in parallel over
 the worktrees.
"""
import glob
import json
import os
import re
import subprocess
import sys
from concurrent.futures import ThreadPoolExecutor

HERE = os.path.dirname(os.path.dirname(os.path.abspath(__file__)))
tag = sys.argv[1]
jobs = int(sys.argv[sys.argv.index("--jobs") + 1]) if "--jobs" in sys.argv \
    else 8
skip = set()
if "--skip" in sys.argv:
    skip = set(sys.argv[sys.argv.index("--skip") + 1].split(","))
muts = {}
for l in open(os.environ.get("MSWEEP", "/tmp/msweep") + "/mutants.jsonl"):
    m = json.loads(l)
    muts[str(m["id"])] = m


def work(wt):
    out = []
    vp = os.path.join(wt, "seeded", "verdicts.json")
    if not os.path.exists(vp):
        return ["%s: no verdicts.json" % wt]
    try:
        v = json.load(open(vp))
    except Exception as exc:
        return ["%s: verdicts unreadable %s" % (wt, exc)]
    for mid, e in sorted(v.items()):
        if e.get("verdict") != "BREAKS" or mid in skip:
            continue
        prop = (e.get("property") or "")[:3]
        if not re.match(r"^C\d\d$", prop):
            out.append("%s %s: no property" % (wt, mid))
            continue
        if not os.path.exists(os.path.join(wt, "seeded",
                                           "patch%s.diff" % mid)):
            out.append("%s %s: no patch" % (wt, mid))
            continue
        m = muts.get(mid, {})
        slug = "%s%s-%s-%s" % (
            os.environ.get("MPREFIX", "m"), mid, os.path.basename(m.get("file", "x")).replace(".py", ""),
            re.sub(r"[^a-z0-9]+", "-", m.get("func", "x").lower()).strip("-"))
        needs = (e.get("reason") or "")[:300]
        r = subprocess.run([os.path.join(HERE, "tools", "confirm_seeded.py"),
                            wt, mid, prop, slug, needs],
                           capture_output=True, text=True)
        last = [ln for ln in r.stdout.splitlines()
                if "stored" in ln or "NOT CONFIRMED" in ln or
                "does not apply" in ln]
        out.append("%s %s %s: %s" % (os.path.basename(wt), mid, prop,
                                     (last or [r.stdout[-150:]])[-1][-110:]))
    return out


wts = sorted(glob.glob("/tmp/wt%s-*" % tag))
with ThreadPoolExecutor(max_workers=jobs) as ex:
    for res in ex.map(work, wts):
        for ln in res:
            print(ln, flush=True)
