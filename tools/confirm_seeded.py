#!/venv/bin/python
"""Confirm an independently produced breaking change and store it.

usage: tools/confirm_seeded.py <worktree> <N> <property> <slug> ["needs..."]

In the scratch worktree (never /repo): apply seeded/patchN.diff, run the test
suite (must be 233 passed), run seeded/demoN.py (must fail), revert, run the
demo again (must pass).  Then run all chamlint checks against /repo + patch
(scratch copy) and write /verif/seeded/<property>-<slug>/{patch.diff, demo.py,
note.txt, meta.json}.
"""
import json
import os
import re
import shutil
import subprocess
import sys

HERE = os.path.dirname(os.path.dirname(os.path.abspath(__file__)))


def sh(cmd, cwd, env=None):
    e = dict(os.environ)
    e.update(env or {})
    r = subprocess.run(cmd, cwd=cwd, env=e, capture_output=True, text=True,
                       shell=isinstance(cmd, str))
    return r.returncode, (r.stdout + r.stderr)


def main(argv):
    wt, n, prop, slug = argv[:4]
    needs = argv[4] if len(argv) > 4 else ""
    wt = os.path.abspath(wt)
    if wt.startswith("/repo") or wt.startswith("/verif"):
        print("refusing to work in", wt)
        return 2
    patch = os.path.join(wt, "seeded", "patch%s.diff" % n)
    demo = os.path.join(wt, "seeded", "demo%s.py" % n)
    note = os.path.join(wt, "seeded", "note%s.txt" % n)
    env = {"PYTHONPATH": os.path.join(wt, "src")}
    sh("git checkout -- src", wt)
    ran = []
    rc, out = sh([sys.executable.replace("python3-vt", "python"), demo], wt,
                 env)
    ran.append("clean tree: demo exit %d" % rc)
    clean_ok = rc == 0
    rc, out = sh(["git", "apply", patch], wt)
    if rc != 0:
        print("patch does not apply:", out[:300])
        return 2
    try:
        rc, out = sh("/venv/bin/python -m pytest -q -p no:cacheprovider "
                     "--timeout=900 2>&1 | tail -1", wt, env)
        tests = out.strip()
        ran.append("patched tree: pytest -> %s" % tests)
        tests_ok = "233 passed" in tests and "failed" not in tests
        rc, out2 = sh(["/venv/bin/python", demo], wt, env)
        ran.append("patched tree: demo exit %d" % rc)
        demo_fails = rc != 0
    finally:
        sh("git checkout -- src", wt)
    rc, chk = sh([os.path.join(HERE, "tools", "run_on_patch.py"), patch],
                 HERE)
    fired = []
    m = re.search(r"fired: (.*)", chk)
    if m and m.group(1).strip() != "none":
        fired = m.group(1).split()
    details = [ln for ln in chk.splitlines() if " fired " in ln]
    print("\n".join(ran))
    print("checks:", chk.strip().splitlines()[-1])
    if not (clean_ok and tests_ok and demo_fails):
        print("NOT CONFIRMED (clean_ok=%s tests_ok=%s demo_fails=%s)" % (
            clean_ok, tests_ok, demo_fails))
        return 1
    dst = os.path.join(HERE, "seeded", "%s-%s" % (prop, slug))
    os.makedirs(dst, exist_ok=True)
    shutil.copy(patch, os.path.join(dst, "patch.diff"))
    shutil.copy(demo, os.path.join(dst, "demo.py"))
    if os.path.exists(note):
        shutil.copy(note, os.path.join(dst, "note.txt"))
    meta = dict(
        property=prop,
        origin="independent sub-agent given only the property text and a "
               "private worktree",
        needs_to_manifest=needs or (open(note).read().strip()
                                    if os.path.exists(note) else ""),
        confirmed=ran,
        checks_that_fire=fired,
        check_details=details,
        caught=prop in fired,
    )
    with open(os.path.join(dst, "meta.json"), "w") as f:
        json.dump(meta, f, indent=1)
    print("stored", dst, "caught by own property check:", prop in fired)
    return 0


if __name__ == "__main__":
    sys.exit(main(sys.argv[1:]))
