#!/venv/bin/python
"""Re-run all checks against /repo + seeded/<dir>/patch.diff and rewrite the
checks_that_fire / check_details / caught fields of its meta.json.

usage: tools/refresh_meta.py <seeded-dir-glob-fragment> ...   (e.g. -r7-)
"""
import json
import os
import subprocess
import sys
from concurrent.futures import ThreadPoolExecutor

HERE = os.path.dirname(os.path.dirname(os.path.abspath(__file__)))
ROOT = os.path.join(HERE, "seeded")


def one(d):
    pd = os.path.join(ROOT, d, "patch.diff")
    r = subprocess.run([os.path.join(HERE, "tools", "run_on_patch.py"), pd],
                       capture_output=True, text=True)
    fired, details = [], []
    for line in r.stdout.splitlines():
        parts = line.split()
        if len(parts) >= 2 and parts[1] == "fired":
            fired.append(parts[0])
            details.append(line.strip())
        elif len(parts) >= 2 and parts[1] == "analysis-error":
            details.append(line.strip())
    mp = os.path.join(ROOT, d, "meta.json")
    meta = json.load(open(mp))
    meta["checks_that_fire"] = fired
    meta["check_details"] = details
    meta["caught"] = bool(fired)
    with open(mp, "w") as f:
        json.dump(meta, f, indent=1)
    return d, meta["property"] in fired, fired


def main(argv):
    dirs = sorted(d for d in os.listdir(ROOT)
                  if os.path.isfile(os.path.join(ROOT, d, "patch.diff"))
                  and any(a in d for a in argv))
    with ThreadPoolExecutor(4) as ex:
        for d, own, fired in ex.map(one, dirs):
            print("%-90s own=%s %s" % (d, own, " ".join(fired)))


if __name__ == "__main__":
    main(sys.argv[1:])
