#!/venv/bin/python
"""Run rule sets on mutants of the sweep by id: tools/check_mutant.py 12,13 C17 [C03 ...]"""
import json, os, shutil, subprocess, sys, tempfile
HERE = os.path.dirname(os.path.dirname(os.path.abspath(__file__)))
ids = [int(x) for x in sys.argv[1].split(",")]
props = sys.argv[2:]
muts = {json.loads(l)["id"]: json.loads(l) for l in open("/tmp/msweep/mutants.jsonl")}
for i in ids:
    m = muts[i]
    tmp = tempfile.mkdtemp(prefix="cm-")
    try:
        shutil.copytree("/repo/src", tmp + "/src", ignore=shutil.ignore_patterns("__pycache__", "tests"))
        p = os.path.join(tmp, m["file"]); b = open(p, "rb").read()
        if b[m["a"]:m["b"]].decode() != m["old"]:
            # relocate by unique text on the same line
            print(i, "stale offsets"); continue
        open(p, "wb").write(b[:m["a"]] + m["new"].encode() + b[m["b"]:])
        d = subprocess.run(["diff", "-u", "/repo/" + m["file"], p], capture_output=True, text=True).stdout
        pf = tmp + "/p.diff"
        open(pf, "w").write(d.replace(p, "b/" + m["file"]).replace("/repo/" + m["file"], "a/" + m["file"]))
        r = subprocess.run([HERE + "/tools/run_on_patch.py", pf] + props, capture_output=True, text=True)
        print(i, m["kind"], m["old"][:30].replace("\n", " "), "->", m["new"][:30].replace("\n", " "), "|", r.stdout.strip().splitlines()[-1])
    finally:
        shutil.rmtree(tmp, ignore_errors=True)
