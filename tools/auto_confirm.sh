#!/bin/bash
# usage: tools/auto_confirm.sh <tag> <Cnn>
#   saves clean-tree reports, confirms all patches of /tmp/w<tag>-<Cnn> under
#   slugs derived from the notes, removes the worktree.
tag=$1; c=$2; wt=/tmp/w$tag-$c
[ -d $wt/seeded ] || { echo "no $wt/seeded"; exit 1; }
if ls $wt/seeded/clean* >/dev/null 2>&1; then
  mkdir -p /verif/seeded/clean_reports/$c-r$tag; cp $wt/seeded/clean* /verif/seeded/clean_reports/$c-r$tag/
fi
for f in $wt/seeded/patch*.diff; do
  n=$(basename $f .diff | sed 's/patch//')
  note=$wt/seeded/note$n.txt
  slug=$(python3 - "$note" "$f" <<'PY'
import re,sys
t=open(sys.argv[1]).read() if __import__("os").path.exists(sys.argv[1]) else ""
words=re.findall(r"[A-Za-z_][A-Za-z0-9_]+", t)
stop={"the","a","an","of","in","to","is","was","and","for","with","that","this","it","on","as","by","from","now","are","be","what","changed","change","src","chameleon","py","which","clause","property","breaks","file","function","patch","instead","into","not","no","at","its","their","when","only","so","but","or","if","then","than","also"}
w=[x.lower().replace("_","-") for x in words if x.lower() not in stop][:5]
print("r%s-%s" % (sys.argv[2].split("/w")[1].split("-")[0], "-".join(w) or "change"))
PY
)
  needs=$(head -c 300 $note 2>/dev/null | tr '\n' ' ' | sed 's/"/'"'"'/g')
  /verif/tools/confirm_seeded.py $wt $n $c "$slug" "$needs" 2>&1 | grep -E "pytest|demo exit|stored|does not" | tr '\n' ' '; echo
done
git -C /repo worktree remove --force $wt
