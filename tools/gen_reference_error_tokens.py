#!/venv/bin/python
"""(Re)generate chamlint/reference_error_tokens.json: for every raise of a
TemplateError class with a token argument, which expression is the token
(reviewed: it is the piece of template text the message is about).
Run after a deliberate change of an error site."""
import json
import os
import sys

HERE = os.path.dirname(os.path.dirname(os.path.abspath(__file__)))
sys.path.insert(0, HERE)
from chamlint.core import Repo  # noqa: E402
from chamlint.rules.c11 import error_token_census  # noqa: E402

out = sorted(error_token_census(Repo()))
json.dump({"census": out}, open(os.path.join(
    HERE, "chamlint", "reference_error_tokens.json"), "w"), indent=1)
print(len(out), "error sites")
