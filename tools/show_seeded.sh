#!/bin/bash
# usage: tools/show_seeded.sh <worktree> <Cnn>  -- show each patch and which checks fire
wt=$1; prop=$2
for f in $wt/seeded/patch*.diff; do
  n=$(basename $f .diff | sed 's/patch//')
  echo "=== $prop patch$n  ($(grep '^+++' $f | sed 's#+++ b/src/chameleon/##' | tr '\n' ' '))"
  grep '^[-+]' $f | grep -v '^+++\|^---' | head -${3:-18}
  /verif/tools/run_on_patch.py $f | tail -1
done
