#!/venv/bin/python
"""Systematic value-level mutation sweep (development aid, not a registered
check).

  gen   -> writes $OUT/mutants.jsonl : one small source edit per line
           (comparison operators, and/or, integer constants, near-twin str
           methods, adjacent arguments swapped, 'not' dropped, True/False,
           operators inside generated-code fragments, regex quantifiers)
  test  -> for every mutant: scratch copy of src/ under $TMPDIR, the edit
           applied, the 233 tests run; survivors (233 passed) are then given
           to all twenty chamlint rule sets (Repo(root=scratch), nothing is
           executed by the rules); result appended to $OUT/results.jsonl
  report-> table of survivors that no rule set reports

The survivors are candidates only: many are equivalent (behaviour
preserving); the others are triaged by hand / by sub-agents and become
seeded changes under /verif/seeded once confirmed.

usage: tools/mutation_sweep.py gen|test|report [--out DIR] [--jobs N]
                               [--only file-substring] [--limit N]
"""
import ast
import importlib
import json
import os
import re
import shutil
import subprocess
import sys
import tempfile
from concurrent.futures import ProcessPoolExecutor

HERE = os.path.dirname(os.path.dirname(os.path.abspath(__file__)))
sys.path.insert(0, HERE)
sys.dont_write_bytecode = True
REPO = os.environ.get("CHAMLINT_REPO", "/repo")
PKG = os.path.join(REPO, "src", "chameleon")
PROPS = ["C%02d" % i for i in range(1, 21)]

CMP = {ast.Lt: ["<="], ast.LtE: ["<"], ast.Gt: [">="], ast.GtE: [">"],
       ast.Eq: ["!=", "is"], ast.NotEq: ["=="], ast.Is: ["is not", "=="],
       ast.IsNot: ["is", "!="], ast.In: ["not in"], ast.NotIn: ["in"]}
TWINS = {"strip": ["lstrip", "rstrip"], "lstrip": ["strip", "rstrip"],
         "rstrip": ["strip", "lstrip"], "find": ["rfind"], "rfind": ["find"],
         "split": ["rsplit"], "rsplit": ["split"],
         "startswith": ["endswith"], "endswith": ["startswith"],
         "lower": ["upper"], "append": ["insert0"], "get": ["pop"],
         "partition": ["rpartition"], "rpartition": ["partition"],
         "index": ["rindex"], "update": ["setdefault_"],
         "extend": ["append"], "items": ["keys"], "search": ["match"],
         "match": ["search"], "min": ["max"], "max": ["min"]}


def offsets(src):
    lines = src.splitlines(keepends=True)
    starts = [0]
    for ln in lines:
        starts.append(starts[-1] + len(ln.encode("utf-8")))
    return starts


def span(node, starts, bsrc):
    a = starts[node.lineno - 1] + node.col_offset
    b = starts[node.end_lineno - 1] + node.end_col_offset
    return a, b


def gen_file(path, rel):
    src = open(path, encoding="utf-8").read()
    bsrc = src.encode("utf-8")
    starts = offsets(src)
    tree = ast.parse(src)
    for n in ast.walk(tree):
        for c in ast.iter_child_nodes(n):
            c._parent = n
    out = []

    def emit(a, b, new, kind, node):
        old = bsrc[a:b].decode("utf-8")
        if old == new:
            return
        fn = node
        while fn is not None and not isinstance(
                fn, (ast.FunctionDef, ast.ClassDef)):
            fn = getattr(fn, "_parent", None)
        out.append(dict(file=rel, line=node.lineno, a=a, b=b, old=old,
                        new=new, kind=kind,
                        func=getattr(fn, "name", "<module>")))

    def in_docstring(node):
        p = getattr(node, "_parent", None)
        return isinstance(p, ast.Expr)

    for n in ast.walk(tree):
        if isinstance(n, ast.Compare):
            left = n.left
            for op, comp in zip(n.ops, n.comparators):
                a = span(left, starts, bsrc)[1]
                b = span(comp, starts, bsrc)[0]
                mid = bsrc[a:b].decode("utf-8")
                m = re.match(r"^(\s*\)*\s*)(.*?)(\s*\(*\s*)$", mid, re.S)
                for new in CMP.get(type(op), []):
                    if m:
                        emit(a, b, m.group(1) + new + m.group(3),
                             "cmp", n)
                left = comp
        elif isinstance(n, ast.BoolOp):
            for x, y in zip(n.values, n.values[1:]):
                a = span(x, starts, bsrc)[1]
                b = span(y, starts, bsrc)[0]
                mid = bsrc[a:b].decode("utf-8")
                word = "and" if isinstance(n.op, ast.And) else "or"
                neww = "or" if word == "and" else "and"
                if re.search(r"\b%s\b" % word, mid):
                    emit(a, b, re.sub(r"\b%s\b" % word, neww, mid, 1),
                         "boolop", n)
        elif isinstance(n, ast.Constant) and not in_docstring(n):
            a, b = span(n, starts, bsrc)
            if isinstance(n.value, bool):
                emit(a, b, str(not n.value), "bool", n)
            elif isinstance(n.value, int):
                for new in {n.value + 1, n.value - 1} - {n.value}:
                    p = getattr(n, "_parent", None)
                    if isinstance(p, ast.UnaryOp):
                        continue
                    emit(a, b, str(new) if new >= 0 else "(%d)" % new,
                         "int", n)
        elif isinstance(n, ast.UnaryOp) and isinstance(n.op, ast.USub) and \
                isinstance(n.operand, ast.Constant) and \
                isinstance(n.operand.value, int):
            a, b = span(n, starts, bsrc)
            v = -n.operand.value
            for new in (v + 1, v - 1):
                emit(a, b, str(new) if new >= 0 else "(%d)" % new, "int", n)
        elif isinstance(n, ast.UnaryOp) and isinstance(n.op, ast.Not):
            a, b = span(n, starts, bsrc)
            oa, ob = span(n.operand, starts, bsrc)
            emit(a, b, "(" + bsrc[oa:ob].decode("utf-8") + ")", "not", n)
        elif isinstance(n, ast.Attribute) and isinstance(
                getattr(n, "_parent", None), ast.Call) and \
                n._parent.func is n and n.attr in TWINS:
            a, b = span(n, starts, bsrc)
            for tw in TWINS[n.attr]:
                if tw in ("insert0", "setdefault_"):
                    continue
                emit(b - len(n.attr), b, tw, "twin", n)
        elif isinstance(n, ast.Call) and len(n.args) >= 2 and not any(
                isinstance(x, ast.Starred) for x in n.args):
            for i in range(len(n.args) - 1):
                x, y = n.args[i], n.args[i + 1]
                xa, xb = span(x, starts, bsrc)
                ya, yb = span(y, starts, bsrc)
                xs, ys = bsrc[xa:xb].decode(), bsrc[ya:yb].decode()
                if xs != ys:
                    emit(xa, yb, ys + bsrc[xb:ya].decode() + xs,
                         "argswap", n)
        elif isinstance(n, ast.Slice):
            pass
        if isinstance(n, ast.Subscript) and isinstance(n.slice, ast.Slice):
            sl = n.slice
            va, vb = span(n.value, starts, bsrc)
            a, b = span(n, starts, bsrc)
            inner = bsrc[vb:b].decode("utf-8")
            if sl.lower is not None and sl.upper is None and sl.step is None:
                lo = bsrc[slice(*span(sl.lower, starts, bsrc))].decode()
                emit(vb, b, "[:%s]" % lo, "slice", n)
            elif sl.lower is None and sl.upper is not None and sl.step is None:
                up = bsrc[slice(*span(sl.upper, starts, bsrc))].decode()
                emit(vb, b, "[%s:]" % up, "slice", n)

    # statement deletion: a call statement, an augmented assignment, a
    # 'continue' / 'break', an element of a keyword argument list ...
    lines = src.splitlines(keepends=True)
    for n in ast.walk(tree):
        if isinstance(n, (ast.FunctionDef, ast.For, ast.While, ast.If,
                          ast.With, ast.Try, ast.ExceptHandler)):
            for fld in ("body", "orelse", "finalbody"):
                blk = getattr(n, fld, None)
                if not isinstance(blk, list):
                    continue
                for st in blk:
                    if isinstance(st, ast.Expr) and isinstance(
                            st.value, ast.Constant):
                        continue
                    if not isinstance(st, (ast.Expr, ast.AugAssign,
                                           ast.Continue, ast.Break,
                                           ast.Assign, ast.Delete)):
                        continue
                    if isinstance(st, ast.Assign) and not any(
                            isinstance(t, (ast.Subscript, ast.Attribute))
                            for t in st.targets):
                        continue    # a dropped local binding is a NameError
                    a = starts[st.lineno - 1]
                    b = starts[st.end_lineno]
                    old = bsrc[a:b].decode("utf-8")
                    indent = old[:len(old) - len(old.lstrip())]
                    fn = st
                    while fn is not None and not isinstance(
                            fn, (ast.FunctionDef, ast.ClassDef)):
                        fn = getattr(fn, "_parent", None)
                    out.append(dict(file=rel, line=st.lineno, a=a, b=b,
                                    old=old, new=indent + "pass\n",
                                    kind="del",
                                    func=getattr(fn, "name", "<module>")))

    # omissions inside expressions: one keyword argument of a call, one
    # element of a display, one operand of an and/or chain
    def cut(a, b):
        """remove bsrc[a:b] plus the separator that goes with it"""
        text = bsrc.decode("utf-8", "replace")
        return a, b
    for n in ast.walk(tree):
        items = None
        kind = None
        if isinstance(n, ast.Call) and n.keywords and (
                len(n.keywords) + len(n.args)) >= 2:
            items = [k for k in n.keywords if k.arg]
            allitems = list(n.args) + list(n.keywords)
            kind = "kwdel"
        elif isinstance(n, (ast.Tuple, ast.List, ast.Set)) and \
                len(n.elts) >= 2 and isinstance(
                    getattr(n, "ctx", ast.Load()), ast.Load):
            items = list(n.elts)
            allitems = list(n.elts)
            kind = "eltdel"
        elif isinstance(n, ast.Dict) and len(n.keys) >= 2 and all(
                k is not None for k in n.keys):
            items = None
        elif isinstance(n, ast.BoolOp) and len(n.values) >= 2:
            for i, v in enumerate(n.values):
                others = [x for j, x in enumerate(n.values) if j != i]
                a0 = span(n.values[0], starts, bsrc)[0]
                b0 = span(n.values[-1], starts, bsrc)[1]
                word = " and " if isinstance(n.op, ast.And) else " or "
                new = word.join(
                    bsrc[slice(*span(x, starts, bsrc))].decode("utf-8")
                    for x in others)
                if "\n" in bsrc[a0:b0].decode("utf-8"):
                    new = "(" + new + ")"
                emit(a0, b0, new, "opdel", n)
            continue
        if not items:
            continue
        for it in items:
            idx = allitems.index(it)
            ia, ib = span(it.value if kind == "kwdel" else it, starts, bsrc)
            if kind == "kwdel":
                ia = ia - len(it.arg.encode()) - 1
                while bsrc[ia:ia + len(it.arg)].decode("utf-8",
                                                         "replace") != it.arg \
                        and ia > 0:
                    ia -= 1
            if idx + 1 < len(allitems):
                nx = allitems[idx + 1]
                na = span(nx.value if isinstance(nx, ast.keyword) else nx,
                          starts, bsrc)[0]
                if isinstance(nx, ast.keyword) and nx.arg:
                    na = na - len(nx.arg.encode()) - 1
                    while bsrc[na:na + len(nx.arg)].decode(
                            "utf-8", "replace") != nx.arg and na > 0:
                        na -= 1
                emit(ia, na, "", kind, n)
            elif idx > 0:
                pv = allitems[idx - 1]
                pb = span(pv.value if isinstance(pv, ast.keyword) else pv,
                          starts, bsrc)[1]
                emit(pb, ib, "", kind, n)

    # a call taken away: f(x) -> x for one-argument calls of plain names and
    # x.m() -> x for no-argument string / copy methods ("the call looked
    # redundant"); a string constant exchanged for a sibling constant of the
    # same function (the wrong key / the wrong name)
    annot = set()
    for n in ast.walk(tree):
        anns = []
        if isinstance(n, (ast.arg, ast.AnnAssign)) and \
                n.annotation is not None:
            anns.append(n.annotation)
        if isinstance(n, (ast.FunctionDef, ast.AsyncFunctionDef)) and \
                n.returns is not None:
            anns.append(n.returns)
        for a_ in anns:
            for x in ast.walk(a_):
                annot.add(id(x))
    for n in ast.walk(tree):
        if not isinstance(n, ast.Call) or id(n) in annot:
            continue
        if any(isinstance(a_, ast.Starred) for a_ in n.args) or n.keywords:
            continue
        a, b = span(n, starts, bsrc)
        if isinstance(n.func, ast.Name) and len(n.args) == 1 and \
                n.func.id not in ("isinstance", "TypeVar", "cast", "len",
                                  "print", "repr", "id", "type", "iter",
                                  "super"):
            xa, xb = span(n.args[0], starts, bsrc)
            emit(a, b, "(" + bsrc[xa:xb].decode("utf-8") + ")", "unwrap", n)
        elif isinstance(n.func, ast.Attribute) and not n.args and \
                n.func.attr in ("strip", "lstrip", "rstrip", "lower", "upper",
                                "copy", "title", "capitalize"):
            xa, xb = span(n.func.value, starts, bsrc)
            emit(a, b, "(" + bsrc[xa:xb].decode("utf-8") + ")", "unwrap", n)
    QUOTES = ("'", '"')
    for fn_ in ast.walk(tree):
        if not isinstance(fn_, (ast.FunctionDef, ast.AsyncFunctionDef)):
            continue
        consts = []
        for x in ast.walk(fn_):
            if isinstance(x, ast.Constant) and isinstance(x.value, str) \
                    and not in_docstring(x) and id(x) not in annot and \
                    re.fullmatch(r"[A-Za-z_][\w:-]{0,24}", x.value):
                consts.append(x)
        vals = sorted({x.value for x in consts})
        if len(vals) < 2:
            continue
        for x in consts:
            a, b = span(x, starts, bsrc)
            raw = bsrc[a:b].decode("utf-8")
            if len(raw) < 3 or raw[0] not in QUOTES or raw[1] == raw[0]:
                continue
            i = vals.index(x.value)
            other = vals[(i + 1) % len(vals)]
            emit(a, b, raw[0] + other + raw[0], "strswap", x)

    # the wrong attribute of self (another one read in the same function),
    # and a result thrown away (return X -> return None)
    for fn_ in ast.walk(tree):
        if not isinstance(fn_, (ast.FunctionDef, ast.AsyncFunctionDef)):
            continue
        attrs = []
        for x in ast.walk(fn_):
            if isinstance(x, ast.Attribute) and isinstance(
                    x.value, ast.Name) and x.value.id in ("self", "node") \
                    and isinstance(x.ctx, ast.Load) and id(x) not in annot:
                par = getattr(x, "_parent", None)
                if isinstance(par, ast.Call) and par.func is x:
                    continue          # a method call
                attrs.append(x)
        for base in ("self", "node"):
            names = sorted({x.attr for x in attrs if x.value.id == base})
            if len(names) < 2:
                continue
            for x in attrs:
                if x.value.id != base:
                    continue
                a, b = span(x, starts, bsrc)
                other = names[(names.index(x.attr) + 1) % len(names)]
                emit(a, b, "%s.%s" % (base, other), "attrswap", x)
        is_gen = any(isinstance(y, (ast.Yield, ast.YieldFrom))
                     for y in ast.walk(fn_))
        if not is_gen:
            for r_ in ast.walk(fn_):
                if isinstance(r_, ast.Return) and r_.value is not None and \
                        not (isinstance(r_.value, ast.Constant) and
                             r_.value.value is None):
                    a, b = span(r_.value, starts, bsrc)
                    emit(a, b, "None", "retnone", r_)

    # the wrong variable: a local / parameter read replaced by another
    # local / parameter of the same function (every third site, to bound
    # the sweep)
    k_ = 0
    for fn_ in ast.walk(tree):
        if not isinstance(fn_, (ast.FunctionDef, ast.AsyncFunctionDef)):
            continue
        bound = {a_.arg for a_ in fn_.args.args + fn_.args.kwonlyargs
                 if a_.arg not in ("self", "cls")}
        for x in ast.walk(fn_):
            if isinstance(x, ast.Name) and isinstance(x.ctx, ast.Store):
                bound.add(x.id)
        names = sorted(bound)
        if len(names) < 2:
            continue
        for x in ast.walk(fn_):
            if not (isinstance(x, ast.Name) and isinstance(x.ctx, ast.Load)
                    and x.id in bound) or id(x) in annot:
                continue
            par = getattr(x, "_parent", None)
            if isinstance(par, ast.Call) and par.func is x:
                continue
            k_ += 1
            if k_ % 3:
                continue
            a, b = span(x, starts, bsrc)
            other = names[(names.index(x.id) + 1) % len(names)]
            emit(a, b, other, "nameswap", x)

    # string literals: generated-code fragments and regular expressions
    FRAG = [(r" is not ", " is "), (r" is not ", " != "), (r" is ", " == "),
            (r" == ", " != "), (r" != ", " == "), (r" and ", " or "),
            (r" or ", " and "), (r"\bnot ", ""), (r" in ", " not in "),
            (r"econtext", "rcontext"), (r"rcontext", "econtext"),
            (r"\.get\(", ".pop("), (r"\[1:\]", "[:1]"), (r"\[0\]", "[1]"),
            (r"\[1\]", "[0]"), (r"\[-1\]", "[0]"), (r" < ", " <= "),
            (r" > ", " >= "), (r" \+ 1", " + 2"), (r" - 1", " - 2"),
            (r"\bTrue\b", "False"), (r"\bFalse\b", "True"),
            (r"\bNone\b", "__marker")]
    RX = [(r"(?<=[\]\)\w.])\*(?![?+])", "+"), (r"(?<=[\]\)\w.])\+(?![?+])", "*"),
          (r"(?<=[\]\)\w.])\+(?![?+])", "+?"),
          (r"(?<=[\]\)\w.])\*(?![?+])", "*?"),
          (r"(?<=[\]\)\w])\?(?![?+:=!<P])", ""), (r"\\s", r"[ ]"),
          (r"\\w", r"[a-z]"), (r"\^", ""), (r"\$$", ""),
          (r"\(\?!", "(?="), (r"\(\?=", "(?!")]
    for n in ast.walk(tree):
        if not (isinstance(n, ast.Constant) and isinstance(
                n.value, (str, bytes))) or in_docstring(n):
            continue
        a, b = span(n, starts, bsrc)
        raw = bsrc[a:b].decode("utf-8")
        p = n
        is_frag = is_rx = False
        while p is not None and not isinstance(p, ast.stmt):
            if isinstance(p, ast.Call):
                f = ast.unparse(p.func)
                if f in ("template",) or f.startswith("emit_") or \
                        f.endswith(".template"):
                    is_frag = True
                if f in ("re.compile", "re.search", "re.match", "re.sub",
                         "a", "re.split"):
                    is_rx = True
            p = getattr(p, "_parent", None)
        if isinstance(p, ast.Assign) and isinstance(
                p.targets[0], ast.Name) and re.search(
                    r"(?i)re$|regex|^_?META|^RE_|_re$|NAME|Expr|Decl|CE$|SE$|"
                    r"PE$|SPE$", p.targets[0].id):
            is_rx = True
        val = n.value if isinstance(n.value, str) else ""
        if not is_frag and isinstance(n.value, str) and "\n" in val and \
                re.search(r"^\s*(if|for|def|try|return)\b|\w+ = ", val, re.M) \
                and rel.endswith(("compiler.py", "tales.py", "codegen.py")):
            is_frag = True
        if is_frag:
            for pat, rep_ in FRAG:
                for m in re.finditer(pat, raw):
                    new = raw[:m.start()] + rep_ + raw[m.end():]
                    emit(a, b, new, "frag", n)
        if is_rx:
            for pat, rep_ in RX:
                for m in re.finditer(pat, raw):
                    new = raw[:m.start()] + rep_ + raw[m.end():]
                    emit(a, b, new, "regex", n)
    return out


def gen(out, only=None):
    muts = []
    for dp, dn, fns in os.walk(PKG):
        dn[:] = [d for d in dn if d not in ("tests", "__pycache__")]
        for fn in sorted(fns):
            if not fn.endswith(".py") or fn == "benchmark.py":
                continue
            p = os.path.join(dp, fn)
            rel = os.path.relpath(p, REPO)
            if only and only not in rel:
                continue
            muts += gen_file(p, rel)
    # de-duplicate, number
    seen = set()
    res = []
    for m in muts:
        k = (m["file"], m["a"], m["b"], m["new"])
        if k in seen:
            continue
        seen.add(k)
        m["id"] = len(res)
        res.append(m)
    os.makedirs(out, exist_ok=True)
    with open(os.path.join(out, "mutants.jsonl"), "w") as f:
        for m in res:
            f.write(json.dumps(m) + "\n")
    kinds = {}
    for m in res:
        kinds[m["kind"]] = kinds.get(m["kind"], 0) + 1
    print(len(res), "mutants", kinds)


def run_rules(root):
    from chamlint.core import (AnalysisError, Report, Repo, finding_key,
                               load_known)
    from chamlint import lib
    fired = {}
    known = load_known()
    repo = None
    for prop in PROPS:
        lib._CACHE.clear()
        mod = importlib.import_module("chamlint.rules.%s" % prop.lower())
        rep = Report(prop, "sweep")
        try:
            mod.run(Repo(root), rep, "quick")
        except AnalysisError as exc:
            fired[prop] = ["ANALYSIS-ERROR " + str(exc)[:100]]
            continue
        except Exception as exc:  # noqa
            fired[prop] = ["ANALYSIS-ERROR %s %s" % (type(exc).__name__,
                                                     str(exc)[:100])]
            continue
        v = ["%s[%s]" % (o["rule"], o["construct"])
             for o in rep.obligations if o["status"] == "VIOLATED"
             and finding_key(prop, o) not in known]
        if v:
            fired[prop] = v[:3]
    return fired


def test_one(m):
    tmp = tempfile.mkdtemp(prefix="msweep-")
    try:
        shutil.copytree(os.path.join(REPO, "src"), os.path.join(tmp, "src"),
                        ignore=shutil.ignore_patterns("__pycache__", "*.pyc"))
        p = os.path.join(tmp, m["file"])
        b = open(p, "rb").read()
        if b[m["a"]:m["b"]].decode("utf-8") != m["old"]:
            return dict(id=m["id"], status="stale")
        open(p, "wb").write(b[:m["a"]] + m["new"].encode("utf-8") +
                            b[m["b"]:])
        try:
            ast.parse(open(p, encoding="utf-8").read())
        except SyntaxError:
            return dict(id=m["id"], status="syntax")
        env = dict(os.environ, PYTHONPATH=os.path.join(tmp, "src"),
                   PYTHONDONTWRITEBYTECODE="1")
        try:
            r = subprocess.run(
                ["/venv/bin/python", "-m", "pytest", "-q", "-x", "-p",
                 "no:cacheprovider", "--timeout=120",
                 os.path.join(tmp, "src", "chameleon", "tests")],
                capture_output=True, text=True, env=env, cwd=tmp,
                timeout=600)
            tail = r.stdout.strip().splitlines()[-1] if r.stdout.strip() \
                else ""
        except subprocess.TimeoutExpired:
            return dict(id=m["id"], status="timeout")
        if "233 passed" not in tail or "failed" in tail or "error" in tail:
            return dict(id=m["id"], status="killed-by-tests")
        shutil.rmtree(os.path.join(tmp, "src", "chameleon", "tests"))
        fired = run_rules(tmp)
        return dict(id=m["id"], status="survived", fired=fired)
    except Exception as exc:  # noqa
        return dict(id=m["id"], status="error", detail=str(exc)[:200])
    finally:
        shutil.rmtree(tmp, ignore_errors=True)


def test(out, jobs, only=None, limit=None, kinds=None):
    muts = [json.loads(l) for l in open(os.path.join(out, "mutants.jsonl"))]
    done = set()
    rp = os.path.join(out, "results.jsonl")
    if os.path.exists(rp):
        for l in open(rp):
            done.add(json.loads(l)["id"])
    todo = [m for m in muts if m["id"] not in done
            and (not only or only in m["file"])
            and (not kinds or m["kind"] in kinds)]
    if limit:
        todo = todo[:limit]
    print(len(todo), "to test")
    with ProcessPoolExecutor(max_workers=jobs) as ex, open(rp, "a") as f:
        for i, r in enumerate(ex.map(test_one, todo, chunksize=1)):
            f.write(json.dumps(r) + "\n")
            f.flush()
            if i % 50 == 0:
                print(i, flush=True)


def recheck_one(m):
    tmp = tempfile.mkdtemp(prefix="msweep-")
    try:
        shutil.copytree(os.path.join(REPO, "src"), os.path.join(tmp, "src"),
                        ignore=shutil.ignore_patterns("__pycache__", "*.pyc",
                                                      "tests"))
        p = os.path.join(tmp, m["file"])
        b = open(p, "rb").read()
        a0, b0 = m["a"], m["b"]
        if b[a0:b0].decode("utf-8", "replace") != m["old"]:
            # the file moved under a later repair: find the text again
            k = b.find(m["old"].encode("utf-8"))
            if k < 0 or b.find(m["old"].encode("utf-8"), k + 1) >= 0:
                return dict(id=m["id"], status="stale")
            a0, b0 = k, k + len(m["old"].encode("utf-8"))
        open(p, "wb").write(b[:a0] + m["new"].encode("utf-8") + b[b0:])
        return dict(id=m["id"], status="survived", fired=run_rules(tmp))
    except Exception as exc:  # noqa
        return dict(id=m["id"], status="error", detail=str(exc)[:200])
    finally:
        shutil.rmtree(tmp, ignore_errors=True)


def recheck(out, jobs):
    """run today's rule sets again on every survivor -> results2.jsonl"""
    muts = {json.loads(l)["id"]: json.loads(l)
            for l in open(os.path.join(out, "mutants.jsonl"))}
    todo = [muts[json.loads(l)["id"]]
            for l in open(os.path.join(out, "results.jsonl"))
            if json.loads(l)["status"] == "survived"]
    print(len(todo), "survivors to re-check")
    with ProcessPoolExecutor(max_workers=jobs) as ex, \
            open(os.path.join(out, "results2.jsonl"), "w") as f:
        for r in ex.map(recheck_one, todo, chunksize=4):
            f.write(json.dumps(r) + "\n")


def report(out):
    muts = {json.loads(l)["id"]: json.loads(l)
            for l in open(os.path.join(out, "mutants.jsonl"))}
    st = {}
    rows = []
    for l in open(os.path.join(out, "results.jsonl")):
        r = json.loads(l)
        st[r["status"]] = st.get(r["status"], 0) + 1
        if r["status"] == "survived":
            m = muts[r["id"]]
            real = {k: v for k, v in r["fired"].items()
                    if not v[0].startswith("ANALYSIS-ERROR")}
            err = {k: v for k, v in r["fired"].items()
                   if v[0].startswith("ANALYSIS-ERROR")}
            rows.append((m, real, err))
    print(st)
    und = [(m, e) for m, f, e in rows if not f]

    def likely_equivalent(m):
        # identity vs equality on a singleton; cosmetic functions
        if m["kind"] == "cmp" and {m["old"].strip(), m["new"].strip()} in (
                {"is", "=="}, {"is not", "!="}):
            return True
        if m["func"] in ("__repr__", "__str__", "annotated", "dump") or \
                m["file"].endswith(("config.py", "types.py")):
            return True
        return False
    if "--all" not in sys.argv:
        und = [(m, e) for m, e in und if not likely_equivalent(m)]
        print("(likely-equivalent ones hidden: --all shows them)")
    print("survivors: %d, reported by some rule set: %d, analysis-error "
          "only: %d, silent: %d" % (
              len(rows), len([1 for m, f, e in rows if f]),
              len([1 for m, f, e in rows if not f and e]),
              len([1 for m, f, e in rows if not f and not e])))
    for m, e in und:
        print("%5d %-28s %-5d %-8s %-28s %s -> %s %s" % (
            m["id"], m["file"].replace("src/chameleon/", ""), m["line"],
            m["kind"], m["func"][:28],
            m["old"].replace("\n", "\\n")[:40],
            m["new"].replace("\n", "\\n")[:40], "(AE)" if e else ""),
            flush=True)


if __name__ == "__main__":
    args = sys.argv[1:]
    out = "/tmp/msweep"
    jobs = 16
    only = limit = kinds = None
    if "--out" in args:
        out = args[args.index("--out") + 1]
    if "--jobs" in args:
        jobs = int(args[args.index("--jobs") + 1])
    if "--only" in args:
        only = args[args.index("--only") + 1]
    if "--limit" in args:
        limit = int(args[args.index("--limit") + 1])
    if "--kinds" in args:
        kinds = set(args[args.index("--kinds") + 1].split(","))
    if args[0] == "gen":
        gen(out, only)
    elif args[0] == "test":
        test(out, jobs, only, limit, kinds)
    elif args[0] == "recheck":
        recheck(out, jobs)
    elif args[0] == "report":
        report(out)
