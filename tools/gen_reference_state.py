#!/usr/bin/env python3
"""Regenerate chamlint/reference_state.json: the census of everything in the
package that can remember something between two uses (see lib.state_census).
Run it only after the new items were reviewed."""
import json, os, sys
HERE = os.path.dirname(os.path.dirname(os.path.abspath(__file__)))
sys.path.insert(0, HERE)
from chamlint.core import Repo
from chamlint import lib as L
c = sorted(L.state_census(Repo("/repo")))
json.dump({"comment": "reviewed census of state that outlives one use "
           "(lib.state_census); regenerate with tools/gen_reference_state.py "
           "after review", "census": c},
          open(os.path.join(HERE, "chamlint", "reference_state.json"), "w"),
          indent=1)
print(len(c), "items")
