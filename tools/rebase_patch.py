#!/usr/bin/env python3
"""Re-create a stored seeded patch against the current /repo tree when only
its context lines went stale: every hunk's removed lines are looked up as a
block in the current file and replaced by the added lines.

usage: tools/rebase_patch.py seeded/<id>/patch.diff   (rewrites it in place)
"""
import os
import re
import shutil
import subprocess
import sys
import tempfile


def main(path):
    text = open(path).read()
    files = re.split(r"(?m)^diff --git ", text)[1:]
    tmp = tempfile.mkdtemp(prefix="rebase-")
    try:
        shutil.copytree("/repo/src", os.path.join(tmp, "a", "src"),
                        ignore=shutil.ignore_patterns("__pycache__"))
        shutil.copytree("/repo/src", os.path.join(tmp, "b", "src"),
                        ignore=shutil.ignore_patterns("__pycache__"))
        for f in files:
            name = re.search(r"^a/(\S+)", f).group(1)
            cur = open(os.path.join(tmp, "b", name)).read()
            for hunk in re.split(r"(?m)^@@.*@@.*\n", f)[1:]:
                lines = hunk.split("\n")
                # split the hunk into change groups separated by context
                old, new, groups = [], [], []
                for ln in lines:
                    if ln.startswith("-"):
                        old.append(ln[1:])
                    elif ln.startswith("+"):
                        new.append(ln[1:])
                    elif ln.startswith("\\"):
                        continue
                    else:
                        if old or new:
                            groups.append((old, new, ln[1:] if ln else None))
                            old, new = [], []
                        else:
                            groups.append(([], [], ln[1:] if ln else None))
                if old or new:
                    groups.append((old, new, None))
                # merge: use preceding context line as anchor for pure adds
                prev_ctx = None
                for old, new, ctx in groups:
                    if old:
                        blk = "\n".join(old) + "\n"
                        if cur.count(blk) != 1:
                            print("cannot place removal block uniquely:",
                                  old[:2], cur.count(blk))
                            return 1
                        cur = cur.replace(blk, "\n".join(new) + "\n"
                                          if new else "", 1)
                    elif new:
                        if prev_ctx is None or cur.count(prev_ctx + "\n") != 1:
                            print("cannot anchor addition after:", prev_ctx)
                            return 1
                        cur = cur.replace(prev_ctx + "\n", prev_ctx + "\n" +
                                          "\n".join(new) + "\n", 1)
                    if ctx is not None and (old or new or True):
                        prev_ctx = ctx if ctx.strip() else prev_ctx
            open(os.path.join(tmp, "b", name), "w").write(cur)
        r = subprocess.run(["git", "diff", "--no-index", "a", "b"], cwd=tmp,
                           capture_output=True, text=True)
        out = r.stdout.replace("a/a/", "a/").replace("b/b/", "b/")
        if not out.strip():
            print("empty diff")
            return 1
        open(path, "w").write(out)
        print("rebased", path)
        return 0
    finally:
        shutil.rmtree(tmp, ignore_errors=True)


if __name__ == "__main__":
    sys.exit(main(sys.argv[1]))
