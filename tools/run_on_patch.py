#!/venv/bin/python
"""Run all (or some) chamlint checks against /repo + a patch, without touching
/repo: the package sources are copied to a scratch directory under $TMPDIR,
the patch is applied there with `git apply`, the static rules run with
Repo(root=scratch), the scratch copy is removed.

usage: tools/run_on_patch.py PATCH.diff [Cnn ...]
prints one line per property: fired / silent / analysis-error
"""
import importlib
import os
import shutil
import subprocess
import sys
import tempfile
from concurrent.futures import ProcessPoolExecutor

HERE = os.path.dirname(os.path.dirname(os.path.abspath(__file__)))
sys.path.insert(0, HERE)
sys.dont_write_bytecode = True

from chamlint.core import (REPO, AnalysisError, Report, Repo,  # noqa: E402
                           finding_key, load_known)

PROPS = ["C%02d" % i for i in range(1, 21)]


def one(args):
    prop, root = args
    from chamlint import lib
    lib._CACHE.clear()
    mod = importlib.import_module("chamlint.rules.%s" % prop.lower())
    rep = Report(prop, "patch")
    try:
        mod.run(Repo(root), rep, "quick")
    except AnalysisError as exc:
        return prop, "analysis-error", str(exc)[:160]
    except Exception as exc:  # noqa
        return prop, "analysis-error", "%s: %s" % (type(exc).__name__,
                                                   str(exc)[:160])
    known = load_known()
    viol = [o for o in rep.obligations if o["status"] == "VIOLATED"
            and finding_key(prop, o) not in known]
    if viol:
        return prop, "fired", "; ".join(
            "%s[%s] %s" % (v["rule"], v["construct"], v["site"].split(".")[-1])
            for v in viol[:3])
    return prop, "silent", ""


def main(argv):
    patch = os.path.abspath(argv[0])
    props = [p.upper() for p in argv[1:]] or PROPS
    tmp = tempfile.mkdtemp(prefix="chamlint-patch-")
    try:
        shutil.copytree(os.path.join(REPO, "src"), os.path.join(tmp, "src"),
                        ignore=shutil.ignore_patterns("__pycache__", "*.pyc"))
        r = subprocess.run(["git", "apply", "--include=*src/chameleon/*", "--unsafe-paths", "--directory",
                            tmp, patch], capture_output=True, text=True,
                           cwd=tmp)
        if r.returncode != 0:
            r = subprocess.run(["patch", "-p1", "-d", tmp, "-i", patch],
                               capture_output=True, text=True)
            if r.returncode != 0:
                print("patch does not apply:", r.stderr[:300], r.stdout[:300])
                return 2
        with ProcessPoolExecutor(max_workers=min(16, len(props))) as ex:
            results = list(ex.map(one, [(p, tmp) for p in props]))
    finally:
        shutil.rmtree(tmp, ignore_errors=True)
    fired = [p for p, s, _ in results if s == "fired"]
    for p, s, info in results:
        if s != "silent":
            print("%s %-14s %s" % (p, s, info))
    print("fired: %s" % (" ".join(fired) or "none"))
    return 0


if __name__ == "__main__":
    sys.exit(main(sys.argv[1:]))
