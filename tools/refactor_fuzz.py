#!/venv/bin/python
"""Robustness probe: apply behaviour-preserving rewrites to a scratch copy
of the package and list the obligations that (wrongly) fire.

modes:  unparse   -- every module is replaced by ast.unparse(ast.parse(src))
                     (formatting, comments, quotes, redundant parentheses)
        rename    -- local variables of every function are alpha-renamed
                     (parameters, attributes, globals and names used in
                     nested functions are left alone)
        rename-some[-<seed>] -- a random half of them
        extract-return -- 'return EXPR' becomes 'result_x = EXPR; return
                     result_x'
        swap -- adjacent independent assignments with call-free right-hand
                     sides change places
        noop-first -- a no-op expression statement is put at the start of
                     every function body
        if-invert -- every plain if/else has its test negated and its
                     branches swapped
"""
import ast
import importlib
import os
import shutil
import sys
import tempfile
from concurrent.futures import ProcessPoolExecutor

HERE = os.path.dirname(os.path.dirname(os.path.abspath(__file__)))
sys.path.insert(0, HERE)
from chamlint.core import (REPO, AnalysisError, Report, Repo,  # noqa: E402
                           finding_key, load_known)

PROPS = ["C%02d" % i for i in range(1, 21)]


from chamlint.refactors import rewrite, MODES  # noqa: E402


def one(args):
    prop, root = args
    from chamlint import lib
    lib._CACHE.clear()
    mod = importlib.import_module("chamlint.rules.%s" % prop.lower())
    rep = Report(prop, "fuzz")
    try:
        mod.run(Repo(root), rep, "quick")
    except AnalysisError as exc:
        return prop, ["ANALYSIS-ERROR " + str(exc)[:150]]
    except Exception as exc:  # noqa
        return prop, ["ANALYSIS-ERROR %s: %s" % (type(exc).__name__,
                                                 str(exc)[:150])]
    known = load_known()
    viol = [o for o in rep.obligations if o["status"] == "VIOLATED"
            and finding_key(prop, o) not in known]
    return prop, ["%s[%s] %s" % (v["rule"], v["construct"],
                                 v["site"].split(".")[-1]) for v in viol]


def main(argv):
    mode = argv[0] if argv else "unparse"
    if "--keep" in argv:
        # only write the rewritten tree (for debugging a single rule with
        # CHAMLINT_REPO=<dir> bin/check Cnn); the caller removes it
        dst = argv[argv.index("--keep") + 1]
        shutil.copytree(os.path.join(REPO, "src"), os.path.join(dst, "src"),
                        ignore=shutil.ignore_patterns("__pycache__", "*.pyc",
                                                      "tests"))
        rewrite(mode, dst)
        print("kept", dst)
        return
    tmp = tempfile.mkdtemp(prefix="chamlint-fuzz-")
    try:
        shutil.copytree(os.path.join(REPO, "src"), os.path.join(tmp, "src"),
                        ignore=shutil.ignore_patterns("__pycache__", "*.pyc",
                                                      "tests"))
        rewrite(mode, tmp)
        if len(argv) > 1 and argv[1] == "--test":
            # sanity: the rewritten package still passes the test suite
            shutil.copytree(os.path.join(REPO, "src", "chameleon", "tests"),
                            os.path.join(tmp, "src", "chameleon", "tests"))
            import subprocess
            r = subprocess.run(
                "cd %s && PYTHONPATH=%s/src /venv/bin/python -m pytest -q "
                "-p no:cacheprovider -x src/chameleon/tests 2>&1 | tail -2"
                % (tmp, tmp), shell=True, capture_output=True, text=True)
            print(r.stdout)
            shutil.rmtree(os.path.join(tmp, "src", "chameleon", "tests"))
        with ProcessPoolExecutor(max_workers=16) as ex:
            results = list(ex.map(one, [(p, tmp) for p in PROPS]))
    finally:
        shutil.rmtree(tmp, ignore_errors=True)
    total = 0
    for p, v in results:
        total += len(v)
        for x in v:
            print(p, x)
    print("%s: %d false alarm(s)" % (mode, total))


if __name__ == "__main__":
    main(sys.argv[1:])
