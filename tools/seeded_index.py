#!/venv/bin/python
"""Regenerate /verif/seeded/INDEX.md from the meta.json files."""
import json
import os
HERE = os.path.dirname(os.path.dirname(os.path.abspath(__file__)))
root = os.path.join(HERE, "seeded")
misses = {}
mf = os.path.join(root, "INITIAL_MISSES.txt")
if os.path.exists(mf):
    for ln in open(mf):
        if ln.startswith("#") or "->" not in ln:
            continue
        k, v = ln.split("->", 1)
        misses[k.strip()] = v.strip()
rows = []
for d in sorted(os.listdir(root)):
    mp = os.path.join(root, d, "meta.json")
    if not os.path.exists(mp):
        continue
    m = json.load(open(mp))
    rows.append((d, m))
out = ["# Independently seeded breaking changes", "",
       "Each directory holds `patch.diff` (against /repo), `demo.py` (exits 0 "
       "on the clean tree, non-zero with the patch; run with "
       "`PYTHONPATH=<tree>/src /venv/bin/python demo.py`), `note.txt` (the "
       "author's description) and `meta.json` (what was run to confirm it, "
       "which checks fire).  Produced by sub-agents that saw only the "
       "property text and a private worktree; confirmed here: test suite 233 "
       "passed with the patch, demo fails with it and passes without.", "",
       "| change | needs to manifest | checks that fire now | when it "
       "arrived |", "|---|---|---|---|"]
n_missed = 0
for d, m in rows:
    first = "caught"
    if d in misses:
        first = "**missed** -> " + misses[d]
        n_missed += 1
    needs = " ".join(str(m.get("needs_to_manifest", "")).split())[:140]
    out.append("| %s | %s | %s | %s |" % (
        d, needs, " ".join(m.get("checks_that_fire", [])) or "none", first))
out += ["", "%d changes; %d were not caught by the check of their own "
        "property when they arrived (each led to a new or stronger rule, "
        "named in the last column); all are caught now unless marked "
        "otherwise." % (len(rows), n_missed)]
open(os.path.join(root, "INDEX.md"), "w").write("\n".join(out) + "\n")
print("INDEX.md:", len(rows), "changes,", n_missed, "initially missed")
