#!/venv/bin/python
"""The false-alarm corpus of the mutation sweeps: one-spot edits that pass the
test suite AND were judged behaviour-preserving (EQUIVALENT) or outside the
twenty properties (OUTSIDE) by an independent triage agent -- or, for the
first two sweeps whose verdict files were not kept, that no rule set reported
and no agent could turn into a demo ("silent-at-sweep").

  collect <sweep-dir> <label> [--verdicts 'glob of verdicts.json'] [--results results2.jsonl]
        append the sweep's non-breaking survivors to seeded/equivalents/corpus.jsonl
        (each with the text around the edit, so it can be found again after
        the file has moved)
  check [--jobs N] [--only label] [--props C01,C02]
        apply every corpus entry to a scratch copy of /repo's current sources
        and run the rule sets; prints the entries some rule set reports.
        EQUIVALENT entries that fire are false alarms (exit 1), OUTSIDE /
        silent-at-sweep entries that fire are listed for examination (the
        rule may rightly be stricter than the triage).

Nothing here runs repository code: entries are applied as text, the rules read
the scratch copy.
"""
import glob
import importlib
import json
import os
import shutil
import subprocess
import sys
import tempfile
from concurrent.futures import ProcessPoolExecutor

HERE = os.path.dirname(os.path.dirname(os.path.abspath(__file__)))
sys.path.insert(0, HERE)
sys.dont_write_bytecode = True
CORPUS = os.path.join(HERE, "seeded", "equivalents", "corpus.jsonl")
REPO = "/repo"
PROPS = ["C%02d" % i for i in range(1, 21)]
CTX = 80


def _opt(name, default=None):
    return sys.argv[sys.argv.index(name) + 1] if name in sys.argv else default


def _history(path):
    """the file's content at HEAD and at every earlier commit (newest first)"""
    revs = subprocess.run(["git", "-C", REPO, "log", "--format=%H", "--",
                           path], capture_output=True, text=True
                          ).stdout.split()
    for r in revs:
        b = subprocess.run(["git", "-C", REPO, "show", "%s:%s" % (r, path)],
                           capture_output=True).stdout
        yield r, b


def collect(out, label):
    muts = {json.loads(l)["id"]: json.loads(l)
            for l in open(os.path.join(out, "mutants.jsonl"))}
    verdicts = {}
    vg = _opt("--verdicts")
    if vg:
        for vp in glob.glob(vg):
            for k, v in json.load(open(vp)).items():
                verdicts[int(k)] = v
    res = _opt("--results", "results.jsonl")
    stored = set()
    for d in os.listdir(os.path.join(HERE, "seeded")):
        mj = os.path.join(HERE, "seeded", d, "meta.json")
        if os.path.exists(mj):
            stored.add(d)
    have = set()
    if os.path.exists(CORPUS):
        have = {(json.loads(l)["sweep"], json.loads(l)["id"])
                for l in open(CORPUS)}
    os.makedirs(os.path.dirname(CORPUS), exist_ok=True)
    hist = {}
    n = 0
    with open(CORPUS, "a") as f:
        for l in open(os.path.join(out, res)):
            r = json.loads(l)
            if r["status"] != "survived":
                continue
            real = {k: v for k, v in r.get("fired", {}).items()
                    if not v[0].startswith("ANALYSIS-ERROR")}
            m = muts[r["id"]]
            v = verdicts.get(m["id"])
            if vg:
                if v is None or v.get("verdict") not in ("EQUIVALENT",
                                                         "OUTSIDE"):
                    continue
                verdict, reason = v["verdict"], v.get("reason", "")
            else:
                if real:
                    continue
                base = os.path.basename(m["file"]).replace(".py", "")
                if any("-m%d-%s-" % (m["id"], base) in d for d in stored):
                    continue      # turned into a demo: it breaks a property
                verdict, reason = "silent-at-sweep", ""
            if (label, m["id"]) in have:
                continue
            if m["file"] not in hist:
                hist[m["file"]] = list(_history(m["file"]))
            ctx = None
            for rev, b in hist[m["file"]]:
                if b[m["a"]:m["b"]].decode("utf-8", "replace") == m["old"]:
                    ctx = (b[max(0, m["a"] - CTX):m["a"]].decode(
                        "utf-8", "replace"),
                        b[m["b"]:m["b"] + CTX].decode("utf-8", "replace"))
                    break
            if ctx is None:
                continue
            f.write(json.dumps(dict(
                sweep=label, id=m["id"], file=m["file"], func=m["func"],
                kind=m["kind"], old=m["old"], new=m["new"], pre=ctx[0],
                post=ctx[1], verdict=verdict, reason=reason)) + "\n")
            n += 1
    print(n, "entries added to", CORPUS)


def locate(text, e):
    """offset of the edit in today's file, or None"""
    for k in (CTX, 40, 20, 8):
        pre = e["pre"][-k:] if k else ""
        post = e["post"][:k]
        needle = pre + e["old"] + post
        i = text.find(needle)
        if i >= 0 and text.find(needle, i + 1) < 0:
            return i + len(pre)
    return None


def check_one(args):
    e, props = args
    p0 = os.path.join(REPO, e["file"])
    text = open(p0, encoding="utf-8").read()
    at = locate(text, e)
    if at is None:
        return e, "stale", {}
    tmp = tempfile.mkdtemp(prefix="equiv-")
    try:
        shutil.copytree(os.path.join(REPO, "src"), os.path.join(tmp, "src"),
                        ignore=shutil.ignore_patterns("__pycache__", "*.pyc",
                                                      "tests"))
        new = text[:at] + e["new"] + text[at + len(e["old"]):]
        open(os.path.join(tmp, e["file"]), "w", encoding="utf-8").write(new)
        from chamlint import lib
        from chamlint.core import (AnalysisError, Report, Repo, finding_key,
                                   load_known)
        known = load_known()
        fired = {}
        for prop in props:
            lib._CACHE.clear()
            mod = importlib.import_module("chamlint.rules.%s" % prop.lower())
            rep = Report(prop, "equiv")
            try:
                mod.run(Repo(tmp), rep, "quick")
            except AnalysisError as exc:
                fired[prop] = ["ANALYSIS-ERROR " + str(exc)[:120]]
                continue
            except Exception as exc:  # noqa
                fired[prop] = ["ANALYSIS-ERROR %s: %s" % (
                    type(exc).__name__, str(exc)[:120])]
                continue
            viol = [o for o in rep.obligations if o["status"] == "VIOLATED"
                    and finding_key(prop, o) not in known]
            if viol:
                fired[prop] = ["%s[%s]" % (v["rule"], v["construct"])
                               for v in viol[:3]]
        return e, "ok", fired
    finally:
        shutil.rmtree(tmp, ignore_errors=True)


def check():
    jobs = int(_opt("--jobs", "14"))
    only = _opt("--only")
    props = (_opt("--props") or ",".join(PROPS)).split(",")
    entries = [json.loads(l) for l in open(CORPUS)]
    if only:
        entries = [e for e in entries if e["sweep"] == only]
    bad = exam = stale = 0
    with ProcessPoolExecutor(max_workers=jobs) as ex:
        for e, st, fired in ex.map(check_one, [(e, props) for e in entries],
                                   chunksize=2):
            if st == "stale":
                stale += 1
                continue
            if not fired:
                continue
            tag = "FALSE-ALARM" if e["verdict"] == "EQUIVALENT" else "EXAMINE"
            if tag == "FALSE-ALARM":
                bad += 1
            else:
                exam += 1
            print("%s %s/%d %s %s (%s) %r -> %r  [%s] %s" % (
                tag, e["sweep"], e["id"], e["file"].replace(
                    "src/chameleon/", ""), e["func"], e["kind"],
                e["old"][:40], e["new"][:40], e["verdict"],
                "; ".join("%s %s" % (k, ",".join(v))
                          for k, v in sorted(fired.items()))), flush=True)
    print("%d entries: %d false alarm(s), %d to examine, %d stale" % (
        len(entries), bad, exam, stale))
    return 1 if bad else 0


if __name__ == "__main__":
    if sys.argv[1] == "collect":
        collect(sys.argv[2], sys.argv[3])
    elif sys.argv[1] == "check":
        sys.exit(check())
