#!/usr/bin/env python3
"""Regenerate chamlint/reference_locals.json from the current /repo tree.
Run after a fix commit in /repo that adds/removes/renames locals and after
the rules quoting them were adapted."""
import json, os, sys
sys.path.insert(0, os.path.dirname(os.path.dirname(os.path.abspath(__file__))))
from chamlint import alpha
from chamlint.core import REPO
ref = alpha.generate(REPO)
with open(alpha.REF_PATH, "w") as f:
    json.dump(ref, f, indent=0, sort_keys=True)
print("%d functions with locals" % len(ref))
