#!/venv/bin/python
"""Prepare triage batches for the survivors of tools/mutation_sweep.py that
no rule set reports: per batch a scratch worktree, the mutants as patch
files and a prompt for an independent sub-agent (which sees the property
texts only, nothing of /verif's machinery).

usage: tools/triage_batches.py <sweep-dir> <tag> [--size N] [--max-batches K]
 -> /tmp/triage<tag>/batchNN.txt (prompt), worktrees /tmp/wt<tag>-NN with
    mutants/<id>.diff
"""
import json
import os
import subprocess
import sys

out, tag = sys.argv[1], sys.argv[2]
size = int(sys.argv[sys.argv.index("--size") + 1]) if "--size" in sys.argv \
    else 12
maxb = int(sys.argv[sys.argv.index("--max-batches") + 1]) \
    if "--max-batches" in sys.argv else 999
skip_ids = set()
if "--skip" in sys.argv:
    skip_ids = set(json.load(open(sys.argv[sys.argv.index("--skip") + 1])))

muts = {json.loads(l)["id"]: json.loads(l)
        for l in open(os.path.join(out, "mutants.jsonl"))}
cands = []
for l in open(os.path.join(out, "results.jsonl")):
    r = json.loads(l)
    if r["status"] != "survived":
        continue
    real = {k: v for k, v in r["fired"].items()
            if not v[0].startswith("ANALYSIS-ERROR")}
    if real:
        continue
    m = muts[r["id"]]
    if m["id"] in skip_ids:
        continue
    if m["kind"] == "cmp" and {m["old"].strip(), m["new"].strip()} in (
            {"is", "=="}, {"is not", "!="}):
        continue
    if m["func"] in ("__repr__", "__str__", "annotated", "dump") or \
            m["file"].endswith(("config.py", "types.py", "exc.py",
                                "codegen.py")):
        continue
    cands.append(m)
cands.sort(key=lambda m: (m["file"], m["line"], m["id"]))
print(len(cands), "candidates")

props = [json.loads(l) for l in open("/verif/properties.jsonl")]
ptext = "\n\n".join("%s -- %s\n%s" % (p["id"], p["title"], p["statement"])
                    for p in props)

os.makedirs("/tmp/triage%s" % tag, exist_ok=True)
batches = [cands[i:i + size] for i in range(0, len(cands), size)][:maxb]
for k, batch in enumerate(batches):
    wt = "/tmp/wt%s-%02d" % (tag, k)
    if not os.path.isdir(wt):
        subprocess.run(["git", "-C", "/repo", "worktree", "add", "--detach",
                        wt, "HEAD"], check=True, capture_output=True)
    os.makedirs(os.path.join(wt, "mutants"), exist_ok=True)
    lines = []
    for m in batch:
        p = os.path.join(wt, m["file"])
        b = open(p, "rb").read()
        assert b[m["a"]:m["b"]].decode() == m["old"], m
        open(p, "wb").write(b[:m["a"]] + m["new"].encode() + b[m["b"]:])
        d = subprocess.run(["git", "diff"], cwd=wt, capture_output=True,
                           text=True).stdout
        subprocess.run(["git", "checkout", "--", "src"], cwd=wt)
        open(os.path.join(wt, "mutants", "%d.diff" % m["id"]), "w").write(d)
        lines.append("  mutant %d: %s line %d, in %s  (%s)" % (
            m["id"], m["file"], m["line"], m["func"], m["kind"]))
    text = """You are helping to evaluate a verification tool for the open-source project malthe/chameleon (a pure-Python compiler for Zope Page Templates). You work ONLY inside your own scratch git worktree of the project: {wt} (source under {wt}/src/chameleon). Do not touch /repo or /verif, and do not look into /verif.

In {wt}/mutants/ there are {n} small patch files (<id>.diff), each a ONE-TOKEN change to the source (a comparison operator, a constant, a near-twin string method, a regex quantifier, an operator inside a generated-code string ...). Every one of them, applied alone, still PASSES the complete existing test suite (233 tests) -- that has been checked already. The question for each of them is whether it breaks the documented behaviour of chameleon as described by one of these twenty properties:

-----
{props}
-----

The mutants of your batch:
{lines}

YOUR TASK, for each mutant <id> (work on one at a time: `cd {wt} && git apply mutants/<id>.diff`, study it, experiment, then `git checkout -- src` before the next one):
  1. Read the changed function and understand what the token does. Decide whether the change can alter any observable behaviour (rendered output, raised exception type/location, cache behaviour, effect on arguments ...) for SOME input, possibly an unusual one (nesting, particular value classes, odd but legal template text, a sequence of operations).
  2. If it can and the altered behaviour violates one of the properties above: write {wt}/seeded/demo<id>.py -- a small standalone program that exits 0 on the CLEAN tree and NON-ZERO with the mutant applied (it must be run as `cd {wt} && PYTHONPATH={wt}/src /venv/bin/python seeded/demo<id>.py` and should print what it observed) --, copy the patch to {wt}/seeded/patch<id>.diff, and write {wt}/seeded/note<id>.txt whose FIRST line is `PROPERTY: Cnn` (the property it breaks; if several, the most fitting one) followed by 2-5 lines: what the token does, which clause breaks, what input is needed. Verify: demo fails with the mutant applied, passes after `git checkout -- src`.
  3. If the change is behaviour-preserving (equivalent), or changes something none of the twenty properties speaks about (wording of a message, performance, an unreachable branch), do not write a demo; just record the verdict.
Finally write {wt}/seeded/verdicts.json: a JSON object mapping each mutant id (as a string) to {{"verdict": "BREAKS" | "EQUIVALENT" | "OUTSIDE", "property": "Cnn" or null, "reason": "<one or two sentences>"}}.

Be economical: spend effort on the mutants that look like real behaviour changes; a mutant you cannot make fail after a serious attempt (a few experiments) is recorded as EQUIVALENT or OUTSIDE with the reason. Do not edit the tests, do not add files under src, and leave the worktree clean (apart from seeded/ and mutants/) at the end. Reply with a short table: id, verdict, property, one-line reason.
""".format(wt=wt, n=len(batch), props=ptext, lines="\n".join(lines))
    open("/tmp/triage%s/batch%02d.txt" % (tag, k), "w").write(text)
print(len(batches), "batches written to /tmp/triage%s" % tag)
