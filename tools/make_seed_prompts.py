#!/usr/bin/env python3
"""Write one prompt per property for an independent seeding round and create
the scratch worktrees.  The prompt contains the text of the property only
(nothing from /verif's machinery).

usage: tools/make_seed_prompts.py <round-tag> <n-changes> <emphasis-file>
 -> /tmp/agent<tag>-Cnn.txt, worktrees /tmp/w<tag>-Cnn
"""
import json, os, subprocess, sys

tag, n, emph = sys.argv[1], int(sys.argv[2]), open(sys.argv[3]).read().strip()
WORDS = {3: "THREE", 4: "FOUR", 5: "FIVE"}
for line in open("/verif/properties.jsonl"):
    p = json.loads(line)
    pid = p["id"]
    wt = "/tmp/w%s-%s" % (tag, pid)
    if not os.path.isdir(wt):
        subprocess.run(["git", "-C", "/repo", "worktree", "add", "--detach",
                        wt, "HEAD"], check=True, capture_output=True)
    a = p["anchors"]
    prop = "\n\n".join([
        "PROPERTY %s: %s" % (pid, p["title"]),
        "STATEMENT: " + p["statement"],
        "QUANTIFIER: " + p["quantifier"]["text"],
        "WHY THE EXISTING TESTS CANNOT SETTLE IT: " + p["why_tests_cant"],
        "WHERE IT LIVES (files): " + ", ".join(a["files"]) + "\n" +
        "MECHANISMS: " + "; ".join("%s (%s)" % (m["name"], m["where"])
                                   for m in a["mechanism"]) + "\n" +
        "STATE: " + "; ".join("%s (%s)" % (m["name"], m["where"])
                              for m in a.get("state", [])),
    ])
    text = """You are helping to evaluate a verification tool by producing realistic regressions ("seeded defects") for the open-source project malthe/chameleon (a pure-Python compiler for Zope Page Templates). You work ONLY inside your own scratch git worktree of the project: {wt}  (source under {wt}/src/chameleon). Do not touch /repo or /verif, and do not look into /verif.

Here is one semantic property of chameleon that should always hold:

-----
{prop}
-----

YOUR TASK: produce {N} different, independent source changes to chameleon (each one applied alone to the clean worktree) such that each change
  (a) BREAKS the property above for some input/program/sequence,
  (b) still imports/compiles, and
  (c) still PASSES the complete existing test suite (233 tests). Run it like this and make sure it prints "233 passed":
        cd {wt} && PYTHONPATH={wt}/src /venv/bin/python -m pytest -q -p no:cacheprovider --timeout=900
Prefer changes that look like plausible maintenance work and that need something specific to manifest (an unusual input, nesting, a multi-step sequence, a particular value class, two cooperating sites that each look fine alone) rather than ones that ordinary use would expose at once. The changes should be of different kinds and touch different functions. Keep each change small (a few lines).

{emph}

For each change N in 1..{n} deliver, in the directory {wt}/seeded/ (create it):
  - patchN.diff   : `git diff` of the change against the clean worktree (so that `git apply patchN.diff` on a clean tree reproduces it)
  - demoN.py      : a small standalone program that exits with status 0 on the CLEAN tree and with a NON-ZERO status (assertion failure is fine) when patchN is applied. It must be run as:  cd {wt} && PYTHONPATH={wt}/src /venv/bin/python seeded/demoN.py . It should print what it observed.
  - noteN.txt     : 3-6 lines: what was changed, which clause of the property it breaks, what is needed for it to manifest.
Procedure for each change: edit, run the test suite (must be 233 passed), run the demo (must fail), save `git diff > seeded/patchN.diff`, then `git checkout -- src` to return to the clean tree, and run the demo again (must pass on the clean tree). Make sure that at the end the worktree is clean except for the seeded/ directory.

ALSO: if, while probing, you find that the CLEAN tree already violates the property for some input, do not seed into that; instead write {wt}/seeded/cleanN.py (a standalone program that prints what it observed and exits non-zero on the clean tree) plus two lines in {wt}/seeded/clean_notes.txt, and mention it in your summary.

Read the relevant source first to understand the mechanism. Do not edit the tests. Do not add new files under src. When you are done, reply with a short summary listing for each change: file/function touched, one-line description, and confirmation that tests passed / demo fails with patch / demo passes without.
""".format(wt=wt, prop=prop, N=WORDS.get(n, str(n)), n=n, emph=emph)
    open("/tmp/agent%s-%s.txt" % (tag, pid), "w").write(text)
print("prompts written")
