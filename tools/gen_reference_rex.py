#!/usr/bin/env python3
"""Freeze the shallow-parsing grammar (REX, Cameron 1998) of tokenize.py: for
every named piece the structure of its folded regular expression.  Run only
after a deliberate, reviewed change of that table."""
import json, os, sys
sys.path.insert(0, os.path.dirname(os.path.dirname(os.path.abspath(__file__))))
import re._parser as sp
from chamlint.core import Repo, REPO
from chamlint.rules.c03 import fold_collector
res = fold_collector(Repo(REPO))
out = {k: repr(sp.parse(v)) for k, v in res.items()}
p = os.path.join(os.path.dirname(os.path.dirname(os.path.abspath(__file__))), "chamlint", "reference_rex.json")
json.dump(out, open(p, "w"), indent=0, sort_keys=True)
print(len(out), "pieces")
