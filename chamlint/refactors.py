"""Behaviour-preserving rewrites of the package source, used to probe the
rules for false alarms (thorough tier: every property's rules must stay
silent on every rewritten tree; tools/refactor_fuzz.py runs them all).

modes:  unparse   -- every module is replaced by ast.unparse(ast.parse(src))
                     (formatting, comments, quotes, redundant parentheses)
        rename    -- local variables of every leaf function are renamed
        rename-some[-<seed>] -- a random half of them
        if-invert -- every plain if/else has its test negated and its
                     branches swapped
        extract-return -- 'return EXPR' becomes 'result_x = EXPR; return
                     result_x'
        noop-first -- a no-op expression statement at the start of every
                     function body
        annotate  -- the first plain assignment of every local gets a type
                     annotation (x: "Any" = v)
        fstring   -- '...%s' % x becomes an f-string where that is safe
        swap      -- adjacent independent assignments with call-free
                     right-hand sides change places
        compare-flip -- a == b / a != b with plain operands are written the
                     other way round
        unpack-split -- a, b = x, y becomes two assignments where that is
                     safe
        strip-docstrings -- function and class docstrings are removed
"""
import ast
import os

MODES = ("unparse", "rename", "rename-some-1", "if-invert", "extract-return",
         "noop-first", "swap", "fstring", "annotate", "compare-flip",
         "unpack-split", "strip-docstrings")


class Renamer(ast.NodeTransformer):
    rng = None      # random.Random -> rename about half of the locals

    def visit_FunctionDef(self, node):
        # only leaf functions (no nested defs / lambdas / comprehension
        # scoping issues are avoided by leaving comprehension targets alone)
        nested = [n for n in ast.walk(node) if n is not node and isinstance(
            n, (ast.FunctionDef, ast.Lambda, ast.ClassDef))]
        self.generic_visit(node)
        if nested:
            return node
        params = {a.arg for a in node.args.posonlyargs + node.args.args +
                  node.args.kwonlyargs}
        if node.args.vararg:
            params.add(node.args.vararg.arg)
        if node.args.kwarg:
            params.add(node.args.kwarg.arg)
        declared = set()
        for n in ast.walk(node):
            if isinstance(n, (ast.Global, ast.Nonlocal)):
                declared.update(n.names)
        comp_targets = set()
        for n in ast.walk(node):
            if isinstance(n, ast.comprehension):
                for t in ast.walk(n.target):
                    if isinstance(t, ast.Name):
                        comp_targets.add(t.id)
        stores = {n.id for n in ast.walk(node) if isinstance(n, ast.Name)
                  and isinstance(n.ctx, ast.Store)}
        for n in ast.walk(node):
            if isinstance(n, ast.ExceptHandler) and n.name:
                stores.discard(n.name)
                declared.add(n.name)
        local = stores - params - declared - comp_targets
        local = {x for x in local if not x.startswith("__")}
        if self.rng is not None:
            local = {x for x in sorted(local) if self.rng.random() < 0.5}
        for n in ast.walk(node):
            if isinstance(n, ast.Name) and n.id in local:
                n.id = n.id + "_r"
        return node


class IfInverter(ast.NodeTransformer):
    """if c: A else: B  ->  if not c: B else: A   (plain if/else only)"""

    def visit_If(self, node):
        self.generic_visit(node)
        if node.orelse and not (len(node.orelse) == 1 and
                                isinstance(node.orelse[0], ast.If)):
            t = node.test
            if isinstance(t, ast.UnaryOp) and isinstance(t.op, ast.Not):
                nt = t.operand
            elif isinstance(t, ast.Compare) and len(t.ops) == 1 and \
                    type(t.ops[0]) in (ast.Is, ast.IsNot, ast.Eq, ast.NotEq,
                                       ast.In, ast.NotIn):
                flip = {ast.Is: ast.IsNot, ast.IsNot: ast.Is, ast.Eq: ast.NotEq,
                        ast.NotEq: ast.Eq, ast.In: ast.NotIn,
                        ast.NotIn: ast.In}[type(t.ops[0])]
                nt = ast.Compare(t.left, [flip()], t.comparators)
            else:
                nt = ast.UnaryOp(ast.Not(), t)
            node.test = nt
            node.body, node.orelse = node.orelse, node.body
        return node


class ReturnExtractor(ast.NodeTransformer):
    """return EXPR  ->  result_x = EXPR; return result_x  (non-trivial EXPR,
    outside generators / nested scopes that already use the name)"""

    def visit_FunctionDef(self, node):
        self.generic_visit(node)
        used = {n.id for n in ast.walk(node) if isinstance(n, ast.Name)}
        if "result_x" in used:
            return node

        def fix(body):
            out = []
            for st in body:
                for fld in ("body", "orelse", "finalbody"):
                    b = getattr(st, fld, None)
                    if isinstance(b, list) and b and isinstance(
                            b[0], ast.stmt) and not isinstance(
                                st, (ast.FunctionDef, ast.ClassDef)):
                        setattr(st, fld, fix(b))
                for h in getattr(st, "handlers", []) or []:
                    h.body = fix(h.body)
                if isinstance(st, ast.Return) and st.value is not None and \
                        not isinstance(st.value, (ast.Name, ast.Constant)):
                    out.append(ast.Assign([ast.Name("result_x", ast.Store())],
                                          st.value))
                    out.append(ast.Return(ast.Name("result_x", ast.Load())))
                else:
                    out.append(st)
            return out
        node.body = fix(node.body)
        return node


def _pure(e):
    return all(isinstance(n, (ast.Name, ast.Constant, ast.Attribute,
                              ast.BinOp, ast.UnaryOp, ast.Compare, ast.Tuple,
                              ast.List, ast.Load, ast.operator, ast.unaryop,
                              ast.cmpop, ast.boolop, ast.BoolOp, ast.expr_context))
               for n in ast.walk(e))


class Swapper(ast.NodeTransformer):
    """adjacent independent assignments with call-free right-hand sides
    change places"""

    def generic_visit(self, node):
        super().generic_visit(node)
        for fld in ("body", "orelse", "finalbody"):
            blk = getattr(node, fld, None)
            if not (isinstance(blk, list) and len(blk) >= 2 and
                    isinstance(blk[0], ast.stmt)):
                continue
            i = 0
            while i + 1 < len(blk):
                a, b = blk[i], blk[i + 1]
                if isinstance(a, ast.Assign) and isinstance(b, ast.Assign) \
                        and len(a.targets) == 1 and len(b.targets) == 1 and \
                        isinstance(a.targets[0], ast.Name) and \
                        isinstance(b.targets[0], ast.Name) and \
                        _pure(a.value) and _pure(b.value):
                    an, bn = a.targets[0].id, b.targets[0].id
                    names_a = {n.id for n in ast.walk(a.value)
                               if isinstance(n, ast.Name)}
                    names_b = {n.id for n in ast.walk(b.value)
                               if isinstance(n, ast.Name)}
                    if an != bn and an not in names_b and bn not in names_a:
                        blk[i], blk[i + 1] = b, a
                        i += 2
                        continue
                i += 1
        return node


class NoopInserter(ast.NodeTransformer):
    """a no-op expression statement after the docstring of every function"""

    def visit_FunctionDef(self, node):
        self.generic_visit(node)
        i = 1 if (node.body and isinstance(node.body[0], ast.Expr) and
                  isinstance(node.body[0].value, ast.Constant) and
                  isinstance(node.body[0].value.value, str)) else 0
        node.body.insert(i, ast.Expr(ast.Constant(None)))
        return node


class FStringer(ast.NodeTransformer):
    """'...%s...' % (a, b)  ->  f'...{a}...{b}'   (only %s / %d / %r / %%,
    tuple literal or a single non-tuple-looking operand)"""

    def visit_BinOp(self, node):
        self.generic_visit(node)
        if not (isinstance(node.op, ast.Mod) and
                isinstance(node.left, ast.Constant) and
                isinstance(node.left.value, str)):
            return node
        import re as _re
        fmt = node.left.value
        specs = _re.findall(r"%(.)", fmt)
        if not specs or any(c not in "sdr%" for c in specs):
            return node
        n = sum(1 for c in specs if c != "%")
        if isinstance(node.right, ast.Tuple):
            args = list(node.right.elts)
        elif isinstance(node.right, (ast.Call, ast.Attribute, ast.Constant,
                                     ast.BinOp, ast.Subscript)):
            args = [node.right]
        else:
            return node
        if len(args) != n or any(isinstance(a, ast.Starred) for a in args):
            return node
        if "{" in fmt or "}" in fmt or "\\" in fmt:
            return node
        parts = _re.split(r"(%.)", fmt)
        values = []
        it = iter(args)
        for part in parts:
            if part == "%%":
                values.append(ast.Constant("%"))
            elif part in ("%s", "%d", "%r"):
                a = next(it)
                # nested quotes inside f-strings need 3.12; keep it simple
                if any(isinstance(x, ast.Constant) and isinstance(
                        x.value, str) for x in ast.walk(a)):
                    return node
                conv = ord("r") if part == "%r" else -1
                spec = ast.JoinedStr([ast.Constant("d")]) \
                    if part == "%d" else None
                values.append(ast.FormattedValue(a, conv, spec))
            elif part:
                values.append(ast.Constant(part))
        return ast.JoinedStr(values)


class Annotator(ast.NodeTransformer):
    """x = v  ->  x: "Any" = v   for simple local assignments (local
    annotations are not evaluated)"""

    def visit_FunctionDef(self, node):
        self.generic_visit(node)
        seen = set()
        declared = set()
        for n in ast.walk(node):
            if isinstance(n, (ast.Global, ast.Nonlocal)):
                declared.update(n.names)
        for n in ast.walk(node):
            for fld in ("body", "orelse", "finalbody"):
                blk = getattr(n, fld, None)
                if not (isinstance(blk, list) and blk and
                        isinstance(blk[0], ast.stmt)):
                    continue
                for i, st in enumerate(blk):
                    if isinstance(st, ast.Assign) and len(st.targets) == 1 \
                            and isinstance(st.targets[0], ast.Name) and \
                            st.targets[0].id not in seen and \
                            st.targets[0].id not in declared:
                        seen.add(st.targets[0].id)
                        blk[i] = ast.AnnAssign(st.targets[0],
                                               ast.Constant("Any"),
                                               st.value, 1)
        return node


class CompareFlipper(ast.NodeTransformer):
    """a == b -> b == a (also !=) where both sides are plain reads"""

    @staticmethod
    def _plain(e):
        return all(isinstance(n, (ast.Name, ast.Attribute, ast.Constant,
                                  ast.Load, ast.Subscript, ast.Tuple,
                                  ast.UnaryOp, ast.USub))
                   for n in ast.walk(e))

    def visit_Compare(self, node):
        self.generic_visit(node)
        if len(node.ops) == 1 and isinstance(node.ops[0], (ast.Eq, ast.NotEq)) \
                and self._plain(node.left) and \
                self._plain(node.comparators[0]):
            return ast.Compare(node.comparators[0], node.ops, [node.left])
        return node


class UnpackSplitter(ast.NodeTransformer):
    """a, b = x, y -> a = x; b = y when no target name occurs in a value
    and the values are plain reads"""

    def _split(self, blk):
        out = []
        for st in blk:
            if isinstance(st, ast.Assign) and len(st.targets) == 1 and \
                    isinstance(st.targets[0], ast.Tuple) and \
                    isinstance(st.value, ast.Tuple) and \
                    len(st.targets[0].elts) == len(st.value.elts) and \
                    all(isinstance(t, ast.Name)
                        for t in st.targets[0].elts) and \
                    all(CompareFlipper._plain(v) for v in st.value.elts):
                names = {t.id for t in st.targets[0].elts}
                used = {n.id for v in st.value.elts for n in ast.walk(v)
                        if isinstance(n, ast.Name)}
                if not (names & used):
                    for t, v in zip(st.targets[0].elts, st.value.elts):
                        out.append(ast.Assign([t], v))
                    continue
            out.append(st)
        return out

    def generic_visit(self, node):
        super().generic_visit(node)
        for fld in ("body", "orelse", "finalbody"):
            blk = getattr(node, fld, None)
            if isinstance(blk, list) and blk and isinstance(blk[0], ast.stmt):
                setattr(node, fld, self._split(blk))
        return node


class DocstringStripper(ast.NodeTransformer):
    """function and class docstrings are removed (a lone docstring becomes
    'pass')"""

    def _strip(self, node):
        self.generic_visit(node)
        b = node.body
        if b and isinstance(b[0], ast.Expr) and isinstance(
                b[0].value, ast.Constant) and isinstance(
                    b[0].value.value, str):
            node.body = b[1:] or [ast.Pass()]
        return node

    visit_FunctionDef = _strip
    visit_ClassDef = _strip


def rewrite(mode, tmp):
    root = os.path.join(tmp, "src", "chameleon")
    for dp, dn, fns in os.walk(root):
        for fn in fns:
            if not fn.endswith(".py"):
                continue
            p = os.path.join(dp, fn)
            src = open(p).read()
            tree = ast.parse(src)
            if mode == "rename":
                tree = Renamer().visit(tree)
            elif mode == "extract-return":
                tree = ast.fix_missing_locations(
                    ReturnExtractor().visit(tree))
            elif mode == "swap":
                tree = ast.fix_missing_locations(Swapper().visit(tree))
            elif mode == "noop-first":
                tree = ast.fix_missing_locations(NoopInserter().visit(tree))
            elif mode == "annotate":
                tree = ast.fix_missing_locations(Annotator().visit(tree))
            elif mode == "fstring":
                tree = ast.fix_missing_locations(FStringer().visit(tree))
            elif mode == "if-invert":
                tree = ast.fix_missing_locations(IfInverter().visit(tree))
            elif mode == "compare-flip":
                tree = ast.fix_missing_locations(CompareFlipper().visit(tree))
            elif mode == "unpack-split":
                tree = ast.fix_missing_locations(UnpackSplitter().visit(tree))
            elif mode == "strip-docstrings":
                tree = ast.fix_missing_locations(
                    DocstringStripper().visit(tree))
            elif mode.startswith("rename-some"):
                import random
                r = Renamer()
                r.rng = random.Random(mode + fn)
                tree = r.visit(tree)
            open(p, "w").write(ast.unparse(tree) + "\n")


