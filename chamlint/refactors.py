"""Behaviour-preserving rewrites of the package source, used to probe the
rules for false alarms (thorough tier: every property's rules must stay
silent on every rewritten tree; tools/refactor_fuzz.py runs them all).

modes:  unparse   -- every module is replaced by ast.unparse(ast.parse(src))
                     (formatting, comments, quotes, redundant parentheses)
        rename    -- local variables of every leaf function are renamed
        rename-some[-<seed>] -- a random half of them
        if-invert -- every plain if/else has its test negated and its
                     branches swapped
        extract-return -- 'return EXPR' becomes 'result_x = EXPR; return
                     result_x'
        noop-first -- a no-op expression statement at the start of every
                     function body
        annotate  -- the first plain assignment of every local gets a type
                     annotation (x: "Any" = v)
        fstring   -- '...%s' % x becomes an f-string where that is safe
        swap      -- adjacent independent assignments with call-free
                     right-hand sides change places
        compare-flip -- a == b / a != b with plain operands are written the
                     other way round
        unpack-split -- a, b = x, y becomes two assignments where that is
                     safe
        strip-docstrings -- function and class docstrings are removed
"""
import ast
import os

MODES = ("unparse", "rename", "rename-some-1", "if-invert", "extract-return",
         "noop-first", "swap", "fstring", "annotate", "compare-flip",
         "unpack-split", "strip-docstrings")


class Renamer(ast.NodeTransformer):
    rng = None      # random.Random -> rename about half of the locals

    def visit_FunctionDef(self, node):
        # only leaf functions (no nested defs / lambdas / comprehension
        # scoping issues are avoided by leaving comprehension targets alone)
        nested = [n for n in ast.walk(node) if n is not node and isinstance(
            n, (ast.FunctionDef, ast.Lambda, ast.ClassDef))]
        self.generic_visit(node)
        if nested:
            return node
        params = {a.arg for a in node.args.posonlyargs + node.args.args +
                  node.args.kwonlyargs}
        if node.args.vararg:
            params.add(node.args.vararg.arg)
        if node.args.kwarg:
            params.add(node.args.kwarg.arg)
        declared = set()
        for n in ast.walk(node):
            if isinstance(n, (ast.Global, ast.Nonlocal)):
                declared.update(n.names)
        comp_targets = set()
        for n in ast.walk(node):
            if isinstance(n, ast.comprehension):
                for t in ast.walk(n.target):
                    if isinstance(t, ast.Name):
                        comp_targets.add(t.id)
        stores = {n.id for n in ast.walk(node) if isinstance(n, ast.Name)
                  and isinstance(n.ctx, ast.Store)}
        for n in ast.walk(node):
            if isinstance(n, ast.ExceptHandler) and n.name:
                stores.discard(n.name)
                declared.add(n.name)
        local = stores - params - declared - comp_targets
        local = {x for x in local if not x.startswith("__")}
        if self.rng is not None:
            local = {x for x in sorted(local) if self.rng.random() < 0.5}
        for n in ast.walk(node):
            if isinstance(n, ast.Name) and n.id in local:
                n.id = n.id + "_r"
        return node


class IfInverter(ast.NodeTransformer):
    """if c: A else: B  ->  if not c: B else: A   (plain if/else only)"""

    def visit_If(self, node):
        self.generic_visit(node)
        if node.orelse and not (len(node.orelse) == 1 and
                                isinstance(node.orelse[0], ast.If)):
            t = node.test
            if isinstance(t, ast.UnaryOp) and isinstance(t.op, ast.Not):
                nt = t.operand
            elif isinstance(t, ast.Compare) and len(t.ops) == 1 and \
                    type(t.ops[0]) in (ast.Is, ast.IsNot, ast.Eq, ast.NotEq,
                                       ast.In, ast.NotIn):
                flip = {ast.Is: ast.IsNot, ast.IsNot: ast.Is, ast.Eq: ast.NotEq,
                        ast.NotEq: ast.Eq, ast.In: ast.NotIn,
                        ast.NotIn: ast.In}[type(t.ops[0])]
                nt = ast.Compare(t.left, [flip()], t.comparators)
            else:
                nt = ast.UnaryOp(ast.Not(), t)
            node.test = nt
            node.body, node.orelse = node.orelse, node.body
        return node


class ReturnExtractor(ast.NodeTransformer):
    """return EXPR  ->  result_x = EXPR; return result_x  (non-trivial EXPR,
    outside generators / nested scopes that already use the name)"""

    def visit_FunctionDef(self, node):
        self.generic_visit(node)
        used = {n.id for n in ast.walk(node) if isinstance(n, ast.Name)}
        if "result_x" in used:
            return node

        def fix(body):
            out = []
            for st in body:
                for fld in ("body", "orelse", "finalbody"):
                    b = getattr(st, fld, None)
                    if isinstance(b, list) and b and isinstance(
                            b[0], ast.stmt) and not isinstance(
                                st, (ast.FunctionDef, ast.ClassDef)):
                        setattr(st, fld, fix(b))
                for h in getattr(st, "handlers", []) or []:
                    h.body = fix(h.body)
                if isinstance(st, ast.Return) and st.value is not None and \
                        not isinstance(st.value, (ast.Name, ast.Constant)):
                    out.append(ast.Assign([ast.Name("result_x", ast.Store())],
                                          st.value))
                    out.append(ast.Return(ast.Name("result_x", ast.Load())))
                else:
                    out.append(st)
            return out
        node.body = fix(node.body)
        return node


def _pure(e):
    return all(isinstance(n, (ast.Name, ast.Constant, ast.Attribute,
                              ast.BinOp, ast.UnaryOp, ast.Compare, ast.Tuple,
                              ast.List, ast.Load, ast.operator, ast.unaryop,
                              ast.cmpop, ast.boolop, ast.BoolOp, ast.expr_context))
               for n in ast.walk(e))


class Swapper(ast.NodeTransformer):
    """adjacent independent assignments with call-free right-hand sides
    change places"""

    def generic_visit(self, node):
        super().generic_visit(node)
        for fld in ("body", "orelse", "finalbody"):
            blk = getattr(node, fld, None)
            if not (isinstance(blk, list) and len(blk) >= 2 and
                    isinstance(blk[0], ast.stmt)):
                continue
            i = 0
            while i + 1 < len(blk):
                a, b = blk[i], blk[i + 1]
                if isinstance(a, ast.Assign) and isinstance(b, ast.Assign) \
                        and len(a.targets) == 1 and len(b.targets) == 1 and \
                        isinstance(a.targets[0], ast.Name) and \
                        isinstance(b.targets[0], ast.Name) and \
                        _pure(a.value) and _pure(b.value):
                    an, bn = a.targets[0].id, b.targets[0].id
                    names_a = {n.id for n in ast.walk(a.value)
                               if isinstance(n, ast.Name)}
                    names_b = {n.id for n in ast.walk(b.value)
                               if isinstance(n, ast.Name)}
                    if an != bn and an not in names_b and bn not in names_a:
                        blk[i], blk[i + 1] = b, a
                        i += 2
                        continue
                i += 1
        return node


class NoopInserter(ast.NodeTransformer):
    """a no-op expression statement after the docstring of every function"""

    def visit_FunctionDef(self, node):
        self.generic_visit(node)
        i = 1 if (node.body and isinstance(node.body[0], ast.Expr) and
                  isinstance(node.body[0].value, ast.Constant) and
                  isinstance(node.body[0].value.value, str)) else 0
        node.body.insert(i, ast.Expr(ast.Constant(None)))
        return node


class FStringer(ast.NodeTransformer):
    """'...%s...' % (a, b)  ->  f'...{a}...{b}'   (only %s / %d / %r / %%,
    tuple literal or a single non-tuple-looking operand)"""

    def visit_BinOp(self, node):
        self.generic_visit(node)
        if not (isinstance(node.op, ast.Mod) and
                isinstance(node.left, ast.Constant) and
                isinstance(node.left.value, str)):
            return node
        import re as _re
        fmt = node.left.value
        specs = _re.findall(r"%(.)", fmt)
        if not specs or any(c not in "sdr%" for c in specs):
            return node
        n = sum(1 for c in specs if c != "%")
        if isinstance(node.right, ast.Tuple):
            args = list(node.right.elts)
        elif isinstance(node.right, (ast.Call, ast.Attribute, ast.Constant,
                                     ast.BinOp, ast.Subscript)):
            args = [node.right]
        else:
            return node
        if len(args) != n or any(isinstance(a, ast.Starred) for a in args):
            return node
        if "{" in fmt or "}" in fmt or "\\" in fmt:
            return node
        parts = _re.split(r"(%.)", fmt)
        values = []
        it = iter(args)
        for part in parts:
            if part == "%%":
                values.append(ast.Constant("%"))
            elif part in ("%s", "%d", "%r"):
                a = next(it)
                # nested quotes inside f-strings need 3.12; keep it simple
                if any(isinstance(x, ast.Constant) and isinstance(
                        x.value, str) for x in ast.walk(a)):
                    return node
                conv = ord("r") if part == "%r" else -1
                spec = ast.JoinedStr([ast.Constant("d")]) \
                    if part == "%d" else None
                values.append(ast.FormattedValue(a, conv, spec))
            elif part:
                values.append(ast.Constant(part))
        return ast.JoinedStr(values)


class Annotator(ast.NodeTransformer):
    """x = v  ->  x: "Any" = v   for simple local assignments (local
    annotations are not evaluated)"""

    def visit_FunctionDef(self, node):
        self.generic_visit(node)
        seen = set()
        declared = set()
        for n in ast.walk(node):
            if isinstance(n, (ast.Global, ast.Nonlocal)):
                declared.update(n.names)
        for n in ast.walk(node):
            for fld in ("body", "orelse", "finalbody"):
                blk = getattr(n, fld, None)
                if not (isinstance(blk, list) and blk and
                        isinstance(blk[0], ast.stmt)):
                    continue
                for i, st in enumerate(blk):
                    if isinstance(st, ast.Assign) and len(st.targets) == 1 \
                            and isinstance(st.targets[0], ast.Name) and \
                            st.targets[0].id not in seen and \
                            st.targets[0].id not in declared:
                        seen.add(st.targets[0].id)
                        blk[i] = ast.AnnAssign(st.targets[0],
                                               ast.Constant("Any"),
                                               st.value, 1)
        return node


class CompareFlipper(ast.NodeTransformer):
    """a == b -> b == a (also !=) where both sides are plain reads"""

    @staticmethod
    def _plain(e):
        return all(isinstance(n, (ast.Name, ast.Attribute, ast.Constant,
                                  ast.Load, ast.Subscript, ast.Tuple,
                                  ast.UnaryOp, ast.USub))
                   for n in ast.walk(e))

    def visit_Compare(self, node):
        self.generic_visit(node)
        if len(node.ops) == 1 and isinstance(node.ops[0], (ast.Eq, ast.NotEq)) \
                and self._plain(node.left) and \
                self._plain(node.comparators[0]):
            return ast.Compare(node.comparators[0], node.ops, [node.left])
        return node


class UnpackSplitter(ast.NodeTransformer):
    """a, b = x, y -> a = x; b = y when no target name occurs in a value
    and the values are plain reads"""

    def _split(self, blk):
        out = []
        for st in blk:
            if isinstance(st, ast.Assign) and len(st.targets) == 1 and \
                    isinstance(st.targets[0], ast.Tuple) and \
                    isinstance(st.value, ast.Tuple) and \
                    len(st.targets[0].elts) == len(st.value.elts) and \
                    all(isinstance(t, ast.Name)
                        for t in st.targets[0].elts) and \
                    all(CompareFlipper._plain(v) for v in st.value.elts):
                names = {t.id for t in st.targets[0].elts}
                used = {n.id for v in st.value.elts for n in ast.walk(v)
                        if isinstance(n, ast.Name)}
                if not (names & used):
                    for t, v in zip(st.targets[0].elts, st.value.elts):
                        out.append(ast.Assign([t], v))
                    continue
            out.append(st)
        return out

    def generic_visit(self, node):
        super().generic_visit(node)
        for fld in ("body", "orelse", "finalbody"):
            blk = getattr(node, fld, None)
            if isinstance(blk, list) and blk and isinstance(blk[0], ast.stmt):
                setattr(node, fld, self._split(blk))
        return node


class DocstringStripper(ast.NodeTransformer):
    """function and class docstrings are removed (a lone docstring becomes
    'pass')"""

    def _strip(self, node):
        self.generic_visit(node)
        b = node.body
        if b and isinstance(b[0], ast.Expr) and isinstance(
                b[0].value, ast.Constant) and isinstance(
                    b[0].value.value, str):
            node.body = b[1:] or [ast.Pass()]
        return node

    visit_FunctionDef = _strip
    visit_ClassDef = _strip


# ---------------------------------------------------------------------------
# second family (round 8): control-structure rewrites


def _blocks(node):
    for fld in ("body", "orelse", "finalbody"):
        blk = getattr(node, fld, None)
        if isinstance(blk, list) and blk and isinstance(blk[0], ast.stmt):
            yield fld, blk
    for h in getattr(node, "handlers", []) or []:
        yield None, h.body


def _ends(blk):
    """the block cannot fall through"""
    return bool(blk) and isinstance(
        blk[-1], (ast.Return, ast.Raise, ast.Continue, ast.Break))


class IfExpToIf(ast.NodeTransformer):
    """x = a if c else b  ->  if c: x = a / else: x = b   (name targets)"""

    def generic_visit(self, node):
        super().generic_visit(node)
        for fld, blk in list(_blocks(node)):
            out = []
            for st in blk:
                if isinstance(st, ast.Assign) and len(st.targets) == 1 and \
                        isinstance(st.targets[0], ast.Name) and \
                        isinstance(st.value, ast.IfExp):
                    t = st.targets[0]
                    out.append(ast.If(
                        st.value.test,
                        [ast.Assign([ast.Name(t.id, ast.Store())],
                                    st.value.body)],
                        [ast.Assign([ast.Name(t.id, ast.Store())],
                                    st.value.orelse)]))
                else:
                    out.append(st)
            blk[:] = out
        return node


class ElseDenester(ast.NodeTransformer):
    """if c: A; return  else: B   ->   if c: A; return   B"""

    def generic_visit(self, node):
        super().generic_visit(node)
        for fld, blk in list(_blocks(node)):
            out = []
            for st in blk:
                if isinstance(st, ast.If) and st.orelse and _ends(st.body) \
                        and not (len(st.orelse) == 1 and isinstance(
                            st.orelse[0], ast.If)):
                    rest = st.orelse
                    st.orelse = []
                    out.append(st)
                    out.extend(rest)
                else:
                    out.append(st)
            blk[:] = out
        return node


class ElseNester(ast.NodeTransformer):
    """if c: A; return   B...   ->   if c: A; return  else: B...
    (function bodies and loop bodies, one level)"""

    def _nest(self, blk):
        for i, st in enumerate(blk):
            if isinstance(st, ast.If) and not st.orelse and _ends(st.body) \
                    and i + 1 < len(blk) and not any(
                        isinstance(x, (ast.FunctionDef, ast.ClassDef))
                        for x in blk[i + 1:]):
                st.orelse = self._nest(blk[i + 1:])
                return blk[:i + 1]
        return blk

    def visit_FunctionDef(self, node):
        self.generic_visit(node)
        node.body = self._nest(node.body)
        return node


class ConditionExtractor(ast.NodeTransformer):
    """if COND: ...  ->  cond_x = COND; if cond_x: ...  for compound
    conditions of plain if statements (not elif)"""

    def visit_FunctionDef(self, node):
        self.generic_visit(node)
        used = {n.id for n in ast.walk(node) if isinstance(n, ast.Name)}
        if any(u.startswith("cond_x") for u in used):
            return node
        if any(isinstance(n, (ast.Yield, ast.YieldFrom, ast.Lambda))
               for n in ast.walk(node)):
            pass
        counter = [0]

        def fix(blk, elif_pos=False):
            out = []
            for st in blk:
                for fld, b in list(_blocks(st)):
                    if isinstance(st, (ast.FunctionDef, ast.ClassDef)):
                        continue
                    is_elif = isinstance(st, ast.If) and fld == "orelse" \
                        and len(b) == 1 and isinstance(b[0], ast.If)
                    b[:] = fix(b, is_elif)
                if isinstance(st, ast.If) and not elif_pos and isinstance(
                        st.test, (ast.BoolOp, ast.Compare, ast.Call)) and \
                        not any(isinstance(n, ast.NamedExpr)
                                for n in ast.walk(st.test)):
                    counter[0] += 1
                    nm = "cond_x%d" % counter[0]
                    out.append(ast.Assign([ast.Name(nm, ast.Store())],
                                          st.test))
                    st.test = ast.Name(nm, ast.Load())
                out.append(st)
            return out
        node.body = fix(node.body)
        return node


class AndSplitter(ast.NodeTransformer):
    """if a and b: X (no else)  ->  if a: if b: X"""

    def visit_If(self, node):
        self.generic_visit(node)
        if not node.orelse and isinstance(node.test, ast.BoolOp) and \
                isinstance(node.test.op, ast.And) and \
                len(node.test.values) == 2:
            a, b = node.test.values
            return ast.If(a, [ast.If(b, node.body, [])], [])
        return node


class IfMerger(ast.NodeTransformer):
    """if a: (only) if b: X  (no else on either)  ->  if a and b: X"""

    def visit_If(self, node):
        self.generic_visit(node)
        if not node.orelse and len(node.body) == 1 and isinstance(
                node.body[0], ast.If) and not node.body[0].orelse:
            inner = node.body[0]
            vals = []
            for t in (node.test, inner.test):
                if isinstance(t, ast.BoolOp) and isinstance(t.op, ast.And):
                    vals.extend(t.values)
                elif isinstance(t, ast.BoolOp):
                    vals.append(t)
                else:
                    vals.append(t)
            return ast.If(ast.BoolOp(ast.And(), vals), inner.body, [])
        return node


class FormatToPercent(ast.NodeTransformer):
    """'{}.{}'.format(a, b) -> '%s.%s' % (a, b)  (auto-numbered plain
    fields only, no '%' in the text)"""

    def visit_Call(self, node):
        self.generic_visit(node)
        if isinstance(node.func, ast.Attribute) and \
                node.func.attr == "format" and isinstance(
                    node.func.value, ast.Constant) and isinstance(
                        node.func.value.value, str) and not node.keywords \
                and node.args and not any(isinstance(a, ast.Starred)
                                          for a in node.args):
            text = node.func.value.value
            import re
            if "%" in text or re.search(r"\{[^}]", text) or \
                    "{{" in text or "}}" in text or \
                    text.count("{}") != len(node.args):
                return node
            fmt = text.replace("{}", "%s")
            right = node.args[0] if len(node.args) == 1 and not isinstance(
                node.args[0], (ast.Tuple, ast.Name, ast.Attribute, ast.Call,
                               ast.Subscript)) else ast.Tuple(
                                   list(node.args), ast.Load())
            return ast.BinOp(ast.Constant(fmt), ast.Mod(), right)
        return node


class ExplicitElse(ast.NodeTransformer):
    """if c: A  ->  if c: A else: pass"""

    def visit_If(self, node):
        self.generic_visit(node)
        if not node.orelse:
            node.orelse = [ast.Pass()]
        return node


class DictCallToLiteral(ast.NodeTransformer):
    """dict(a=1, b=2) -> {'a': 1, 'b': 2}"""

    def visit_Call(self, node):
        self.generic_visit(node)
        if isinstance(node.func, ast.Name) and node.func.id == "dict" and \
                not node.args and node.keywords and all(
                    k.arg is not None for k in node.keywords):
            return ast.Dict([ast.Constant(k.arg) for k in node.keywords],
                            [k.value for k in node.keywords])
        return node


class ForTupleToList(ast.NodeTransformer):
    """for x in (a, b): -> for x in [a, b]:   and   x in (a, b) -> x in
    [a, b] is left alone (only loops)"""

    def visit_For(self, node):
        self.generic_visit(node)
        if isinstance(node.iter, ast.Tuple):
            node.iter = ast.List(node.iter.elts, ast.Load())
        return node


class MethodSorter(ast.NodeTransformer):
    """the plain methods of a class (no decorators) are put in
    alphabetical order behind everything else of the class body"""

    def visit_ClassDef(self, node):
        self.generic_visit(node)
        meths = [st for st in node.body if isinstance(st, ast.FunctionDef)
                 and not st.decorator_list]
        names = [m.name for m in meths]
        if len(set(names)) != len(names):
            return node
        last_other = max([i for i, st in enumerate(node.body)
                          if st not in meths] or [-1])
        first_meth = min([i for i, st in enumerate(node.body)
                          if st in meths] or [len(node.body)])
        if last_other > first_meth:
            # something in the class body follows a method (an alias such as
            # visit_X = visit_Y): keep the order
            return node
        others = [st for st in node.body if st not in meths]
        node.body = others + sorted(meths, key=lambda m: m.name)
        return node


MODES2 = ("ifexp-to-if", "else-denest", "else-nest", "extract-condition",
          "and-split", "if-merge", "format-to-percent", "explicit-else",
          "dict-literal", "for-list", "methods-sorted")
MODES = MODES + MODES2
_MODE2 = {"ifexp-to-if": IfExpToIf, "else-denest": ElseDenester,
          "else-nest": ElseNester, "extract-condition": ConditionExtractor,
          "and-split": AndSplitter, "if-merge": IfMerger,
          "format-to-percent": FormatToPercent, "explicit-else": ExplicitElse,
          "dict-literal": DictCallToLiteral, "for-list": ForTupleToList,
          "methods-sorted": MethodSorter}


def rewrite(mode, tmp):
    root = os.path.join(tmp, "src", "chameleon")
    for dp, dn, fns in os.walk(root):
        for fn in fns:
            if not fn.endswith(".py"):
                continue
            p = os.path.join(dp, fn)
            src = open(p).read()
            tree = ast.parse(src)
            if mode == "rename":
                tree = Renamer().visit(tree)
            elif mode == "extract-return":
                tree = ast.fix_missing_locations(
                    ReturnExtractor().visit(tree))
            elif mode == "swap":
                tree = ast.fix_missing_locations(Swapper().visit(tree))
            elif mode == "noop-first":
                tree = ast.fix_missing_locations(NoopInserter().visit(tree))
            elif mode == "annotate":
                tree = ast.fix_missing_locations(Annotator().visit(tree))
            elif mode == "fstring":
                tree = ast.fix_missing_locations(FStringer().visit(tree))
            elif mode == "if-invert":
                tree = ast.fix_missing_locations(IfInverter().visit(tree))
            elif mode == "compare-flip":
                tree = ast.fix_missing_locations(CompareFlipper().visit(tree))
            elif mode == "unpack-split":
                tree = ast.fix_missing_locations(UnpackSplitter().visit(tree))
            elif mode == "strip-docstrings":
                tree = ast.fix_missing_locations(
                    DocstringStripper().visit(tree))
            elif mode in _MODE2:
                tree = ast.fix_missing_locations(_MODE2[mode]().visit(tree))
            elif mode.startswith("rename-some"):
                import random
                r = Renamer()
                r.rng = random.Random(mode + fn)
                tree = r.visit(tree)
            open(p, "w").write(ast.unparse(tree) + "\n")


