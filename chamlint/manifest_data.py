"""Per-property manifest texts (consumed by tools_manifest.py)."""

NOTES = (
    "Static analysis only (DESIGN.md).  Every check also evaluates G-STATE "
    "(rule R<nn>.S): the census of state that outlives one use in the "
    "modules of the property's anchors equals the reviewed "
    "chamlint/reference_state.json.  Each check decides the structural "
    "clauses listed in its level text on the current /repo working tree and "
    "says which part of the behavioural property it leaves undecided.  "
    "Genuine defects found by the rules are either repaired in /repo "
    "('fix:' commits) or listed in known_findings.json.")

NOT_APPLICABLE = {}

CHECKS = {
    "C13": dict(
        technique="abstract interpretation of the on-error emitter (emission "
                  "tree shape + liveness of generated locals) and of the node "
                  "constructor; constant-table agreement",
        text="Decides, for all templates at once, that the code emitted for "
             "tal:on-error has the shape save-length / try element / except "
             "Exception: record error, call handler once, truncate to the "
             "saved length, emit fallback; that the saved length is a "
             "per-node generated local (nesting-safe); that OnError is the "
             "outermost wrapper and the fallback tag uses static attributes "
             "only; that the handler option reaches the generated code. "
             "Right level: the property is about which output is discarded, "
             "which is fixed by the shape of a fixed emitted fragment.",
        note="Assumes Python's try/except semantics and that all emitters "
             "paste into one render function namespace; does not evaluate the "
             "fallback expression or the rendered text. "
             "Also decided: the node registered as slot filler / in the macro table carries the element's on-error wrapper (repaired in 517fc4a)."),
    "C05": dict(
        technique="abstract interpretation of the scope-binding emitters "
                  "(pairing of save/restore fragments, liveness of backup "
                  "locals), sibling agreement of reserved-name guards, path "
                  "enumeration of NameTransform and Scope",
        text="Decides for all templates that every emitted 'save outer "
             "value' fragment of tal:define / tal:repeat has its 'restore' "
             "under the same compile-time condition, after the element body, "
             "on the same per-node backup local with the same undefined "
             "marker, in reverse order; that non-local definitions are also "
             "written to the render-wide context and merged back after "
             "internal and external macro calls which receive a copy of the "
             "scope; that both binders reject the same reserved names; that "
             "user names are rewritten to context lookups (builtins only as "
             "default); that Scope layers local over shared root.",
        note="Structural necessary conditions; the rendered text of concrete "
             "nestings is not computed.  dict semantics of CPython trusted.  "
             "Also decided: the tal:on-error handler restores the local "
             "variables from a per-node snapshot (the straight-line restore "
             "code is skipped by the failure); scopes opened for lambda / "
             "comprehension variables are copies closed on every exit. "
             "Also decided: after a macro or filler call only globals that are new or re-assigned since a per-node snapshot are merged into the caller's scope; prefixes of generated identifiers are identifier-safe. "
             "Known findings: a global defined inside an element that binds the same name locally is erased at that element's end; the helper locals translate / decode / on_error_handler shadow template variables of those names; a template variable named 'repeat' replaces the repeat dictionary that tal:repeat fetches by that name."),
    "C02": dict(
        technique="taint analysis over all syntactic paths of the embedded "
                  "escape routine; sink table by abstract interpretation of "
                  "node construction; routing rules on emission trees; regex "
                  "character-class inclusion",
        text="Decides that every construction site of a substitution node "
             "carries an allowed escape set (& < > and, in attributes, the "
             "very quote the attribute is written with); that the emitters "
             "route non-empty escape sets to the escaping routine, convert "
             "after evaluating and append only the converted value; that on "
             "all paths of the escaping routine (every value class: None, "
             "default, bytes, str and subclasses, exact int/float, __html__ "
             "objects, message objects) a returned string derived from the "
             "value has passed replace('&'), '<', '>' and the quote in that "
             "order; that the needs-escape pre-check covers every escaped "
             "character; that the opt-outs are exactly structure, CDATA and "
             "text mode.  This is the whole property except what is listed "
             "in the note.",
        note="Trusted: str.replace/re semantics; str() of an exact int/"
             "float is harmless; output of the translation function for "
             "static template text; dict-attribute *keys* are written raw "
             "(the statement speaks of values). "
             "Known findings: dictionary keys are written unescaped; a string: expression nested in ${...} is escaped twice."),
    "C01": dict(
        technique="abstract interpretation of MacroProgram.visit_element "
                  "(wrapper nesting for all statement subsets at once, "
                  "construction chain, keyed-only reads) and of the "
                  "statement emitters (emission-tree skeletons)",
        text="Decides the nesting of statement wrappers for every subset of "
             "statements (each statement -> its node kind, applied iff "
             "present, pinned outer/inner pairs: on-error outermost, "
             "definitions outside guards, condition outside repeat, guards "
             "outside content/replace/element), the construction chain "
             "(content default keeps children, replace default keeps the "
             "whole element, omit-tag conditions both tags and is cached, "
             "attributes inside the start tag), that statement attributes "
             "are consumed by keyed lookup only (written order cannot "
             "matter), the skeletons of the Define/Condition/Repeat/Element/"
             "Cache/Cancel emitters, None/default handling at the sinks, and "
             "that tal:case reads a switch only inside its Cache.",
        note="Outputs for concrete value classes and the argument regexes "
             "(DEFINE_RE, SUBST_RE, ATTR_RE) are value-level and not decided; "
             "the relative order of case/switch w.r.t. condition/repeat is "
             "not pinned (docs and code disagree)."),
    "C03": dict(
        technique="proof over the regex syntax tree (first sets, "
                  "unconditional emptiness) for tokenizer totality; def-use "
                  "of captured lexical fields through node construction and "
                  "emitters against the regex group tree",
        text="Proves for every input string that the lexer regex matches "
             "non-empty at every position (alternatives start with character "
             "classes covering all of Unicode, each followed by an "
             "unconditionally-empty remainder) and that iter_xml yields every "
             "match with its offset, i.e. tokens concatenate to the input "
             "with contiguous positions.  Decides that every lexical field "
             "captured from a tag or attribute reaches the output exactly "
             "once and never together with an enclosing group, that the "
             "statement-free emitters output the unmodified token, and that "
             "the only source rewrite is CR/CRLF->LF outside XML mode.",
        note="Trusted: sre finditer semantics.  Not decided: that the tag "
             "sub-regexes dissect every tag the way a reader expects "
             "(value-level) beyond the grammar agreement for unquoted "
             "attribute values and end tags (every character the tokenizer "
             "admits there is consumed by the parser's pattern)."),
    "C04": dict(
        technique="constant-table comparison; abstract interpretation of the "
                  "pipe emitter (try/except nesting); path enumeration of "
                  "lookup helpers; linearity (use-count vs Cache enclosure) "
                  "over the node-construction tree; exhaustiveness of "
                  "binding-construct handlers",
        text="Decides the prefix->expression-class table, the default type "
             "and that the pipe operator catches exactly the five lookup-type "
             "exception classes; that alternatives nest right-associatively "
             "as try/except over that tuple with the last one unguarded, no "
             "bare handler and no finally; that attribute access is tried "
             "before item access and failures re-raise the original "
             "AttributeError; that builtins are only defaults of context "
             "lookups; that every Value/Negate object used in two or more "
             "node positions is enclosed by a Cache listing it and the "
             "transformer consults its cache first (evaluate once); that "
             "emitters evaluate only their own node's expressions; that "
             "lambda/comprehension binders have scope-aware, inheriting "
             "handlers in the name rewriter.",
        note="Which alternative of a concrete pipe wins, and evaluation "
             "order inside one tal:attributes list, are value-level / not "
             "claimed.  Known finding: ':=' has no handler."),
    "C07": dict(
        technique="path rules over the attribute merge (index-map coherence, "
                  "case folding on both sides, replace-in-place vs append); "
                  "abstract interpretation of the node-choice function "
                  "(condition/leaf table); emission-tree and fragment-path "
                  "rules for the attribute emitters",
        text="Decides that every index recorded in the name->index map is "
             "the index of the entry just stored, that names are case-folded "
             "at every store and lookup, that a dynamic value replaces the "
             "static entry in place while new names are appended, that the "
             "node kind per entry follows the table static / interpolated / "
             "boolean / dict (excluding later names) / substitution with the "
             "static text as default, that attributes are written only if "
             "not None and not overridden by a later dict, that emit_bool "
             "maps marker/true/false to default/name/nothing on all three "
             "paths, and that HTML boolean defaults apply only outside XML "
             "mode without an explicit set.",
        note="Concrete override outcomes for concrete dict contents are not "
             "computed; escaping of the values is C02. "
             "Known findings: a value-less static attribute keeps its empty '=' and quote when a computed value goes into it; a dictionary beats a later named statement that was merged at a static attribute's position; entity decoding before the split lets '&amp;...;' swallow the next statement; 'default' on an attribute whose static value holds ${...} writes the expression's source."),
    "C09": dict(
        technique="writer/reader agreement of key expressions; emission-tree "
                  "rules for the macro prologue, define-slot and use-macro "
                  "emitters; pairing of the compile-time collector stack; "
                  "must-pass-through (cook_check) by path enumeration",
        text="Decides necessary structural conditions of macro expansion for "
             "all macro libraries and callers: slot keys and render-function "
             "names are built by the same expression where written and read; "
             "the prologue pops one filler per slot name before the body, "
             "fillers are pushed left by extend and popped right, use-macro "
             "replaces the stack; define-slot is 'filler is None -> default, "
             "else call filler with a copy of the scope'; both macro calls "
             "pass a copy of the scope and merge globals back; macroname is "
             "a local definition around the use; the fill-slot collector "
             "stack is balanced and stray fill-slots are rejected; public "
             "macro access passes through cook_check.",
        note="NECESSARY CONDITIONS ONLY: equality of the rendered text with "
             "the hand-inlined template (the property's main clause) is "
             "value-level and not decided.  Also decided: a filler writes to "
             "the stream it is called with; the merge of globals after a "
             "macro call is unconditional; render() does not seed the scope "
             "with a builtin symbol's name; slot fillers are handed over in "
             "the per-node copy of the scope the macro runs on (nothing "
             "stays in the caller's scope); a filler's globals reach the "
             "macro body.  Known findings: a filler for a slot the used "
             "macro lacks falls through to a macro used inside it; slot "
             "names that differ only in '-' / '_' share one key."),
    "C10": dict(
        technique="emission-tree rules for the i18n emitters; package-wide "
                  "census of translate(...) call fragments (sibling "
                  "agreement); pairing/liveness of setting backups; path "
                  "enumeration of the conversion routines",
        text="Decides that visit_Translate captures the element in a "
             "per-node stream, computes the id by join/collapse/strip, emits "
             "exactly one translate call per compile-time path with msgid = "
             "explicit id or computed content, default = computed content, "
             "mapping = name -> captured block, guarded by 'if msgid' without "
             "an explicit id, result appended to the enclosing stream; that "
             "every translate fragment in the package passes domain, context "
             "and target_language from the scoped locals; that "
             "domain/context/target are bracketed by per-node save/restore; "
             "that render functions and slot fillers carry the settings as "
             "parameters (fillers default to their definition site and are "
             "called with three arguments, macros with the caller's "
             "settings); that i18n:name blocks are captured separately with "
             "the placeholder in the enclosing stream and duplicates/strays "
             "rejected; that message objects are offered to translate before "
             "str() on all paths; attribute translation wiring.",
        note="Also decided: the encoding wrapper installed by render() "
             "forwards every translate keyword; every generated function "
             "with its own i18n parameters defines its own conversion "
             "helpers; simple_translate substitutes by mapping membership "
             "(not truthiness).  simple_translate's substitution regex and "
             "the translation function's own behaviour are not decided."
             " The capture variables of i18n:name blocks are distinct per registered name (ordinal in the variable's name, or an injective key function)."),
    "C12": dict(
        technique="structural rules on the error plumbing: insertion point of "
                  "token references, def-use of the source text across "
                  "parse/_compile/program, handler shapes (path enumeration), "
                  "class construction of the decorated exception",
        text="Decides that a token reference is inserted before every "
             "expression evaluation (position 0; macro calls; code blocks), "
             "that the last of adjacent references wins and internal macro "
             "calls clear it; that the compiler re-slices recorded offsets "
             "from the text the program tokenised (source identity across "
             "the newline normalisation); that every render function's "
             "handler records (token entry, filename, exception) and "
             "re-raises with a bare raise; that render() lets RecursionError "
             "through first, re-types only Exceptions, returns output only "
             "on the normal path, and that the decorated class derives from "
             "(original class, RenderError) with args and __dict__ copied.",
        note="Also decided: every generated function (render, macro, slot "
             "filler) has its own handler and token; frames of a failure "
             "handled by tal:on-error are dropped; the formatter emits "
             "Expression/Filename/Location for every frame on every path; "
             "the module cache key carries the whole file name (a cached "
             "module's __filename is the template's); entity decoding "
             "returns Tokens.  The text of the source-marker lines is not "
             "decided.  Known finding: entity decoding before the reference "
             "shortens the recorded extent (expressions containing &lt; "
             "etc.)."),
    "C11": dict(
        technique="data-dependence analysis of Token methods against their "
                  "position contracts; intra-procedural def-use chains of "
                  "the token argument at every TemplateError raise site "
                  "(plain-str and drift steps); census of raise/assert on "
                  "the compile path",
        text="Decides a position algebra for Token (what the pos of each "
             "derived token depends on: slice start, stripped length, "
             "separator), that the group-extraction helpers re-slice by "
             "match spans, that at every 'raise <TemplateError>(msg, token)' "
             "site on the compile path the token's def-use chain passes no "
             "str method that drops the position and no helper that "
             "shortens the text before splitting, that user-reachable "
             "failures are TemplateError subclasses (no assert on "
             "template-derived data), and that _cook stamps the file name.",
        note="Also decided: Token.location as a closed form over the count "
             "and last index of '\\n' before the offset; the names stored in "
             "the (namespace, name) attribute table keep their position; "
             "token.pos/.source are written by Token only.  'A valid "
             "template is never rejected' only through necessary conditions "
             "(DOTALL statement regexes, guarded stack indices, parse sites "
             "converting SyntaxError).  Chains are followed inside one "
             "function (parameters are assumed to be faithful tokens).   "
             "Known findings: expression-error tokens are "
             "entity-decoded / un-escaped (';;', '\\|') copies of the source "
             "text; entity decoding before the clause split rejects "
             "tal:define=\"x a&amp;b; y 2\"."),
    "C18": dict(
        technique="who-writes / every-path analysis of the namespace each "
                  "attribute records for itself (or, where a positional "
                  "pairing is used, alignment analysis of the paired "
                  "collections); guarded-lookup rule; pop/discard balance "
                  "over all paths of the end-tag handler; constant tables",
        text="Decides that the attributes to drop are computed from the "
             "namespace every static attribute records when its prefix is "
             "resolved (written for every attribute, on every path, by that "
             "function only, with the value the namespaced mapping is keyed "
             "by), and that a converted data-* attribute leaves the list and "
             "its stale mapping entry is removed by the attribute's own key; that "
             "prefix lookups keyed by template text are guarded and only the "
             "four language namespaces are converted from data-* attributes, "
             "under the option; that an end tag removes exactly one "
             "namespace map per start-tag entry it discards on every path; "
             "that the drop set, the element-omission tests, the whitelist "
             "validation and the xmlns-declaration drop agree with the four "
             "language namespaces.",
        note="Equality of outputs across prefix spellings is not computed. "
             "The positional pairing of earlier versions (misaligned by lang + xml:lang) was repaired in 9bcd753."),
    "C17": dict(
        technique="constant folding of the BOM table (row order, prefix "
                  "shadowing, BOM consumption per codec); structural decision "
                  "order of read_bytes; def-use of the sniffing result",
        text="Decides that the BOM table is searched first and in an order "
             "in which no BOM shadows a longer one, that for every reachable "
             "row the byte-order mark cannot survive decoding (cut off "
             "before decoding or consumed by the codec) and the codec agrees "
             "with the BOM's byte order; that the decision order is BOM, XML "
             "declaration, meta charset, default utf-8; that XML mode is "
             "reported exactly for documents starting with an XML "
             "declaration, stored on the template before compilation, and "
             "guards boolean-attribute defaults and newline rewriting.",
        note="Acceptance of RE_ENCODING / RE_META (spelling of declarations "
             "and meta tags) is value-level and not decided; rendering "
             "equality bytes vs str follows from decoding only."),
    "C15": dict(
        technique="def-use of configuration attributes over the call graph "
                  "of the compile path (MRO-resolved) against the attributes "
                  "hashed by digest(); path rules on ModuleLoader.build "
                  "(temp/close/rename protocol, lock in try/finally); "
                  "who-may-write census",
        text="Decides that every option read while compiling (22 functions "
             "reachable from cook, resolved on the MRO of PageTemplate and "
             "PageTemplateFile) is fed into the cache key or exempt for a "
             "stated reason, together with body, class, file name, builtin "
             "names and package versions; that a module is stored by "
             "creating a temporary file in the cache directory with a suffix "
             "the lookup cannot resolve, writing, closing and then renaming "
             "it exactly once, that a failed write removes the temporary "
             "file, that the lock is held in try/finally, that no other code "
             "in the package writes files; that lookup is by exact name and "
             "modules are published in sys.modules only after executing.",
        note="Trusted: atomic rename within one directory, py_compile. "
             "Equality of rendering with/without cache follows from key "
             "coverage and is not computed."
             " Known finding: a value without a stable name enters the key as its address-based repr()."),
    "C16": dict(
        technique="must-pass-through by path enumeration (cook_check before "
                  "compiled state), path rules on cook_check / cook / "
                  "TemplateLoader.load, stale-state rule (retire unpublished "
                  "entry points)",
        text="Decides that render, include, macro lookup and macro names "
             "call cook_check before touching compiled state on every path; "
             "that cook_check compares the modification time first, "
             "remembers it, and recompiles from a fresh read that "
             "unconditionally refreshes content type and encoding, and does "
             "nothing for an unchanged compiled template; that cook "
             "publishes the new functions, removes _render* entries the new "
             "program does not define, and only then flags the template as "
             "compiled; that the loader takes the first existing candidate "
             "along the search path (break), raises ValueError otherwise, "
             "adds the default extension only to dot-less names, skips the "
             "walk for absolute names, memoises by arguments, and that a "
             "file template's own directory is first for load:.",
        note="Operation histories longer than one reload are covered only "
             "through the stale-state rule; file-system semantics trusted."),
    "C19": dict(
        technique="package-wide def-use census of the 'strict' flag "
                  "(plumbing vs decision), emission shape of the deferred "
                  "error, bypass census of the expression transformer",
        text="Decides that the flag is consulted in exactly one place, the "
             "'except ExpressionError' handler of ExpressionTransform."
             "__call__, everything else being plumbing (and the cache key): "
             "therefore a template whose expressions are all valid is "
             "compiled by the same code path and emits the same program in "
             "both modes, for all inputs; that the non-strict branch "
             "replaces the expression's statements by unpickle / token "
             "reference to the error's own token / raise of that error, at "
             "the expression's site; that no emitter bypasses the "
             "transformer.",
        note="Known finding: the deferral unit is the whole expression, so a "
             "later invalid pipe alternative is raised although not "
             "reached."),
    "C20": dict(
        technique="path enumeration of ElementProgram.__init__ (routing: the "
                  "markup classifier is not on the text-mode path), abstract "
                  "interpretation of visit_text, constant/option plumbing",
        text="Decides, for every source string, that in text mode each token "
             "is delivered as ('text', token) and the markup classifier is "
             "never constructed on that path; that the text tokenizer yields "
             "the whole source as one token; that escaping is off exactly in "
             "text mode and visit_text then uses an empty escape set; that "
             "text without ${ only has $$ un-doubled; that the file-based "
             "text template encodes the result with the template's "
             "encoding.",
        note="The ${...} delimiting itself is C06; CR/CRLF rewriting "
             "applies to text templates too (by design). "
             "Known finding: a text template file is decoded by read_bytes, i.e. by a <meta charset> or XML declaration it merely contains."),
    "C14": dict(
        technique="effect analysis over the call graph of the render entry "
                  "points; immutability census of the generated preamble; "
                  "liveness of generated locals swept over all emitters; "
                  "set-iteration audit; ordering rule in cook(); lock shape",
        text="Decides necessary structural conditions only: no function "
             "reachable from render/__call__/include (cook_check excluded) "
             "stores into the template instance, module globals or "
             "class-level containers; scope, global context, output stream "
             "and repeat dictionary are constructed per call and the "
             "caller's objects are only reached through a ** copy; the "
             "generated module's preamble binds immutable objects that no "
             "fragment rebinds; every generated local that survives a child "
             "emission is per-node (all 31 emitters) and set iteration "
             "occurs only where emissions commute; cook() publishes before "
             "it flags; the module loader's lock is held in try/finally.",
        note="NECESSARY CONDITIONS ONLY.  Thread schedules (interleavings "
             "of cook_check, the unlocked check-then-act of the loader "
             "registry and of utils.module_cache) and cross-process equality "
             "are not decided by any rule here. "
             "Known finding: the static attribute dictionary bound to 'attrs' is one object for all renders."),
    "C08": dict(
        technique="path rules on RepeatDict.__call__ (iterator identity), "
                  "emission-tree skeleton of the repeat loop, def-use of "
                  "repeat attributes, linear normalisation of the closed "
                  "forms that are linear in index/length",
        text="Decides the identity all position arithmetic rests on (the "
             "iterator the loop consumes is the object the RepeatItem "
             "watches; any iterable is materialised once, None repeats "
             "nothing), the emitted loop skeleton (unpacking into iterator "
             "and per-node counter, names pre-bound to None, counter "
             "decremented after the body, separator appended only while "
             "positive, separator = captured indentation, none for tal: "
             "elements), that every repeat attribute reads only index/"
             "length, and that index, number, start, end, odd/even/parity "
             "normalise to their documented closed forms (linear "
             "arithmetic, decided symbolically).",
        note="The digit loops of letter/Letter/roman/Roman, the boundaries "
             "26 and 3999 and CPython's list_iterator.__length_hint__ are "
             "value-level and NOT decided. "
             "Known finding: repeat.<name> of an outer loop is not put back after a nested loop that reuses the name."),
    "C06": dict(
        technique="sibling agreement of the four interpolation contexts "
                  "(abstract interpretation of the node constructors), "
                  "pairing of the switch stack, path rules on the "
                  "interpolator loop (order of decode/parse, shrink step, "
                  "advance, odd-run test)",
        text="Decides necessary structural conditions only: text, comments "
             "and CDATA build an Interpolation only when the switch is on "
             "and the text contains '${' (braces required), '<!--?' and the "
             "comment option emit literally; the switch stack is pushed/"
             "popped around the children and inherits; candidates are "
             "entity-decoded before parsing on every path; a rejected "
             "candidate is shrunk by one character at its end and searched "
             "again or the error re-raised; a match advances by its full "
             "length; the odd-run-of-$ test precedes un-doubling; the tail "
             "is un-doubled; parts are concatenated in order with None as "
             "empty; and whether $$ is un-doubled in every context.",
        note="NECESSARY CONDITIONS ONLY: that the search picks the right "
             "closing brace for every expression (the property's main "
             "quantifier) is algorithmic and value-level -- no rule decides "
             "it.  Known findings: $$ is not un-doubled in comments, CDATA "
             "and attribute values that contain no ${."),
}
