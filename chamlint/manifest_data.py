"""Per-property manifest texts (consumed by tools_manifest.py)."""

NOTES = (
    "Static analysis only (DESIGN.md).  Each check decides the structural "
    "clauses listed in its level text on the current /repo working tree and "
    "says which part of the behavioural property it leaves undecided.  "
    "Genuine defects found by the rules are either repaired in /repo "
    "('fix:' commits) or listed in known_findings.json.")

NOT_APPLICABLE = {}

CHECKS = {
    "C13": dict(
        technique="abstract interpretation of the on-error emitter (emission "
                  "tree shape + liveness of generated locals) and of the node "
                  "constructor; constant-table agreement",
        text="Decides, for all templates at once, that the code emitted for "
             "tal:on-error has the shape save-length / try element / except "
             "Exception: record error, call handler once, truncate to the "
             "saved length, emit fallback; that the saved length is a "
             "per-node generated local (nesting-safe); that OnError is the "
             "outermost wrapper and the fallback tag uses static attributes "
             "only; that the handler option reaches the generated code. "
             "Right level: the property is about which output is discarded, "
             "which is fixed by the shape of a fixed emitted fragment.",
        note="Assumes Python's try/except semantics and that all emitters "
             "paste into one render function namespace; does not evaluate the "
             "fallback expression or the rendered text."),
}
