"""chamlint -- repository-specific static analysis for malthe/chameleon.

Nothing in this package imports or executes code from /repo.  Every check
parses the current working tree of /repo/src/chameleon with ``ast`` (and
``re._parser`` for regular expressions) and reasons over syntax trees.
"""
