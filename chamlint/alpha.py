"""Alpha-normalisation of local variable names against a reference naming.

Many obligations quote a statement of the analysed function, and such a
quotation necessarily spells the function's local variables.  Renaming a
local is a behaviour-preserving edit, so it must not make a check fire.

A consistent (bijective, capture-free) renaming of the locals of a function
does not change the function; the analyses are therefore free to run on a
renamed copy of the syntax tree.  This module renames the locals of every
function of the *current* tree to the names the same function had in the
tree the rules were written against (``reference_locals.json``: per function
the ordered list of its locals by first binding), whenever the two lists
have the same length: names that occur in both keep their spelling, the
others are paired in order of first binding.  Functions whose set of locals
changed in size are left exactly as written.  Positions (line numbers) are untouched.

The reference file is only a naming hint: whatever it contains, the renaming
applied is a bijection on local names that avoids every other name used in
the function, so the analysed tree is equivalent to the source.
"""
from __future__ import annotations

import ast
import json
import os

HERE = os.path.dirname(os.path.abspath(__file__))
REF_PATH = os.path.join(HERE, "reference_locals.json")

_SCOPES = (ast.FunctionDef, ast.AsyncFunctionDef, ast.Lambda, ast.ClassDef)


def _params(fn):
    a = fn.args
    out = {x.arg for x in a.posonlyargs + a.args + a.kwonlyargs}
    if a.vararg:
        out.add(a.vararg.arg)
    if a.kwarg:
        out.add(a.kwarg.arg)
    return out


def _own_nodes(fn):
    """nodes of fn's body that belong to fn's own scope (nested function /
    class bodies excluded; their headers -- decorators, defaults -- are
    evaluated in fn's scope but bind nothing)"""
    todo = list(fn.body) if not isinstance(fn, ast.Lambda) else [fn.body]
    while todo:
        n = todo.pop()
        yield n
        if isinstance(n, _SCOPES):
            continue
        todo.extend(ast.iter_child_nodes(n))


def ordered_locals(fn):
    """local names of a function ordered by first binding position"""
    params = _params(fn)
    declared = set()
    found = {}
    for n in _own_nodes(fn):
        if isinstance(n, (ast.Global, ast.Nonlocal)):
            declared.update(n.names)
        elif isinstance(n, ast.Name) and isinstance(n.ctx, (ast.Store,
                                                            ast.Del)):
            pos = (n.lineno, n.col_offset)
            if n.id not in found or pos < found[n.id]:
                found[n.id] = pos
        elif isinstance(n, ast.ExceptHandler) and n.name:
            pos = (n.lineno, n.col_offset)
            if n.name not in found or pos < found[n.name]:
                found[n.name] = pos
    names = [k for k in found if k not in params and k not in declared]
    names.sort(key=lambda k: found[k])
    return names


def functions_of(tree, modname):
    """(key, node) for every def in a module, keyed by its dotted path"""
    out = []

    def walk(body, prefix):
        for st in body:
            if isinstance(st, (ast.FunctionDef, ast.AsyncFunctionDef)):
                key = prefix + "." + st.name
                out.append((key, st))
                walk(st.body, key)
            elif isinstance(st, ast.ClassDef):
                walk(st.body, prefix + "." + st.name)
            elif isinstance(st, (ast.If, ast.Try, ast.With, ast.For,
                                 ast.While)):
                for fld in ("body", "orelse", "finalbody"):
                    walk(getattr(st, fld, []) or [], prefix)
                for h in getattr(st, "handlers", []) or []:
                    walk(h.body, prefix)
    walk(tree.body, modname)
    return out


def _rename(fn, mapping):
    """apply mapping to every occurrence; -> False (and nothing changed) if
    a nested scope rebinds one of the names"""
    olds = set(mapping)
    for n in ast.walk(fn):
        if n is fn:
            continue
        if isinstance(n, (ast.FunctionDef, ast.AsyncFunctionDef, ast.Lambda)):
            if _params(n) & (olds | set(mapping.values())):
                return False
            if not isinstance(n, ast.Lambda) and \
                    set(ordered_locals(n)) & (olds | set(mapping.values())):
                return False
        elif isinstance(n, ast.ClassDef):
            return False
        elif isinstance(n, ast.alias) and (n.asname or n.name) in olds:
            return False
    for n in ast.walk(fn):
        if isinstance(n, ast.Name) and n.id in mapping:
            n.id = mapping[n.id]
        elif isinstance(n, ast.ExceptHandler) and n.name in mapping:
            n.name = mapping[n.name]
    return True


def strip_noops(tree):
    """Statements without any effect -- a bare constant expression that is
    not a docstring, ``pass`` next to other statements -- are dropped from
    every statement list, so that 'the first statement of f' means the
    first statement that does something."""
    for n in ast.walk(tree):
        for fld in ("body", "orelse", "finalbody"):
            blk = getattr(n, fld, None)
            if not (isinstance(blk, list) and blk and
                    isinstance(blk[0], ast.stmt)):
                continue
            doc = isinstance(n, (ast.FunctionDef, ast.ClassDef, ast.Module,
                                 ast.AsyncFunctionDef)) and fld == "body"
            keep = []
            for i, st in enumerate(blk):
                if isinstance(st, ast.Expr) and isinstance(
                        st.value, ast.Constant) and not (
                            doc and i == 0 and
                            isinstance(st.value.value, str)) and \
                        st.value.value is not Ellipsis:
                    continue
                if isinstance(st, ast.Pass) and len(blk) > 1:
                    continue
                keep.append(st)
            if keep and len(keep) != len(blk):
                blk[:] = keep




def inline_return_temps(tree):
    """``x = EXPR`` directly followed by ``return x`` is read as ``return
    EXPR`` when x is a plain local that occurs nowhere else in the function
    but in such pairs (extracting the returned expression into a variable,
    or inlining it again, changes nothing)."""
    for fn in ast.walk(tree):
        if not isinstance(fn, (ast.FunctionDef, ast.AsyncFunctionDef)):
            continue
        counts = {}
        for n in ast.walk(fn):
            if isinstance(n, ast.Name):
                counts[n.id] = counts.get(n.id, 0) + 1
        declared = set()
        for n in ast.walk(fn):
            if isinstance(n, (ast.Global, ast.Nonlocal)):
                declared.update(n.names)

        def pairs():
            for n in ast.walk(fn):
                for fld in ("body", "orelse", "finalbody"):
                    blk = getattr(n, fld, None)
                    if not (isinstance(blk, list) and len(blk) >= 2 and
                            isinstance(blk[0], ast.stmt)):
                        continue
                    for i in range(len(blk) - 1):
                        a, b = blk[i], blk[i + 1]
                        if isinstance(a, ast.Assign) and \
                                len(a.targets) == 1 and \
                                isinstance(a.targets[0], ast.Name) and \
                                isinstance(b, ast.Return) and \
                                isinstance(b.value, ast.Name) and \
                                b.value.id == a.targets[0].id and \
                                b.value.id not in declared:
                            yield blk, a, b
        found = list(pairs())
        per_name = {}
        for blk, a, b in found:
            per_name[b.value.id] = per_name.get(b.value.id, 0) + 1
        for blk, a, b in found:
            name = b.value.id
            if counts.get(name) != 2 * per_name[name]:
                continue
            b.value = a.value
            blk.remove(a)


class _Percent(ast.NodeTransformer):
    """f'..{a}..{b!r}..{n:d}' is read as '..%s..%r..%d' % (a, b, n); a single
    operand is written without the tuple ('%s' % (x,) likewise)"""

    def visit_JoinedStr(self, node):
        self.generic_visit(node)
        fmt = []
        args = []
        for v in node.values:
            if isinstance(v, ast.Constant) and isinstance(v.value, str):
                fmt.append(v.value.replace("%", "%%"))
            elif isinstance(v, ast.FormattedValue):
                spec = v.format_spec
                st = None
                if isinstance(spec, ast.Constant):
                    st = str(spec.value)
                elif spec is not None:
                    if not (isinstance(spec, ast.JoinedStr) and all(
                            isinstance(x, ast.Constant)
                            for x in spec.values)):
                        return node
                    st = "".join(x.value for x in spec.values)
                if v.conversion == ord("r") and not st:
                    fmt.append("%r")
                elif v.conversion == -1 and st in (None, ""):
                    fmt.append("%s")
                elif v.conversion == -1 and st == "d":
                    fmt.append("%d")
                else:
                    return node
                args.append(v.value)
            else:
                return node
        if not args:
            return ast.copy_location(ast.Constant("".join(fmt).replace(
                "%%", "%")), node)
        right = args[0] if len(args) == 1 else ast.Tuple(args, ast.Load())
        new = ast.BinOp(ast.Constant("".join(fmt)), ast.Mod(), right)
        return ast.fix_missing_locations(ast.copy_location(new, node))

    def visit_BinOp(self, node):
        self.generic_visit(node)
        if isinstance(node.op, ast.Mod) and isinstance(
                node.left, ast.Constant) and isinstance(
                    node.left.value, str) and isinstance(
                        node.right, ast.Tuple) and \
                len(node.right.elts) == 1 and not isinstance(
                    node.right.elts[0], ast.Starred):
            node.right = node.right.elts[0]
        return node


def percent_formatting(tree):
    _Percent().visit(tree)


def plain_assignments(tree):
    """inside functions an annotated assignment ``x: T = v`` is read as
    ``x = v`` and a bare declaration ``x: T`` is dropped (annotations of
    locals are not evaluated and bind nothing)"""
    for fn in ast.walk(tree):
        if not isinstance(fn, (ast.FunctionDef, ast.AsyncFunctionDef)):
            continue
        for n in ast.walk(fn):
            if isinstance(n, ast.ClassDef):
                continue
            for fld in ("body", "orelse", "finalbody"):
                blk = getattr(n, fld, None)
                if not (isinstance(blk, list) and blk and
                        isinstance(blk[0], ast.stmt)) or \
                        isinstance(n, ast.ClassDef):
                    continue
                out = []
                for st in blk:
                    if isinstance(st, ast.AnnAssign) and st.simple and \
                            isinstance(st.target, ast.Name):
                        if st.value is None:
                            continue
                        new = ast.Assign([st.target], st.value)
                        out.append(ast.fix_missing_locations(
                            ast.copy_location(new, st)))
                    else:
                        out.append(st)
                if out:
                    blk[:] = out


class _CompareOrder(ast.NodeTransformer):
    """``a == b`` / ``a != b`` are symmetric: the operands are put in one
    fixed order (constants last, otherwise by their text), so that a rule
    reads the same on ``x == 1`` and ``1 == x``."""

    @staticmethod
    def _key(e):
        return (isinstance(e, ast.Constant), ast.unparse(e))

    def visit_Compare(self, node):
        self.generic_visit(node)
        if len(node.ops) == 1 and isinstance(node.ops[0], (ast.Eq, ast.NotEq)):
            l, r = node.left, node.comparators[0]
            if self._key(l) > self._key(r):
                node.left, node.comparators = r, [l]
        return node


def order_compares(tree):
    _CompareOrder().visit(tree)
    return tree


def inline_condition_temps(tree):
    """``x = EXPR`` directly followed by ``if x:`` (or ``if not x:``) is
    read as ``if EXPR:`` when x is a plain local that occurs nowhere else in
    the function (naming a condition changes nothing)."""
    for fn in ast.walk(tree):
        if not isinstance(fn, (ast.FunctionDef, ast.AsyncFunctionDef)):
            continue
        counts = {}
        for n in ast.walk(fn):
            if isinstance(n, ast.Name):
                counts[n.id] = counts.get(n.id, 0) + 1
        declared = set(_params(fn))
        for n in ast.walk(fn):
            if isinstance(n, (ast.Global, ast.Nonlocal)):
                declared.update(n.names)
        for n in ast.walk(fn):
            for fld in ("body", "orelse", "finalbody"):
                blk = getattr(n, fld, None)
                if not (isinstance(blk, list) and len(blk) >= 2 and
                        isinstance(blk[0], ast.stmt)):
                    continue
                i = 0
                while i < len(blk) - 1:
                    a, b = blk[i], blk[i + 1]
                    if isinstance(a, ast.Assign) and len(a.targets) == 1 \
                            and isinstance(a.targets[0], ast.Name) and \
                            isinstance(b, ast.If):
                        nm = a.targets[0].id
                        t = b.test
                        neg = isinstance(t, ast.UnaryOp) and isinstance(
                            t.op, ast.Not)
                        core = t.operand if neg else t
                        if isinstance(core, ast.Name) and core.id == nm \
                                and counts.get(nm) == 2 and \
                                nm not in declared:
                            if neg:
                                t.operand = a.value
                            else:
                                b.test = a.value
                            del blk[i]
                            continue
                    i += 1


class _Shapes(ast.NodeTransformer):
    """small canonical spellings: a loop over a list display is a loop over
    the tuple; nested ifs without else are one if over the conjunction; a
    lone ``else: pass`` is no else; ``'{}..'.format(a)`` is ``'%s..' % a``"""

    def visit_For(self, node):
        self.generic_visit(node)
        if isinstance(node.iter, ast.List) and not any(
                isinstance(e, ast.Starred) for e in node.iter.elts):
            node.iter = ast.copy_location(
                ast.Tuple(node.iter.elts, ast.Load()), node.iter)
        if len(node.orelse) == 1 and isinstance(node.orelse[0], ast.Pass):
            node.orelse = []
        return node

    def visit_If(self, node):
        self.generic_visit(node)
        if len(node.orelse) == 1 and isinstance(node.orelse[0], ast.Pass):
            node.orelse = []
        if not node.orelse and len(node.body) == 1 and isinstance(
                node.body[0], ast.If) and not node.body[0].orelse:
            inner = node.body[0]
            vals = []
            for t in (node.test, inner.test):
                if isinstance(t, ast.BoolOp) and isinstance(t.op, ast.And):
                    vals.extend(t.values)
                else:
                    vals.append(t)
            node.test = ast.copy_location(
                ast.BoolOp(ast.And(), vals), node.test)
            node.body = inner.body
        return node

    def visit_Call(self, node):
        self.generic_visit(node)
        if isinstance(node.func, ast.Attribute) and \
                node.func.attr == "format" and isinstance(
                    node.func.value, ast.Constant) and isinstance(
                        node.func.value.value, str) and not node.keywords \
                and node.args and not any(isinstance(a, ast.Starred)
                                          for a in node.args):
            text = node.func.value.value
            import re
            # ('{}' is '%s', '{!r}' is '%r')
            plain = text.replace("{!r}", "{}")
            if "%" in text or re.search(r"\{[^}]", plain) or \
                    "{{" in text or "}}" in text or \
                    plain.count("{}") != len(node.args):
                return node
            right = node.args[0] if len(node.args) == 1 else ast.Tuple(
                list(node.args), ast.Load())
            new = ast.BinOp(ast.Constant(text.replace("{!r}", "%r").replace(
                "{}", "%s")), ast.Mod(), right)
            return ast.fix_missing_locations(ast.copy_location(new, node))
        return node


def _ifexp_assignments(tree):
    """``if c: x = a / else: x = b`` (one plain assignment to the same name
    on either side) is read as ``x = a if c else b``"""
    for n in ast.walk(tree):
        for fld in ("body", "orelse", "finalbody"):
            blk = getattr(n, fld, None)
            if not (isinstance(blk, list) and blk and
                    isinstance(blk[0], ast.stmt)):
                continue
            for i, st in enumerate(blk):
                if isinstance(st, ast.If) and len(st.body) == 1 and \
                        len(st.orelse) == 1 and all(
                            isinstance(x, ast.Assign) and len(x.targets) == 1
                            and isinstance(x.targets[0], ast.Name)
                            for x in (st.body[0], st.orelse[0])) and \
                        st.body[0].targets[0].id == \
                        st.orelse[0].targets[0].id:
                    new = ast.Assign(
                        [st.body[0].targets[0]],
                        ast.IfExp(st.test, st.body[0].value,
                                  st.orelse[0].value))
                    blk[i] = ast.fix_missing_locations(
                        ast.copy_location(new, st))


def _denest_else(tree):
    """``if c: A; return / else: B`` is read as ``if c: A; return`` followed
    by ``B`` (the else of a branch that cannot fall through is the rest of
    the block)"""
    for n in ast.walk(tree):
        for fld in ("body", "orelse", "finalbody"):
            blk = getattr(n, fld, None)
            if not (isinstance(blk, list) and blk and
                    isinstance(blk[0], ast.stmt)):
                continue
            changed = True
            while changed:
                changed = False
                for i, st in enumerate(blk):
                    if isinstance(st, ast.If) and st.orelse and st.body and \
                            isinstance(st.body[-1], (ast.Return, ast.Raise,
                                                     ast.Continue,
                                                     ast.Break)):
                        rest = st.orelse
                        st.orelse = []
                        blk[i + 1:i + 1] = rest
                        changed = True
                        break


def canonical_shapes(tree):
    _Shapes().visit(tree)
    _ifexp_assignments(tree)
    _denest_else(tree)


def pre_normalise(tree):
    plain_assignments(tree)
    strip_noops(tree)
    inline_return_temps(tree)
    inline_condition_temps(tree)
    canonical_shapes(tree)
    percent_formatting(tree)


_REF = None


def reference():
    global _REF
    if _REF is None:
        try:
            with open(REF_PATH) as f:
                _REF = json.load(f)
        except OSError:
            _REF = {}
    return _REF


def normalise(tree, modname, ref=None):
    """rename locals of the functions of ``tree`` in place; -> list of
    (function key, {old: new}) actually applied"""
    ref = reference() if ref is None else ref
    applied = []
    for key, fn in functions_of(tree, modname):
        want = ref.get(key)
        if not want:
            continue
        have = ordered_locals(fn)
        # names present on both sides keep their spelling (a reordering of
        # statements renames nothing); the others are paired in order
        h_only = [h for h in have if h not in want]
        w_only = [w for w in want if w not in have]
        if not h_only or len(h_only) != len(w_only) or \
                len(have) != len(want):
            continue
        mapping = dict(zip(h_only, w_only))
        # bijective and capture-free: a new name may not be in use in the
        # function already (as anything), an old name may not be a target
        used = {n.id for n in ast.walk(fn) if isinstance(n, ast.Name)} | \
            _params(fn)
        news = set(mapping.values())
        if len(news) != len(mapping) or news & (used - set(mapping)):
            continue
        if _rename(fn, mapping):
            applied.append((key, mapping))
    return applied


def generate(repo_root):
    """reference table of the tree at repo_root"""
    from .core import PKG, EXCLUDE
    out = {}
    pkgdir = os.path.join(repo_root, "src", PKG)
    for dirpath, dirnames, filenames in os.walk(pkgdir):
        dirnames[:] = sorted(d for d in dirnames
                             if d not in EXCLUDE and d != "__pycache__")
        for fn in sorted(filenames):
            if not fn.endswith(".py") or fn in EXCLUDE:
                continue
            path = os.path.join(dirpath, fn)
            rel = os.path.relpath(path, os.path.join(repo_root, "src"))
            name = rel[:-3].replace(os.sep, ".")
            if name.endswith(".__init__"):
                name = name[:-9]
            tree = ast.parse(open(path, encoding="utf-8").read())
            pre_normalise(tree)
            for key, node in functions_of(tree, name):
                loc = ordered_locals(node)
                if loc:
                    out[key] = loc
    return out
