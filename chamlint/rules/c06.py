"""C06 -- ${...} interpolation is delimited correctly and $$ escapes it
(structural clauses only; the closing-brace search is value-level)."""
from __future__ import annotations

import ast

from .. import absint as A
from .. import lib as L
from .. import paths as P
from .. import rx
from ..core import AnalysisError, src

PROG = "chameleon.zpt.program.MacroProgram."
COMP = "chameleon.compiler."


def run(repo, rep, tier):
    rep.explanation = (
        "That the longest-match-then-shrink search picks the right closing "
        "brace for every expression is an algorithmic, value-level claim and "
        "is NOT decided.  Decided are the structural conditions around it: "
        "(1) the four interpolation contexts (text, comment, CDATA, "
        "attribute) agree on when ${ is live -- text, comments and CDATA "
        "consult the interpolation switch and test for '${' before building "
        "an Interpolation node, '<!--?' comments and the comment option turn "
        "it off; (2) the switch stack is pushed and popped around the "
        "children and inherits its value; (3) the candidate expression is "
        "entity-decoded before it is handed to the expression engine; "
        "(4) the loop shape of Interpolator.__call__, path by path: the "
        "shrink step re-searches a strictly shorter candidate from the same "
        "start and re-raises when none is left, a successful match advances "
        "by its full length, the odd-run-of-$ test precedes the un-doubling, "
        "the tail is un-doubled on exit; (5) $$ is un-doubled in every "
        "context also when no ${ is present (sibling agreement).")
    rep.assumptions = [
        "the choice of the closing brace (main quantifier of the property) "
        "is not decided by any rule here",
        "re.search / Token slicing semantics",
    ]
    rep.rule("R06.1", "G-SIBLING: context dispatch -- switch consulted and "
                      "'${' tested before interpolating; opt-outs return "
                      "plain text")
    rep.rule("R06.2", "G-PAIR: interpolation switch stack; inherited value")
    rep.rule("R06.3", "expression text is entity-decoded before parsing")
    rep.rule("R06.4", "loop shape of Interpolator.__call__")
    rep.rule("R06.5", "G-SIBLING: $$ is un-doubled in every context, with or "
                      "without ${")
    _dispatch(repo, rep)
    _stack(repo, rep)
    _decode(repo, rep)
    _loop(repo, rep)
    _dollar(repo, rep)
    marker_on_text(repo, rep)
    L.option_defaults_rule(repo, rep, "R06.1", ("enable_comment_interpolation",))
    L.innermost_rule(repo, rep, "R06.2",
                     ("chameleon.zpt.program.MacroProgram",),
                     only=("_interpolation",))
    # "the value of exactly that expression": the text between the braces is
    # only stripped and joined over its lines before it is parsed (C20 owns
    # the rule; white space inside its string literals survives)
    from . import c20 as _c20
    L.borrow(repo, rep, "R06.3", "C20", _c20._lone_value,
             ("python-text-rewrites", "python-line-ends"), minimum=2)
    # a node's settings (its default marker, its escape set) reach the
    # engine that compiles its expression
    L.engine_fields_rule(repo, rep, "R06.3")
    # which context a token is (comment, CDATA, tag ...) is decided by
    # identify() (C03 owns the parser details)
    from . import c03 as _c03
    L.borrow(repo, rep, "R06.1", "C03", _c03.parser_details,
             ("identify-kinds",))
    # data-meta-interpolation is meta:interpolation (C18 owns the conversion)
    from . import c18 as _c18
    L.borrow(repo, rep, "R06.2", "C18", _c18._keyed, ("language-only",))
    # a name the table does not know is left as written: the character is
    # made only when a code point was found
    se = repo.func("chameleon.utils.substitute_entity")
    chrs = [c for c in ast.walk(se.node) if isinstance(c, ast.Call)
            and src(c.func) == "chr" and c.args
            and isinstance(c.args[0], ast.Name)]
    okc = bool(chrs)
    for c in chrs:
        holds = False
        for t_, v_ in L.guards_of(c, se.node):
            if not isinstance(t_, ast.expr):
                continue
            pt, flip = L._CanonIf._pos(t_)
            if (src(pt) == c.args[0].id or src(pt).startswith(
                    c.args[0].id + " is not None")) and bool(v_) != bool(flip):
                holds = True
        # (an early exit in front of the statement counts: 'if not cp:
        # return ...' followed by the chr())
        st = c
        while getattr(st, "_parent", None) is not None and not isinstance(
                st, ast.stmt):
            st = st._parent
        par = getattr(st, "_parent", None)
        for fld in ("body", "orelse"):
            blk = getattr(par, fld, None)
            if isinstance(blk, list) and st in blk:
                for prev in blk[:blk.index(st)]:
                    if isinstance(prev, ast.If) and prev.body and isinstance(
                            prev.body[-1], (ast.Return, ast.Raise)) and \
                            not prev.orelse:
                        pt, flip = L._CanonIf._pos(prev.test)
                        if src(pt) == c.args[0].id and flip:
                            holds = True
        if not holds:
            okc = False
    rep.check(okc, "R06.3", se.qualname, "chr() of a looked-up code point "
              "is guarded by that code point", construct="chr-guarded",
              where=L.where(se))
    L.state_rule(repo, rep)


def _leaves(v, conds=()):
    if isinstance(v, A.Alt):
        yield from _leaves(v.a, conds + ((v.test, True),))
        yield from _leaves(v.b, conds + ((v.test, False),))
    else:
        yield conds, v


def _live(conds):
    """do the conditions establish: switch on and '${' present?"""
    on = present = False
    for t, b in conds:
        n = t.replace(" ", "")
        if "self._interpolation[-1]" in t and "'${'" in t:
            if "notself._interpolation[-1]or'${'notinnode" in n and not b:
                on = present = True
            if "self._interpolation[-1]and'${'innode" in n and b:
                on = present = True
    return on and present


def _token_extent(repo, rep):
    # what visit_comment / visit_cdata get to see is the token the shallow
    # parser cut out: a comment up to the first '-->', a CDATA section up to
    # the first ']]>' (a ']]' inside ${...} must not end it)
    from .c03 import _rex_table
    _rex_table(repo, rep, rule="R06.1", only=(
        "CDATA_CE", "UntilRSBs", "CommentCE", "Until2Hyphens", "UntilHyphen"))
    # entity decoding inside ${...} is the engine's own pattern (references
    # must be terminated by ';'), not a more liberal library routine
    dh = repo.func("chameleon.utils.decode_htmlentities")
    uses = [n for n in ast.walk(dh.node) if isinstance(n, ast.Call)
            and src(n.func) in ("entity_re.subn", "entity_re.sub")
            and n.args and src(n.args[0]) == "substitute_entity"]
    other = [src(n.func) for n in ast.walk(dh.node) if isinstance(n, ast.Call)
             and ("unescape" in src(n.func) or src(n.func).startswith("html."))]
    rep.check(len(uses) == 1 and not other, "R06.3", dh.qualname, "character "
              "references are decoded by entity_re / substitute_entity only "
              "(no decoding of unterminated legacy names such as &not or "
              "&copy)", construct="decoder-uses-entity-pattern",
              where=L.where(dh), detail=str(other))


def _dispatch(repo, rep):
    _token_extent(repo, rep)
    # every Interpolation node the template program builds requires braces
    # ('$name' in markup, an attribute value included, is literal text) and
    # only running text and attribute values are ever offered to the
    # translation function: a comment or CDATA section is not a message
    mod = repo.module("chameleon.zpt.program")
    n_sites = 0
    for q, f in sorted(repo.funcs.items()):
        if f.module is not mod:
            continue
        for c in ast.walk(f.node):
            if not (isinstance(c, ast.Call) and
                    src(c.func) == "nodes.Interpolation"):
                continue
            n_sites += 1
            given = dict(zip(("value", "braces_required", "translation"),
                             c.args))
            for k in c.keywords:
                if k.arg:
                    given[k.arg] = k.value
            br = given.get("braces_required")
            rep.check(isinstance(br, ast.Constant) and br.value is True,
                      "R06.1", f.qualname, "braces are required (a lone "
                      "$name is literal text)",
                      construct="braces-required-arg:" + f.name,
                      where=L.where(f, c.lineno),
                      detail=src(br) if br is not None else "missing")
            if f.name in ("visit_comment", "visit_cdata"):
                tr = given.get("translation")
                rep.check(tr is None or (isinstance(tr, ast.Constant)
                                         and tr.value is False), "R06.1",
                          f.qualname, "a comment / CDATA section with "
                          "${...} is interpolated, never handed to the "
                          "translation function as a message",
                          construct="no-translation:" + f.name,
                          where=L.where(f, c.lineno), detail=src(tr)
                          if tr is not None else "")
    if n_sites < 4:
        raise AnalysisError("Interpolation construction sites vanished (%d)"
                            % n_sites)
    for name in ("visit_text", "visit_comment", "visit_cdata"):
        f = repo.func(PROG + name)
        v = L.emission(repo, f.qualname).value
        n_interp = 0
        for conds, leaf in _leaves(v):
            has = [w for w in A.walk(leaf) if isinstance(w, A.NodeV)
                   and w.kind == "Interpolation"]
            if not has:
                continue
            n_interp += 1
            rep.check(_live(conds), "R06.1", f.qualname,
                      "%s builds an Interpolation only when the switch is on "
                      "and the text contains '${'" % name,
                      construct="live-guard:" + name, where=L.where(f),
                      detail=str(conds))
            for w in has:
                rep.check(len(w.args) >= 2 and A.show(w.args[1]) == "True",
                          "R06.1", f.qualname, "braces are required in "
                          "markup (a lone $name is literal)",
                          construct="braces-required:" + name,
                          where=L.where(f))
        rep.check(n_interp >= 1, "R06.1", f.qualname,
                  "%s can interpolate" % name, construct="can-interp:" + name,
                  where=L.where(f))
        # the converse: literal emission only for a stated reason -- the
        # switch is off / no '${' in the text, or one of the comment opt-outs
        for conds, leaf in _leaves(v):
            if any(isinstance(w, A.NodeV) and w.kind == "Interpolation"
                   for w in A.walk(leaf)):
                continue
            reasons = []
            unknown = []
            for t, b in conds:
                if reasons:
                    break       # what follows only shapes the literal text
                if "self._interpolation[-1]" in t and "'${'" in t:
                    if not _live([(t, b)]):
                        reasons.append("switch off or no ${")
                    continue
                if name == "visit_comment" and (
                        "startswith('<!--!')" in t or
                        "startswith('<!--?')" in t or
                        "enable_comment_interpolation" in t):
                    if (b and "startswith" in t) or (
                            "enable_comment_interpolation" in t and
                            L.cond_holds([(t, b)],
                                         "self.enable_comment_interpolation",
                                         False, contains=True)):
                        reasons.append("comment opt-out")
                    continue
                unknown.append((t, b))
            rep.check(bool(reasons) and not unknown, "R06.1", f.qualname,
                      "%s emits its text literally only because the switch "
                      "is off, the text has no '${', or (comments) an opt-out "
                      "applies -- under no other condition" % name,
                      construct="literal-reason:" + name, where=L.where(f),
                      detail="conditions %s" % (conds,))
    # comment opt-outs
    f = repo.func(PROG + "visit_comment")
    v = L.emission(repo, f.qualname).value
    ok_q = ok_opt = False
    for conds, leaf in _leaves(v):
        t = A.show(leaf, limit=6)
        if L.cond_holds(conds, "node.startswith('<!--?')", True,
                        contains=True):
            ok_q = "Interpolation" not in t and "nodes.Text" in t
        if L.cond_holds(conds, "self.enable_comment_interpolation", False,
                        contains=True) or L.cond_holds(
                            conds, "not self.enable_comment_interpolation",
                            True, contains=True):
            ok_opt = t == "nodes.Text(node)"
    rep.check(ok_q, "R06.1", f.qualname, "'<!--?' comments are emitted "
              "literally, nothing is evaluated", construct="comment-q",
              where=L.where(f))
    # ... and it is the comment as written minus the one marker character:
    # nothing else of the text may go (str.lstrip with a character SET eats
    # every leading '<', '!', '-', '?' of the comment text as well)
    strips = []
    for q_, fn in sorted(repo.funcs.items()):
        if not q_.startswith((PROG, "chameleon.parser.",
                              "chameleon.tokenize.", COMP)):
            continue
        for n in ast.walk(fn.node):
            if isinstance(n, ast.Call) and isinstance(n.func, ast.Attribute) \
                    and n.func.attr in ("strip", "lstrip", "rstrip") and \
                    n.args and isinstance(n.args[0], ast.Constant) and \
                    isinstance(n.args[0].value, str) and \
                    len(set(n.args[0].value.strip())) >= 2:
                strips.append((fn, n))
    rep.check(not strips, "R06.1", f.qualname, "no markup text is trimmed "
              "with a set of two or more non-blank characters (a marker is a "
              "prefix, removed by position)", construct="marker-not-a-set",
              where=L.where(strips[0][0], strips[0][1].lineno) if strips
              else L.where(f), detail="; ".join(
                  "%s: %s" % (a.qualname, src(b)) for a, b in strips[:3]))
    okq = False
    for r_ in ast.walk(f.node):
        if not isinstance(r_, ast.Return) or r_.value is None:
            continue
        gs = [(src(P._cond(t_, True, None)[1]),
               P._cond(t_, True, None)[2] == v_)
              for t_, v_ in L.guards_of(r_, f.node)
              if isinstance(t_, ast.AST) and not isinstance(
                  t_, ast.ExceptHandler)]
        if not L.cond_holds(gs, "node.startswith('<!--?')", True):
            continue
        e = L.inline_locals(f.node, r_.value)
        def five(x):
            return (isinstance(x, ast.Constant) and x.value == 5) or \
                src(x) in ("len('<!--?')", 'len("<!--?")')
        sl = [x for x in ast.walk(e) if isinstance(x, ast.Subscript)
              and src(x.value) == "node" and isinstance(x.slice, ast.Slice)
              and x.slice.upper is None and x.slice.lower is not None
              and five(x.slice.lower)]
        sl += [x for x in ast.walk(e) if isinstance(x, ast.Call)
               and src(x.func) == "node.removeprefix" and len(x.args) == 1
               and isinstance(x.args[0], ast.Constant)
               and x.args[0].value == "<!--?"]
        lit = [x for x in ast.walk(e) if isinstance(x, ast.Constant)
               and x.value == "<!--"]
        whole = [x for x in ast.walk(e) if isinstance(x, ast.Call)
                 and src(x.func) == "node.replace" and len(x.args) == 3
                 and [getattr(a, "value", None) for a in x.args] ==
                 ["<!--?", "<!--", 1]]
        okq = (bool(sl) and bool(lit)) or bool(whole)
    rep.check(okq, "R06.1", f.qualname, "a '<!--?' comment is written as "
              "'<!--' followed by everything after the marker (node[5:])",
              construct="comment-q-text", where=L.where(f))
    rep.check(ok_opt, "R06.1", f.qualname, "with comment interpolation "
              "disabled every comment is emitted literally",
              construct="comment-option", where=L.where(f))
    # attributes: heuristic '${' in text, expr None
    f = repo.func(PROG + "_create_attributes_nodes")
    t = L.text(f.node)
    rep.check("if expr is None and text is not None and ('${' in text):" in t,
              "R06.1", f.qualname, "a static attribute value interpolates "
              "iff it contains '${' (attributes are not subject to the "
              "switch, by design)", construct="attr-guard", where=L.where(f))


def _stack(repo, rep):
    f = repo.func(PROG + "visit_element")
    res = L.emission(repo, f.qualname)
    L.g_pair_stack(rep, "R06.2", f, res, "self._interpolation")
    rep.require_min("R06.2", 1, "switch stack of visit_element")
    tr = list(A.flatten(res.trace))
    push = [it for it, c in tr if isinstance(it, A.Effect)
            and it.kind == "push" and it.target == "self._interpolation"]
    ok = False
    if push:
        v = push[0].arg.items[0] if isinstance(push[0].arg, A.Tup) else None
        leaves = list(_leaves(v)) if v is not None else []
        vals = {}
        for conds, leaf in leaves:
            key = tuple((c, b) for c, b in conds)
            vals[A.show(leaf, limit=4)] = key
        ok = "False" in vals and "True" in vals and any(
            "self._interpolation" in k and "-1" in k for k in vals)
        off = vals.get("False", ())
        on = vals.get("True", ())
        ok = ok and any("('false', 'off')" in c and b for c, b in off) and \
            any("('true', 'on')" in c and b for c, b in on)
    rep.check(ok, "R06.2", f.qualname, "meta:interpolation false/off -> off, "
              "true/on -> on, absent -> the enclosing element's setting",
              construct="switch-value", where=L.where(f))
    ok = any(isinstance(it, A.Raise) and "Bad interpolation setting" in
             A.show(it.exc, limit=4) for it, c in tr)
    rep.check(ok, "R06.2", f.qualname, "any other value is a LanguageError",
              construct="switch-error", where=L.where(f))
    init = repo.func(PROG + "__init__")
    t = L.text(init.node, body_only=True)
    rep.check("self._interpolation = [True]" in t, "R06.2", init.qualname,
              "interpolation is on at the top level",
              construct="switch-initial", where=L.where(init))


def _decode(repo, rep):
    f = repo.func(COMP + "ExpressionTransform.visit_Interpolation")
    calls = [n for n in ast.walk(f.node) if isinstance(n, ast.Call)
             and src(n.func) == "Interpolator"]
    ic = repo.cls("chameleon.nodes.Interpolation")
    dflt = ic.attrs.get("decode_htmlentities")
    ok = len(calls) == 1 and any(
        k.arg == "decode_htmlentities" and (
            (isinstance(k.value, ast.Constant) and k.value.value is True) or
            (src(k.value) == "node.decode_htmlentities" and
             isinstance(dflt, ast.Constant) and dflt.value is True))
        for k in calls[0].keywords)
    # markup contexts never switch it off
    for nm in ("visit_comment", "visit_cdata"):
        vv = L.emission(repo, PROG + nm).value
        for w in A.walk(vv):
            if isinstance(w, A.NodeV) and w.kind == "Interpolation" and \
                    "decode_htmlentities" in w.kwargs:
                ok = False
    vt = L.emission(repo, PROG + "visit_text").value
    for w in A.walk(vt):
        if isinstance(w, A.NodeV) and w.kind == "Interpolation":
            # (text mode shares this visitor: there "&...;" is no entity;
            # the node class default is 'on', so the flag has to be passed)
            t = A.show(w.kwargs["decode_htmlentities"]).strip("`") \
                if "decode_htmlentities" in w.kwargs else "<default>"
            if t.replace(" ", "") not in ("bool(self.escape)", "self.escape"):
                ok = False      # element text decodes exactly when it escapes
    at = L.emission(repo, PROG + "_create_attributes_nodes").value
    for w in A.walk(at):
        if isinstance(w, A.NodeV) and w.kind == "Interpolation" and \
                "decode_htmlentities" in w.kwargs:
            ok = False
    rep.check(ok, "R06.3", f.qualname, "markup interpolation decodes "
              "character entities in expressions", construct="decode-flag",
              where=L.where(f))
    # ... ONCE: only the markup contexts ask for it.  The interpolators that
    # the string: / structure: expressions build for their own text rely on
    # the constructor's default, which therefore has to be 'off' (their
    # text was decoded with the expression it is part of)
    ii = repo.func(COMP + "Interpolator.__init__")
    names_ = [a_.arg for a_ in ii.node.args.args]
    dflt_ = None
    if "decode_htmlentities" in names_:
        k_ = names_.index("decode_htmlentities") - (
            len(names_) - len(ii.node.args.defaults))
        if 0 <= k_ < len(ii.node.args.defaults):
            dflt_ = ii.node.args.defaults[k_]
    implicit = []
    for q_, fn_ in sorted(repo.funcs.items()):
        for c_ in ast.walk(fn_.node):
            if isinstance(c_, ast.Call) and src(c_.func) == "Interpolator" \
                    and not any(k.arg == "decode_htmlentities"
                                for k in c_.keywords) and len(c_.args) < 4:
                implicit.append(fn_.qualname)
    rep.check(isinstance(dflt_, ast.Constant) and dflt_.value is False and
              len(implicit) >= 1, "R06.3", ii.qualname, "an interpolator "
              "built without saying so does not decode entities (%d such "
              "construction(s): the nested ${...} of string: expressions)"
              % len(implicit), construct="decode-default-off",
              where=L.where(ii),
              detail="default %s" % (src(dflt_) if dflt_ is not None
                                     else None))
    if calls:
        rep.check(src(calls[0].args[0]) == "expr.value" and
                  src(calls[0].args[1]) == "node.braces_required", "R06.3",
                  f.qualname, "the interpolator works on the node's text "
                  "with the node's brace policy", construct="interp-args",
                  where=L.where(f))
    g = repo.func(COMP + "Interpolator.__call__")
    paths = P.enum_paths(g.node.body, unroll=1, limit=60000)
    rep.count("interpolator_paths", len(paths))
    ok = True
    n = 0
    n_dec = 0
    for p in paths:
        dec = None
        for i, ev in enumerate(p):
            if ev[0] == "assign" and ev[1] == "string" and \
                    "decode_htmlentities(string)" in src(ev[2]):
                dec = i
            if ev[0] == "assign" and ev[1] == "compiler" and \
                    "engine.parse(string)" in src(ev[2]):
                n += 1
                flag = [e for e in p[:i] if e[0] == "cond"
                        and src(e[1]) == "self.decode_htmlentities"]
                if flag and flag[-1][2] and (dec is None or dec > i):
                    ok = False
                if flag and flag[-1][2] and dec is not None and dec < i:
                    n_dec += 1
    rep.check(ok and n >= 1 and n_dec >= 1, "R06.3", g.qualname, "on every path the "
              "candidate is decoded (when requested) before it is parsed",
              construct="decode-before-parse", where=L.where(g))
    er = repo.const("chameleon.utils", "entity_re")
    ok = False
    detail = getattr(er, "pattern", str(er))
    if hasattr(er, "pattern"):
        tree = rx.parse(er.pattern, er.flags)
        parents, names = rx.group_tree(tree)
        # third group: the entity body
        body = None
        for op, av in tree:
            if op is rx.C.SUBPATTERN and av[0] == 3:
                body = av[3]
        if body is not None:
            info = rx.analyse(body)
            need = rx.CharSet([(48, 57), (65, 90), (97, 122)])
            # every character of the body alternatives
            chars = rx.CharSet()

            def collect(items):
                nonlocal chars
                for op, av in items:
                    if op is rx.C.IN:
                        chars = chars | rx.in_set(av)
                    elif op is rx.C.LITERAL:
                        chars = chars | rx.CharSet([(av, av)])
                    elif op is rx.C.BRANCH:
                        for alt in av[1]:
                            collect(alt)
                    elif op in (rx.C.MAX_REPEAT, rx.C.MIN_REPEAT):
                        collect(av[2])
                    elif op is rx.C.SUBPATTERN:
                        collect(av[3])
            # a hexadecimal reference (x3c) and names like frac12 mix
            # letters and digits: ONE alternative has to accept both
            alts = [body]
            data = list(body)
            if len(data) == 1 and data[0][0] is rx.C.BRANCH:
                alts = data[0][1][1]
            per_alt = []
            for alt in alts:
                chars = rx.CharSet()
                collect(alt)
                per_alt.append(chars)
            ok = any(c.issuperset(need) for c in per_alt)
            detail += " alternatives %r" % per_alt
    # ... and is long enough: the longest name of the table the decoder
    # looks names up in (html.entities.name2codepoint: 'thetasym', 8) and a
    # seven-digit decimal reference (&#1114111;) fit one alternative
    longest = 0
    if body is not None:
        for alt in alts:
            alt = list(alt)
            if len(alt) == 1 and alt[0][0] in (rx.C.MAX_REPEAT,
                                                rx.C.MIN_REPEAT):
                cs_ = rx.all_chars(alt[0][1][2])
                if cs_.issuperset(need):
                    longest = max(longest, alt[0][1][1])
    import html.entities as _he
    want_len = max(max(len(k) for k in _he.name2codepoint), 7)
    rep.check(longest >= want_len, "R06.3", "chameleon.utils.entity_re",
              "an entity body may be as long as the longest entity name of "
              "the lookup table (%d characters)" % want_len,
              construct="entity-body-length",
              detail="longest body accepted: %s" % longest)
    rep.check(ok, "R06.3", "chameleon.utils.entity_re",
              "the entity pattern accepts digits and letters in an entity "
              "body (decimal and hexadecimal references such as &#x3c;, "
              "names such as &frac12;)", construct="entity-body-class",
              detail=detail[:200])
    # the hexadecimal marker may be written x or X (&#X22; is what HTML
    # allows), and both spellings must reach the hexadecimal branch --
    # otherwise 'X22' is matched as an entity body and int('X22') fails
    marker = None
    if hasattr(er, "pattern"):
        loc = rx.locate_group(rx.parse(er.pattern, er.flags), 2)
        if loc is not None:
            marker = rx.all_chars(loc[0])
    icase = bool(getattr(er, "flags", 0) & 2)
    rep.check(marker is not None and (icase or (
        "x" in marker and "X" in marker)), "R06.3",
        "chameleon.utils.entity_re", "the hexadecimal marker of a "
        "character reference is accepted in either case (&#x22; and &#X22;)",
        construct="hex-marker-case", detail=str(marker))
    sub = repo.func("chameleon.utils.substitute_entity")
    # a NAME may begin with x or X (&xi; &Xi;): the marker may only be split
    # off after '#', or the name looked up must put it back
    hashed = hasattr(er, "pattern") and rx.implied_before(
        rx.parse(er.pattern, er.flags), 2, "#")
    rejoined = False
    for n in ast.walk(sub.node):
        if isinstance(n, ast.Call) and isinstance(n.func, ast.Attribute) \
                and n.func.attr == "get" and n.args:
            key = src(L.inline_locals(sub.node, n.args[0]))
            if "group(2)" in key and "group(3)" in key:
                rejoined = True
    rep.check(hashed or rejoined, "R06.3", "chameleon.utils.entity_re",
              "the hexadecimal marker is recognised only after '#': in a "
              "named entity a leading x or X belongs to the name (&xi; &Xi; "
              "are decoded like &mu;)", construct="hex-marker-needs-hash",
              detail=getattr(er, "pattern", ""))
    hexb = [n for n in ast.walk(sub.node) if isinstance(n, ast.Compare)
            and "group(2)" in src(n.left) and any(
                isinstance(c, ast.Constant) and c.value in ("x", "X")
                for c in n.comparators + [x for cmp_ in n.comparators
                                           if isinstance(cmp_, (ast.Tuple,
                                                                ast.List,
                                                                ast.Set))
                                           for x in cmp_.elts])]
    both = any(".lower()" in src(n.left) or ".upper()" in src(n.left) or any(
        isinstance(c, (ast.Tuple, ast.List, ast.Set)) and
        {"x", "X"} <= {e.value for e in c.elts
                       if isinstance(e, ast.Constant)}
        for c in n.comparators) for n in hexb)
    rep.check(bool(hexb) and both, "R06.3", sub.qualname, "both spellings "
              "of the marker select the hexadecimal conversion",
              construct="hex-branch-case", where=L.where(sub))
    # a reference whose digits are no number, or whose number is no code
    # point (&#xzz; &#xFFFFFFFF; &#1114112;), is text: the conversions are
    # guarded (int() raises ValueError, chr() ValueError / OverflowError) and
    # the reference is left as written -- decoding never fails the compile
    # (conversions of the reference's own text; chr() of a code point
    # taken from the entity table cannot fail)
    ints = [n for n in ast.walk(sub.node) if isinstance(n, ast.Call)
            and src(n.func) == "int" and any(
                isinstance(x, ast.Call) and src(x.func).endswith(".group")
                for x in ast.walk(L.inline_locals(sub.node, n)))]
    convs = ints + [n for n in ast.walk(sub.node) if isinstance(n, ast.Call)
                    and src(n.func) == "chr" and any(
                        x in ints for x in ast.walk(n))]
    unguarded = []
    for n in convs:
        a_ = getattr(n, "_parent", None)
        ok_ = False
        prev = n
        while a_ is not None and a_ is not sub.node:
            if isinstance(a_, ast.Try) and any(
                    prev is st or any(prev is x for x in ast.walk(st))
                    for st in a_.body):
                caught = " ".join(src(h.type) if h.type is not None
                                  else "BaseException" for h in a_.handlers)
                if ("ValueError" in caught and "OverflowError" in caught) \
                        or "Exception" in caught or "ArithmeticError" in \
                        caught and "ValueError" in caught:
                    ok_ = True
            prev, a_ = a_, getattr(a_, "_parent", None)
        if not ok_:
            unguarded.append(n)
    rep.check(bool(convs) and not unguarded, "R06.3", sub.qualname, "the "
              "numeric conversions of a character reference are guarded "
              "(ValueError, OverflowError): a malformed reference stays as "
              "written instead of failing the compilation",
              construct="reference-conversion-guarded",
              where=L.where(sub, unguarded[0].lineno) if unguarded
              else L.where(sub),
              detail="; ".join(src(n)[:40] for n in unguarded[:3]))
    # the five names every XML document may use -- lt gt amp quot apos --
    # are decoded; the HTML 4 table of the standard library has no 'apos'
    mod = sub.module
    knows_apos = any(isinstance(n, ast.Constant) and n.value == "apos"
                     for n in ast.walk(mod.tree))
    rep.check(knows_apos, "R06.3", sub.qualname, "&apos; (predefined in XML, "
              "absent from html.entities.name2codepoint) is decoded like "
              "&quot;", construct="apos", where=L.where(sub))
    _entity_table(repo, rep, er, sub)
    t = L.text(sub.node)
    rep.check("return chr(int(ent))" in t and
              "return chr(int('0x' + ent, 16))" in t and
              "return match.group()" in t, "R06.3", sub.qualname,
              "decimal, hexadecimal and named entities are decoded; unknown "
              "names are left alone", construct="entities",
              where=L.where(sub))


def _entity_table(repo, rep, er, sub):
    """Decision table of substitute_entity, decided over all its paths.  The
    roles of the pattern's groups are read off entity_re ('#', the x/X
    marker, the body); every path that converts a number must have tested
    the '#' group for '#' and the marker group for '' (decimal) or x/X
    (hexadecimal, base 16) in the positive; a named entity is looked up by
    the body; 'apos' is 39."""
    C = rx.C
    tree = rx.parse(er.pattern, er.flags)
    roles = {}
    n_groups = 0
    for gid in range(1, 8):
        loc = rx.locate_group(tree, gid)
        if loc is None:
            break
        n_groups = gid
        body = list(loc[0])
        chars = rx.all_chars(body)
        if len(body) == 1 and body[0][0] is C.LITERAL and \
                chr(body[0][1]) == "#":
            roles[gid] = "hash"
        elif body and chars == rx.CharSet.of("xX"):
            roles[gid] = "marker"
            opt = len(body) == 1 and body[0][0] in (
                C.MAX_REPEAT, C.MIN_REPEAT) and body[0][1][0] == 0 and \
                body[0][1][1] == 1
            rep.check(opt, "R06.3", "chameleon.utils.entity_re", "the "
                      "hexadecimal marker is optional and single: '&#65;' "
                      "is a (decimal) character reference",
                      construct="hex-marker-optional", detail=er.pattern)
        elif rx.CharSet.of("0123456789") <= chars and \
                rx.CharSet.of("az") <= chars:
            roles[gid] = "body"
    by_role = {v: k for k, v in roles.items()}
    if set(by_role) != {"hash", "marker", "body"} or n_groups != 3:
        rep.check(False, "R06.3", "chameleon.utils.entity_re", "the entity "
                  "pattern has three groups: '#', the x/X marker, the body",
                  construct="entity-groups", detail=str(roles))
        return
    mname = sub.node.args.args[0].arg

    def group_of(e):
        """index of match.group(k) an expression reads (locals inlined)"""
        e = L.inline_locals(sub.node, e)
        ks = [n.args[0].value for n in ast.walk(e)
              if isinstance(n, ast.Call) and isinstance(n.func, ast.Attribute)
              and n.func.attr == "group" and src(n.func.value) == mname
              and n.args and isinstance(n.args[0], ast.Constant)]
        return ks

    bad = []
    n_paths = 0
    seen = set()
    for path in P.enum_paths(sub.node.body):
        ret = [ev for ev in path if ev[0] == "return"]
        if not ret or any(ev[0] == "except" for ev in path):
            continue
        n_paths += 1
        conds = [(ev[1], ev[2]) for ev in path if ev[0] == "cond"]
        facts = {}
        for t, v in conds:
            ti = L.inline_locals(sub.node, t)
            if isinstance(ti, ast.Compare) and len(ti.ops) == 1:
                ks = group_of(ti.left)
                consts = []
                for c_ in ti.comparators:
                    for x in ast.walk(c_):
                        if isinstance(x, ast.Constant) and \
                                isinstance(x.value, str):
                            consts.append(x.value)
                if len(ks) == 1 and consts and isinstance(
                        ti.ops[0], (ast.Eq, ast.In)):
                    facts[(ks[0], tuple(sorted(consts)))] = v
                elif len(ks) == 1:
                    bad.append("test %s is neither == nor in" % src(t))
        val = ret[0][1]
        vt = src(L.inline_locals(sub.node, val)) if val is not None else ""
        hashed = facts.get((by_role["hash"], ("#",)))
        dec = facts.get((by_role["marker"], ("",)))
        hexm = facts.get((by_role["marker"], ("X", "x")))
        kind = None
        if "int(" in vt and ", 16)" in vt.replace(" ", "").replace(
                ",16)", ", 16)"):
            kind = "hex"
        elif "int(" in vt:
            kind = "dec"
        elif vt.startswith("chr("):
            kind = "named"
        elif vt == "%s.group()" % mname or vt == "%s.group(0)" % mname:
            kind = "asis"
        elif vt == "''":
            kind = "empty"
        else:
            kind = "other:" + vt[:30]
        seen.add(kind)
        for k_ in group_of(val) if val is not None else []:
            if kind in ("dec", "hex") and k_ != by_role["body"]:
                bad.append("a number is converted from group %d, the body "
                           "is group %d" % (k_, by_role["body"]))
        if kind == "dec" and not (hashed is True and dec is True):
            bad.append("decimal conversion reached without "
                       "group(%d) == '#' and group(%d) == '' (%s)" % (
                           by_role["hash"], by_role["marker"],
                           L.conds_text([("if" if v else "else", src(t))
                                         for t, v in conds])[:80]))
        if kind == "hex" and not (hashed is True and hexm is True):
            bad.append("hexadecimal conversion reached without "
                       "group(%d) == '#' and group(%d) in ('x', 'X')" % (
                           by_role["hash"], by_role["marker"]))
        if kind == "named" and hashed is not False:
            bad.append("entity-table lookup reached for a '#' reference")
        if kind == "empty" and (dec is True or hexm is True):
            bad.append("a decimal or hexadecimal reference decodes to ''")
        if kind.startswith("other"):
            bad.append("unexpected result " + kind)
    for need in ("dec", "hex", "named", "asis"):
        if need not in seen:
            bad.append("no path returns the %s result" % need)
    # the name looked up is the body; apos is chr(39), chosen when the name
    # EQUALS 'apos'
    gets = [n for n in ast.walk(sub.node) if isinstance(n, ast.Call)
            and isinstance(n.func, ast.Attribute) and n.func.attr == "get"
            and n.args]
    if not gets or any(group_of(g.args[0]) != [by_role["body"]]
                       for g in gets):
        bad.append("the entity table is not consulted with the body "
                   "(group %d)" % by_role["body"])
    ap = [n for n in ast.walk(sub.node) if isinstance(n, (ast.IfExp, ast.If))
          and any(isinstance(x, ast.Constant) and x.value == "apos"
                  for x in ast.walk(n.test))]
    okap = False
    for n in ap:
        t = n.test
        if isinstance(t, ast.Compare) and len(t.ops) == 1 and isinstance(
                t.ops[0], ast.Eq) and group_of(t.left) == [by_role["body"]]:
            body = n.body if isinstance(n, ast.IfExp) else None
            if isinstance(body, ast.Constant) and body.value == 39:
                okap = True
            elif body is not None and src(body) in ("ord(\"'\")",
                                                    "ord(\"\\'\")"):
                okap = True
    if not okap:
        bad.append("'apos' is not mapped to 39 (the apostrophe) by an "
                   "equality test on the body")
    rep.check(not bad and n_paths >= 4, "R06.3", sub.qualname, "decision "
              "table of the entity decoder over its %d paths: '#' + digits "
              "is decimal, '#' + x/X + digits is hexadecimal (base 16), "
              "anything else is looked up by name, apos is the apostrophe, "
              "the rest stays as written" % n_paths,
              construct="entity-table", where=L.where(sub),
              detail="; ".join(sorted(set(bad)))[:300])


def _loop(repo, rep, rule="R06.4"):
    g = repo.func(COMP + "Interpolator.__call__")
    site = g.qualname
    wh = L.where(g)
    # regexes
    ci = repo.cls(COMP + "Interpolator")
    for nm, var in (("braces_required_regex", False),
                    ("braces_optional_regex", True)):
        node = ci.attrs.get(nm)
        try:
            rc = repo.fold(node, ci.module)
        except Exception:
            rc = None
        ok = rc is not None and rc.pattern.startswith(r"\$({(?P<expression>"
                                                      r".*)}") and \
            bool(rc.flags & 16) and (("(?P<variable>" in rc.pattern) == var)
        rep.check(ok, rule, ci.qualname + "." + nm, "a candidate is '$' "
                  "followed by a braced group matched greedily across lines"
                  + (" or a bare variable name" if var else ""),
                  construct="regex:" + nm,
                  detail=getattr(rc, "pattern", "?"))
    t = L.text(g.node)
    # shrink step
    shrink = [n for n in ast.walk(g.node) if isinstance(n, ast.Assign)
              and src(n.targets[0]) == "matched"
              and src(n.value) != "text"]
    ok = len(shrink) == 1 and \
        src(shrink[0].value).replace(" ", "") == "matched[m.start():m.end()-1]"
    rep.check(ok, rule, site, "a rejected candidate is shrunk by exactly "
              "one character at its end, keeping its start",
              construct="shrink", where=wh,
              detail=str([src(s_) for s_ in shrink]))
    if shrink:
        h = getattr(shrink[0], "_parent", None)
        rep.check(isinstance(h, ast.ExceptHandler) and h.type is not None and
                  src(h.type) == "ExpressionError", rule, site,
                  "shrinking happens only when the expression engine "
                  "rejects the candidate (ExpressionError)",
                  construct="shrink-trigger", where=wh)
        body = [src(s_) for s_ in h.body] if isinstance(
            h, ast.ExceptHandler) else []
        ok = len(body) >= 4 and body[1] == "m = self.regex.search(matched)" \
            and body[2].replace(" ", "").startswith("ifmisNone:raise") and \
            body[3] == "continue"
        rep.check(ok, rule, site, "the shorter candidate is searched "
                  "again; when none is left the original error propagates",
                  construct="research-or-raise", where=wh, detail=str(body))
    # nothing but the expression engine may reject a candidate
    raises = [n for n in ast.walk(g.node) if isinstance(n, ast.Raise)]
    okr = len(raises) == 1 and raises[0].exc is None and isinstance(
        getattr(getattr(raises[0], "_parent", None), "_parent", None),
        ast.ExceptHandler)
    rep.check(okr, rule, site, "a candidate is rejected only by the "
              "expression engine: the loop contains no other raise (no "
              "textual pre-filter on braces or quotes)",
              construct="only-engine-rejects", where=wh,
              detail=str([src(r) for r in raises]))
    conts = [n for n in ast.walk(g.node) if isinstance(n, ast.Continue)]
    okc = all(isinstance(getattr(n, "_parent", None), (ast.ExceptHandler,
                                                       ast.If))
              and (isinstance(n._parent, ast.ExceptHandler) or
                   src(n._parent.test) == "skip") for n in conts)
    rep.check(okc and len(conts) == 2, rule, site, "the loop continues "
              "early only for an escaped '$' and for a shrunk candidate",
              construct="continues", where=wh,
              detail=str([src(getattr(n, "_parent", n))[:40] for n in conts]))
    rep.check("text = text[len(m.group()):]" in t, rule, site,
              "after a successful expression the input advances by the full "
              "length of the match", construct="advance", where=wh)
    rep.check("part = text[:m.start()]" in t and "text = text[m.start():]"
              in t, rule, site, "the literal run before a candidate is "
              "split off without loss", construct="literal-run", where=wh)
    # odd-run test before un-doubling
    stmts = [s_ for s_ in ast.walk(g.node) if isinstance(s_, ast.stmt)]
    line_skip = [s_.lineno for s_ in stmts
                 if src(s_).replace(" ", "") == "skip=i&1"]
    line_un = [s_.lineno for s_ in stmts
               if src(s_) == "part = part.replace('$$', '$')"]
    rep.check(len(line_skip) == 1 and len(line_un) == 1 and
              line_skip[0] < line_un[0], rule, site, "whether the '$' of "
              "the candidate is itself escaped (odd run of '$' before it) is "
              "decided before '$$' is un-doubled", construct="odd-run-first",
              where=wh)
    rep.check("while i < length and part[-i - 1] == '$': i += 1" in t,
              rule, site, "the run of '$' directly before the candidate "
              "is counted", construct="run-count", where=wh)
    rep.check("if skip: text = text[1:] continue" in t.replace("\n", " "),
              rule, site, "an escaped candidate is skipped by one "
              "character and scanning continues", construct="skip-escaped",
              where=wh)
    # the literal kept for an empty ${} is the text of the candidate that
    # finally validated: m.group() taken inside the shrink loop, after the
    # last re-search -- not the longest candidate
    inner = [n for n in ast.walk(g.node) if isinstance(n, ast.While)
             and src(n.test) == "True"]
    okl = False
    detail = ""
    if inner:
        for n in ast.walk(inner[0]):
            if isinstance(n, ast.Call) and src(n.func) == "ast.Constant" \
                    and len(n.args) == 1:
                a0 = n.args[0]
                val = a0
                if isinstance(a0, ast.Name):
                    defs = [x for x in ast.walk(g.node)
                            if isinstance(x, ast.Assign) and any(
                                isinstance(t_, ast.Name) and t_.id == a0.id
                                for t_ in x.targets)]
                    inside = [x for x in defs if any(
                        y is x for y in ast.walk(inner[0]))]
                    if len(defs) == 1 and inside:
                        val = defs[0].value
                    else:
                        detail = "%s defined outside the shrink loop" % a0.id
                        continue
                if src(val) == "m.group()":
                    okl = True
    rep.check(okl, rule, site, "an empty ${} is kept as the text of the "
              "candidate that was finally accepted (m.group() inside the "
              "shrink loop)", construct="empty-literal", where=wh,
              detail=detail)
    # no-match exit un-doubles the tail and ends
    rep.check("if m is None: text = text.replace('$$', '$') "
              "nodes.append(ast.Constant(text)) break" in t, rule, site,
              "when no candidate is left the tail is un-doubled, emitted and "
              "the loop ends", construct="tail", where=wh)
    rep.check("nodes.append(node)" in t and
              "node = ast.Constant(part)" in t, rule, site,
              "literal runs are emitted in order", construct="literal-emit",
              where=wh)
    # result: parts concatenated in order, None -> ''
    rep.check("'NODE if NODE is not None else \\'\\''" in t or
              "NODE if NODE is not None else ''" in t, rule, site,
              "a part that evaluates to None contributes nothing",
              construct="none-part", where=wh)
    rep.check("ast.Constant('%s' * len(nodes))" in t, rule, site,
              "parts are concatenated in source order",
              construct="concat", where=wh)


def marker_on_text(repo, rep, rule="R06.5"):
    """Whether a text / comment / CDATA node holds an interpolation is
    decided by looking for '${' in the text of the node itself.  On an
    edited copy (escapes removed first, ...) '$$${x}' -- an escaped dollar
    followed by a live ${x} -- reads as static text."""
    for name in ("visit_text", "visit_comment", "visit_cdata"):
        f = repo.func(PROG + name)
        prm = f.node.args.args[1].arg
        tests = [n for n in ast.walk(f.node) if isinstance(n, ast.Compare)
                 and len(n.ops) == 1
                 and isinstance(n.ops[0], (ast.In, ast.NotIn))
                 and isinstance(n.left, ast.Constant)
                 and n.left.value == "${"]
        bad = []
        for t_ in tests:
            subj = L.inline_locals(f.node, t_.comparators[0])
            if not (isinstance(subj, ast.Name) and subj.id == prm):
                bad.append(src(t_))
        rep.check(bool(tests) and not bad, rule, f.qualname, "the marker "
                  "test that decides on interpolation looks at the node's "
                  "text as written", construct="marker-on-text:" + name,
                  where=L.where(f, tests[0].lineno if tests else None),
                  detail="; ".join(bad)[:120])


def _dollar(repo, rep):
    """$$ on the no-interpolation path of every context"""
    def undoubles(leaf):
        return "replace('$$', '$')" in A.show(leaf, limit=8)
    for name, ctx in (("visit_text", "element text"),
                      ("visit_comment", "comments"),
                      ("visit_cdata", "CDATA sections")):
        f = repo.func(PROG + name)
        v = L.emission(repo, f.qualname).value
        plain = []
        for conds, leaf in _leaves(v):
            if any(isinstance(w, A.NodeV) and w.kind == "Interpolation"
                   for w in A.walk(leaf)):
                continue
            if A.show(leaf) == "None":
                continue
            # only leaves where interpolation is *live but absent*:
            # switch on / option on, no '${' in the text
            off = any(("not self.enable_comment_interpolation" in c and b) or
                      ("startswith('<!--?')" in c and b) for c, b in conds)
            if off:
                continue
            plain.append(leaf)
        ok = bool(plain) and all(undoubles(x) for x in plain)
        rep.check(ok, "R06.5", f.qualname, "$$ yields a single $ in %s also "
                  "when the text contains no ${" % ctx,
                  construct="dollar:" + name, where=L.where(f),
                  detail="plain leaves: %s" % [A.show(x, limit=3)[:60]
                                               for x in plain])
    f = repo.func(PROG + "_create_attributes_nodes")
    v = L.emission(repo, f.qualname).value
    consts = [w for w in A.walk(v) if isinstance(w, A.Py)
              and w.kind == "Constant" and "[1][1]" in A.show(w, limit=4)]
    ok = bool(consts) and all(undoubles(c) for c in consts)
    rep.check(ok, "R06.5", f.qualname, "$$ yields a single $ in static "
              "attribute values without ${", construct="dollar:attributes",
              where=L.where(f), detail=str([A.show(c, limit=3)[:70]
                                            for c in consts[:1]]))
