"""C10 -- i18n: message ids, mappings and translation context."""
from __future__ import annotations

import ast
import re
import textwrap

from .. import absint as A
from .. import lib as L
from .. import paths as P
from ..core import AnalysisError, NotConst, src

COMP = "chameleon.compiler."
CC = COMP + "Compiler."

I18N_KW = {"domain": "__i18n_domain", "context": "__i18n_context",
           "target_language": "target_language"}


def run(repo, rep, tier):
    rep.explanation = (
        "The translation contract is fixed by code fragments that the "
        "compiler pastes into every render function, so it is decided on "
        "those fragments and on the emission trees of the i18n emitters: "
        "visit_Translate captures the element's output in a per-node stream, "
        "normalises it, and emits exactly one translate(...) call whose "
        "msgid is the explicit id or the computed content, whose default is "
        "always the computed content, whose mapping maps each i18n:name to "
        "its captured block, guarded by 'if msgid' when no explicit id is "
        "given.  Every translate(...) call in every fragment of the package "
        "is enumerated and must pass domain/context/target_language from "
        "the lexically scoped locals; those locals are saved and restored "
        "around i18n:domain/context/target by per-node backups; render and "
        "fill functions carry them as parameters (fillers default to their "
        "definition site and are called with three arguments only).  The "
        "conversion routines are enumerated path by path: a value that is "
        "not str, number or __html__ is offered to translate before str().")
    rep.assumptions = [
        "simple_translate's ${name} substitution regex is value-level and "
        "not decided",
        "Python keyword-argument and default-argument semantics",
    ]
    rep.rule("R10.1", "visit_Translate skeleton: per-node capture, one "
                      "translate call per path, msgid/default/mapping, empty "
                      "guard")
    rep.rule("R10.2", "G-SIBLING: every translate(...) fragment passes "
                      "domain, context and target_language from the scoped "
                      "locals")
    rep.rule("R10.3", "translation settings: per-node save/restore brackets; "
                      "render/fill function parameters; fillers called with "
                      "three arguments; macros with the caller's settings")
    rep.rule("R10.4", "i18n:name: block captured in its own stream, ${name} "
                      "placeholder in the enclosing one; duplicate / stray "
                      "names rejected")
    rep.rule("R10.5", "message objects: translate before str() on every "
                      "path of the conversion routines")
    rep.rule("R10.6", "attribute translation: explicit/implicit msgid, "
                      "Translate wrapper, emit_translate default")
    _translate(repo, rep)
    implicit_inside_explicit(repo, rep)
    default_content_translated(repo, rep)
    _siblings(repo, rep)
    _settings(repo, rep)
    _names(repo, rep)
    _messages(repo, rep)
    _attributes(repo, rep)
    # the capture variables of i18n:name blocks are named after the mangled
    # block name: two names of one translation must not share a variable
    # (C09 owns the rule about the key function)
    # -- decided by _names (name-key-injective): either the blocks carry an
    # ordinal of their own in the variable name, or the key function itself
    # has to be injective (the C09 obligation, borrowed there)
    L.option_defaults_rule(repo, rep, "R10.1", ("implicit_i18n_translate",))
    L.option_forwarded_rule(repo, rep, "R10.1", ("implicit_i18n_attributes",))
    L.whitelist_rule(repo, rep, "R10.1", ("chameleon.i18n",))
    # a bytes message id is decoded with the template's encoding before the
    # translation function sees it
    pr_ = repo.func("chameleon.zpt.template.PageTemplate.render")
    decs = [c for w in ast.walk(pr_.node) if isinstance(w, ast.FunctionDef)
            and w.name == "translate" for c in ast.walk(w)
            if isinstance(c, ast.Call) and src(c.func) == "bytes.decode"]
    rep.check(bool(decs) and all(
        len(c.args) >= 2 and src(c.args[0]) == "msgid" and
        src(c.args[1]) == "encoding" for c in decs), "R10.2", pr_.qualname,
        "the wrapper decodes a bytes message id with the configured "
        "encoding", construct="msgid-decoded-with-encoding",
        where=L.where(pr_))
    # "what it returns is what appears in the output", for attributes too:
    # after an attribute's value is computed nothing rewrites it (escaping
    # happens inside the conversion, before the translation is applied)
    va_ = repo.func(CC + "visit_Attribute")
    res_ = L.emission(repo, va_.qualname)
    rew = [A.show(it_, limit=2)[:60] for it_, c_ in A.flatten(res_.emission)
           if isinstance(it_, A.Frag) and ".replace(" in str(it_.source)]
    rep.check(not rew, "R10.3", va_.qualname, "the computed value of an "
              "attribute is written as it is (no replacement of characters "
              "after the translation)", construct="attribute-value-as-"
              "computed", where=L.where(va_), detail="; ".join(rew))
    # the names in implicit_i18n_attributes are lower-case by contract:
    # the attribute's name is compared in lower case
    can = repo.func("chameleon.zpt.program.MacroProgram."
                    "_create_attributes_nodes")
    mem = [c for c in ast.walk(can.node) if isinstance(c, ast.Compare)
           and len(c.ops) == 1 and isinstance(c.ops[0], (ast.In, ast.NotIn))
           and src(c.comparators[0]) == "self.implicit_i18n_attributes"]
    rep.check(bool(mem) and all(src(c.left).endswith(".lower()")
                                for c in mem), "R10.1", can.qualname,
              "an attribute is looked up among the implicitly translated "
              "ones by its lower-case name", construct="implicit-name-lower",
              where=L.where(can), detail="; ".join(src(c) for c in mem))
    # an i18n:name of blanks names nothing (C09 owns the element details)
    from . import c09 as _c09
    L.borrow(repo, rep, "R10.4", "C09", _c09.element_details,
             ("blank-clause-empty",))
    L.innermost_rule(repo, rep, "R10.4", ("chameleon.compiler.Compiler",
                                            "chameleon.zpt.program.MacroProgram"),
                     only=("_translations", "_implicit_translation"))
    pr = repo.func("chameleon.zpt.template.PageTemplate.render")
    seeds = [src(c.args[0]) for c in ast.walk(pr.node)
             if isinstance(c, ast.Call) and src(c.func) in (
                 "setdefault", "_kw.setdefault") and c.args]
    rep.check("'target_language'" in seeds and "'__translate'" in seeds,
              "R10.3", pr.qualname, "render() provides target_language "
              "(None unless given) and the translation function to the "
              "generated code", construct="render-seeds", where=L.where(pr),
              detail=str(seeds))
    # the settings an element declares apply to its content; its own
    # statements are evaluated with the enclosing ones (C01 owns the nesting)
    from . import c01 as _c01
    L.borrow(repo, rep, "R10.3", "C01", _c01.order, ("order:switch>domain",))
    L.state_rule(repo, rep)


def _translate(repo, rep):
    f = repo.func(CC + "visit_Translate")
    res = L.emission(repo, f.qualname)
    L.require_no_opaque(res.emission, f.qualname)
    site = f.qualname
    wh = L.where(f)
    lin = L.Lin(res.emission)
    tcs = lin.all(lambda it: isinstance(it, A.Internal)
                  and it.kind == "TranslationContext")
    rep.check(len(tcs) == 1, "R10.1", site, "the element body is emitted "
              "inside exactly one local output context",
              construct="capture-count", where=wh, detail=str(len(tcs)))
    if len(tcs) != 1:
        return
    tc = lin.item(tcs[0])
    body, app, stream = tc.args[:3]
    rep.check("Child(node.node)" in A.show(body, limit=4), "R10.1", site,
              "the captured body is the translated element's content",
              construct="capture-body", where=wh)
    for v, nm in ((app, "append"), (stream, "stream")):
        ok, why = A.per_node(v)
        rep.check(ok, "R10.1", site, "the capture %s is a per-node generated "
                  "local (nested translations do not share it)" % nm,
                  construct="capture-" + nm, where=wh, detail=why)
    # stream = new list; append = stream.append before the context
    init = [i for i in range(tcs[0]) if isinstance(lin.item(i), A.Frag) and
            any(isinstance(b["_L"], ast.Name) and "_new_list" in A.show(
                L.slot_value(lin.item(i), b["_L"]) or A.Const(""))
                for _, b in L.frag_find(lin.item(i), "_S = _L"))]
    bound = [i for i in range(tcs[0]) if isinstance(lin.item(i), A.Frag) and
             L.frag_find(lin.item(i), "_A = _S.append")]
    ok = False
    if init and bound:
        fi = lin.item(init[-1])
        b = L.frag_find(fi, "_S = _L")[0][1]
        fb = lin.item(bound[-1])
        b2 = L.frag_find(fb, "_A = _S.append")[0][1]
        ok = L.name_key(fi, b["_S"]) == A.ident_key(stream) == \
            L.name_key(fb, b2["_S"]) and \
            L.name_key(fb, b2["_A"]) == A.ident_key(app) and \
            "_new_list" in A.show(L.slot_value(fi, b["_L"]))
    rep.check(ok, "R10.1", site, "a fresh stream is created and its append "
              "bound for this node before the body runs",
              construct="fresh-stream", where=wh)
    # msgid computation
    mi = None
    for i in range(tcs[0] + 1, len(lin.rows)):
        it = lin.item(i)
        if isinstance(it, A.Frag):
            for node, b in L.frag_find(
                    it, "_M = __re_whitespace(''.join(_S)).strip()"):
                mi = (i, it, b)
    rep.check(mi is not None, "R10.1", site, "the message id is the captured "
              "output joined, whitespace-collapsed and stripped",
              construct="msgid-normalise", where=wh)
    if mi is None:
        return
    msgid_key = L.name_key(mi[1], mi[2]["_M"])
    rep.check(L.name_key(mi[1], mi[2]["_S"]) == A.ident_key(stream), "R10.1",
              site, "the message id is computed from this node's stream",
              construct="msgid-stream", where=wh)
    # translate calls
    calls = []
    for i, (it, conds, path) in enumerate(lin.rows):
        if isinstance(it, A.Frag) and it.tree is not None:
            for n in ast.walk(it.tree):
                if isinstance(n, ast.Call) and src(n.func) == "translate":
                    calls.append((i, it, n, conds, path))
    # one call per compile-time alternative
    sigs = {}
    for c in calls:
        sigs.setdefault(L.cond_signature(c[3]), []).append(c)
    rep.check(bool(calls) and all(len(v) == 1 for v in sigs.values()),
              "R10.1", site, "exactly one translate(...) call is emitted on "
              "every compile-time path", construct="one-call", where=wh,
              detail="%d call fragment(s) under %d condition(s)" % (
                  len(calls), len(sigs)))
    for i, it, call, conds, path in calls:
        rep.check(i > mi[0], "R10.1", site, "translate is called after the "
                  "content was captured and normalised", construct="call-order",
                  where=wh)
        kw = {k.arg: k.value for k in call.keywords}
        # default is always the computed content
        dv = L.slot_value(it, kw.get("default")) if "default" in kw else None
        rep.check(dv is not None and A.ident_key(dv) == msgid_key, "R10.1",
                  site, "default= is always the computed content (also with "
                  "an explicit id)", construct="default-arg", where=wh,
                  detail=A.show(dv, limit=3) if dv is not None else "missing")
        mv = L.slot_value(it, call.args[0]) if call.args else None
        ok = False
        if isinstance(mv, A.Alt) and L.norm_test(mv.test) == "node.msgid":
            ok = "node.msgid" in A.show(mv.a, limit=4) and \
                A.ident_key(mv.b) == msgid_key
        rep.check(ok, "R10.1", site, "msgid is the explicit id if given, "
                  "else the computed content", construct="msgid-arg",
                  where=wh, detail=A.show(mv, limit=3)[:120])
        mp = L.slot_value(it, kw.get("mapping")) if "mapping" in kw else None
        mt = A.show(mp, limit=10) if mp is not None else ""
        rep.check("Py.Dict" in mt and "_translations" in mt and
                  "stream_" in mt, "R10.1", site, "mapping= maps each "
                  "i18n:name of this translation to its captured block",
                  construct="mapping-arg", where=wh, detail=mt[:140])
        # the result is appended to the *enclosing* stream
        ap = L.frag_find(it, "__append(translate(_X))", "expr") or \
            [1 for n in ast.walk(it.tree) if isinstance(n, ast.Call)
             and src(n.func) == "__append" and n.args and n.args[0] is call]
        rep.check(bool(ap) and not any(
            isinstance(n, A.Internal) for n, fld in path), "R10.1", site,
            "what translate returns is appended to the enclosing output",
            construct="result-appended", where=wh)
        # guard without explicit id
        guarded = [n for n, fld in path if isinstance(n, A.Py)
                   and n.kind == "If"]
        if L.polarity(conds, "node.msgid") is False or \
                L.polarity(conds, "not node.msgid") is True:
            ok = bool(guarded) and isinstance(guarded[-1].f.get("test"),
                                              A.NameRef)
            rep.check(ok, "R10.1", site, "without an explicit id the call is "
                      "guarded by 'if <computed msgid>' (empty content is not "
                      "translated)", construct="empty-guard", where=wh)
        elif L.polarity(conds, "node.msgid") is True or \
                L.polarity(conds, "not node.msgid") is False:
            rep.check(not guarded, "R10.1", site, "with an explicit id the "
                      "call is unconditional", construct="explicit-unguarded",
                      where=wh)
        else:
            rep.bad("R10.1", site, "without an explicit id the call is "
                    "guarded by 'if <computed msgid>' (empty content is not "
                    "translated)", construct="empty-guard",
                    detail="one call fragment serves both cases", where=wh)
    # named blocks initialised before the body (may be skipped by conditions)
    inits = [i for i, (it, c, p) in enumerate(lin.rows)
             if isinstance(it, A.Py) and it.kind == "Assign"
             and "stream_" in A.show(it.f.get("targets"), limit=8)]
    rep.check(bool(inits) and max(inits) < tcs[0], "R10.1", site,
              "each named block's variable is initialised to '' before the "
              "body runs (a block under a false condition maps to '')",
              construct="block-init", where=wh)
    L.g_pair_stack(rep, "R10.1", f, res, "self._translations")
    # __re_whitespace
    mod = L.emission(repo, CC + "visit_Module")
    ok = any(isinstance(w, A.Frag) and L.frag_find(
        w, "__re_whitespace = functools.partial(re.compile('\\\\s+').sub, "
           "' ')") for w in A.walk(mod.emission))
    rep.check(ok, "R10.1", CC + "visit_Module", "whitespace runs are "
              "collapsed to one space", construct="re-whitespace")


def all_translate_calls(repo):
    """Every translate(...) call inside a string that is handed to
    ``template`` anywhere in the package -> (module, lineno, call_node)."""
    out = []
    for m in repo.modules.values():
        for n in ast.walk(m.tree):
            if not (isinstance(n, ast.Call) and isinstance(n.func, ast.Name)
                    and n.func.id == "template"):
                continue
            sources = []
            if n.args:
                sources.append(n.args[0])
            for k in n.keywords:
                if k.arg == "source":
                    sources.append(k.value)
            for s_ in sources:
                try:
                    text = repo.fold(s_, m)
                except NotConst:
                    continue
                if not isinstance(text, str) or "translate" not in text:
                    continue
                try:
                    tree = ast.parse(textwrap.dedent(text))
                except SyntaxError:
                    try:
                        tree = ast.parse(textwrap.dedent(text), mode="eval")
                    except SyntaxError:
                        continue
                for c in ast.walk(tree):
                    if isinstance(c, ast.Call) and src(c.func) == "translate":
                        out.append((m, n.lineno, c))
    return out


def _siblings(repo, rep):
    calls = all_translate_calls(repo)
    rep.count("translate_call_fragments", len(calls))
    for m, lineno, c in calls:
        kw = {k.arg: src(k.value) for k in c.keywords}
        site = "%s:%d" % (m.name, lineno)
        for k, v in I18N_KW.items():
            rep.check(kw.get(k) == v, "R10.2", site,
                      "translate(...) fragment passes %s=%s" % (k, v),
                      construct="%s@%s" % (k, _enclosing(m, lineno)),
                      where="%s:%d" % (m.relpath, lineno),
                      detail="has %s" % kw.get(k))
    rep.require_min("R10.2", 21, "seven translate fragments x three settings")
    rewriter_proof(repo, rep)


def rewriter_proof(repo, rep, rule="R10.2"):
    """Whatever an expression engine returns is handed to the name rewriter
    (ExpressionTransform.__call__ visits every statement), which turns a
    bare ``target_language`` into a lookup of the template variable of that
    name -- the render() keyword, not the setting of the nearest
    i18n:target.  Only the statement emitters of class Compiler bypass the
    rewriter.  So a translate fragment used anywhere else must bind the
    name to a node the rewriter leaves alone."""
    m = repo.modules["chameleon.compiler"]
    et = repo.func(COMP + "ExpressionTransform.__call__")
    visits_all = any(
        isinstance(n, (ast.ListComp, ast.For)) and "self.visitor(" in src(n)
        for n in ast.walk(et.node))
    rep.check(visits_all, rule, et.qualname, "every statement an expression "
              "engine returns passes the name rewriter",
              construct="rewriter-covers-engines", where=L.where(et))
    exempt = set()
    for n in m.tree.body:
        if isinstance(n, ast.Assign) and isinstance(n.targets[0], ast.Name) \
                and n.targets[0].id == "COMPILER_INTERNALS_OR_DISALLOWED":
            exempt |= {e.value for e in ast.walk(n.value)
                       if isinstance(e, ast.Constant)}
    for fn_ in repo.funcs.values():
        for n in ast.walk(fn_.node):
            if isinstance(n, ast.Assign) and src(n.targets[0]) == "internals":
                if "self.defaults" in src(n.value):
                    cc = repo.cls(COMP + "Compiler")
                    d = cc.attrs.get("defaults")
                    if isinstance(d, ast.Dict):
                        exempt |= {k.value for k in d.keys
                                   if isinstance(k, ast.Constant)}
                exempt |= {e.value for e in ast.walk(n.value)
                           if isinstance(e, ast.Constant)
                           and isinstance(e.value, str)}

    def bare_settings(text):
        out = set()
        try:
            tree = ast.parse(textwrap.dedent(text))
        except SyntaxError:
            try:
                tree = ast.parse(textwrap.dedent(text), mode="eval")
            except SyntaxError:
                return out
        for c in ast.walk(tree):
            if isinstance(c, ast.Call) and src(c.func) == "translate":
                for k in c.keywords:
                    if k.arg in I18N_KW and isinstance(k.value, ast.Name) \
                            and not k.value.id.startswith("__") \
                            and k.value.id not in exempt:
                        out.add(k.value.id)
        return out

    def nested_def(text):
        try:
            tree = ast.parse(textwrap.dedent(text))
        except SyntaxError:
            return False
        return any(isinstance(x, ast.FunctionDef) for x in tree.body)

    def source_of(call, fn_=None):
        srcs = [call.args[0]] if call.args else []
        srcs += [k.value for k in call.keywords if k.arg == "source"]
        for s_ in srcs:
            try:
                t_ = repo.fold(s_, m) if fn_ is None else \
                    L.fold_in_func(repo, fn_, s_)
            except Exception:
                continue
            if isinstance(t_, str):
                return t_
        return None
    # module-level fragment functions
    frag_funcs = {}
    for n in m.tree.body:
        if isinstance(n, ast.Assign) and isinstance(n.value, ast.Call) and \
                src(n.value.func) == "template" and any(
                    k.arg == "is_func" for k in n.value.keywords):
            t_ = source_of(n.value)
            if t_ and bare_settings(t_):
                frag_funcs[n.targets[0].id] = (bare_settings(t_),
                                               nested_def(t_))
    safe_consts = {n.targets[0].id for n in m.tree.body
                   if isinstance(n, ast.Assign)
                   and isinstance(n.targets[0], ast.Name)
                   and isinstance(n.value, ast.Call)
                   and src(n.value.func) == "Builtin"}

    def proof(call, names):
        kws = {k.arg: k.value for k in call.keywords}
        miss = []
        for nm in names:
            v = kws.get(nm)
            if v is None or not (
                    (isinstance(v, ast.Call) and src(v.func) == "Builtin")
                    or (isinstance(v, ast.Name) and v.id in safe_consts)):
                miss.append(nm)
        return miss
    n_sites = 0
    for q, fn in sorted(repo.funcs.items()):
        if fn.module is not m:
            continue
        in_compiler = q.startswith(CC)
        for c in ast.walk(fn.node):
            if not isinstance(c, ast.Call):
                continue
            names = None
            if isinstance(c.func, ast.Name) and c.func.id in frag_funcs:
                names, nested = frag_funcs[c.func.id]
                if nested:
                    # defines a helper function; its body is not rewritten
                    # when emitted by the Compiler
                    if in_compiler:
                        continue
            elif isinstance(c.func, ast.Name) and c.func.id == "template":
                t_ = source_of(c, fn)
                names = bare_settings(t_) if t_ else None
            if not names:
                continue
            if in_compiler:
                continue
            n_sites += 1
            miss = proof(c, names)
            rep.check(not miss, rule, q, "a translate(...) fragment emitted "
                      "as expression code binds %s to a node the name "
                      "rewriter leaves alone (else the translation target "
                      "is the template variable, i.e. the render() keyword, "
                      "and i18n:target is ignored)" % ", ".join(
                          sorted(names)),
                      construct="rewriter-proof:%s" % fn.name,
                      where=L.where(fn, c.lineno),
                      detail="unprotected: %s" % miss if miss else "")
    if n_sites < 3:
        raise AnalysisError("only %d translate fragments in expression "
                            "code found" % n_sites)


def _enclosing(m, lineno):
    best = "<module>"
    for n in ast.walk(m.tree):
        if isinstance(n, (ast.FunctionDef, ast.Assign)) and \
                n.lineno <= lineno <= getattr(n, "end_lineno", n.lineno):
            if isinstance(n, ast.FunctionDef):
                best = n.name
            elif isinstance(n.targets[0], ast.Name) and best == "<module>":
                best = n.targets[0].id
    return best


def _settings(repo, rep):
    for name, var, valpat in (
            ("visit_Domain", "__i18n_domain", "node.name"),
            ("visit_TxContext", "__i18n_context", "node.name"),
            ("visit_Target", "target_language", None)):
        f = repo.func(CC + name)
        res = L.emission(repo, f.qualname)
        lin = L.Lin(res.emission)
        site = f.qualname
        wh = L.where(f)
        save = setv = restore = None
        for i, (it, conds, _) in enumerate(lin.rows):
            if isinstance(it, A.Frag):
                for node, b in L.frag_find(it, "_B = %s" % var):
                    if isinstance(b["_B"], ast.Name) and \
                            b["_B"].id in it.slots:
                        save = (i, L.name_key(it, b["_B"]),
                                L.slot_value(it, b["_B"]))
                for node, b in L.frag_find(it, "%s = _V" % var):
                    v = L.slot_value(it, b["_V"])
                    if v is not None and restore is None and save is not None \
                            and A.ident_key(v) == save[1] and \
                            i > lin.index(L.is_child("node.node")) >= 0:
                        restore = (i,)
                    elif v is not None and setv is None:
                        setv = (i, v)
            elif isinstance(it, A.Py) and it.kind == "Assign" and \
                    var in A.show(it.f.get("targets"), limit=4):
                setv = (i, it.f.get("value"))
        body = lin.index(L.is_child("node.node"))
        ok = save is not None and setv is not None and restore is not None \
            and body >= 0 and save[0] < setv[0] < body < restore[0]
        rep.check(ok, "R10.3", site, "save %s; set; <element>; restore -- in "
                  "this order, on one backup local" % var,
                  construct="bracket", where=wh,
                  detail="save=%s set=%s body=%s restore=%s" % (
                      save and save[0], setv and setv[0], body,
                      restore and restore[0]))
        # ... for every value of the attribute (an empty domain / context
        # is a setting too: it resets the one in force)
        kids = lin.all(L.is_child("node.node"))
        uncond = len(kids) == 1 and not lin.conds(kids[0]) and all(
            x is not None and not lin.conds(x[0])
            for x in (save, setv, restore))
        rep.check(uncond, "R10.3", site, "the bracket is emitted on every "
                  "compile-time path: no value of the attribute (not even an "
                  "empty one) skips the setting", construct="bracket-always",
                  where=wh, detail="element emitted %d time(s), conditions %s"
                  % (len(kids), [lin.conds(k) for k in kids][:2]))
        if save:
            okp, why = A.per_node(save[2])
            rep.check(okp, "R10.3", site, "the backup local is per-node "
                      "(nested settings unwind correctly)",
                      construct="backup-per-node", where=wh, detail=why)
        if setv and valpat:
            rep.check(valpat in A.show(setv[1], limit=4), "R10.3", site,
                      "the new setting is the attribute's value",
                      construct="set-value", where=wh)
        if name == "visit_Target":
            ev = lin.index(lambda it: isinstance(it, A.Eval))
            ok = ev >= 0 and setv is not None and ev < setv[0] and \
                A.ident_key(lin.item(ev).target) == A.ident_key(setv[1])
            rep.check(ok, "R10.3", site, "i18n:target evaluates its "
                      "expression and assigns the result",
                      construct="target-eval", where=wh)
    # G-CATCH: the brackets above are straight-line code; a failure inside
    # the element skips the restore.  tal:on-error ends the failure's
    # propagation inside the same function, so its handler has to put the
    # three settings back as they were when its element was entered
    oe = repo.func(CC + "visit_OnError")
    r = L.emission(repo, oe.qualname)
    lin = L.Lin(r.emission)
    tries = lin.all(L.is_py("Try"))
    ok = False
    detail = "no try statement"
    if tries:
        ti = tries[0]
        want = ("__i18n_domain", "__i18n_context", "target_language")
        save = None
        for i in range(ti):
            it = lin.item(i)
            if isinstance(it, A.Frag):
                for node, b in L.frag_find(it, "_S = (%s, %s, %s)" % want):
                    save = (i, L.name_key(it, b["_S"]),
                            L.slot_value(it, b["_S"]))
        restore = False
        hs = [w for w in A.walk(lin.item(ti).f.get("handlers"))
              if isinstance(w, A.Py) and w.kind == "ExceptHandler"]
        for h in hs:
            items = [w for w in A.walk(h.f.get("body"))
                     if isinstance(w, (A.Frag, A.Child))]
            kid = [i for i, w in enumerate(items) if isinstance(w, A.Child)]
            for i, w in enumerate(items):
                if isinstance(w, A.Frag) and save is not None:
                    for node, b in L.frag_find(
                            w, "(%s, %s, %s) = _S" % want) + L.frag_find(
                                w, "%s, %s, %s = _S" % want):
                        if L.name_key(w, b["_S"]) == save[1] and (
                                not kid or i < kid[0]):
                            restore = True
        per_node = save is not None and A.per_node(save[2])[0]
        ok = save is not None and restore and per_node
        detail = "saved before try: %s, per node: %s, restored first in " \
                 "the handler: %s" % (save is not None, per_node, restore)
    rep.check(ok, "R10.3", oe.qualname, "the tal:on-error handler restores "
              "domain, context and target language from a per-node snapshot "
              "taken before the element (a failure below an i18n:domain "
              "element must not leave that domain in force)",
              construct="handler-restores-settings", where=L.where(oe),
              detail=detail)
    # function parameters
    params = ["__stream", "econtext", "rcontext", "__i18n_domain",
              "__i18n_context", "target_language"]
    for name in ("visit_Macro", "visit_UseExternalMacro"):
        f = repo.func(CC + name)
        res = L.emission(repo, f.qualname)
        fds = [w for w in A.walk(res.emission) if isinstance(w, A.Py)
               and w.kind == "FunctionDef"]
        rep.check(len(fds) == 1, "R10.3", f.qualname, "one function "
                  "definition is emitted", construct="funcdef", detail=str(
                      len(fds)))
        if len(fds) != 1:
            continue
        args = fds[0].f.get("args")
        got = [A.show(w.ident).strip("'") for w in A.walk(args)
               if isinstance(w, A.NameRef) and w.ctx == "param"]
        rep.check(got == params, "R10.3", f.qualname,
                  "the function takes (stream, scope, rcontext, domain, "
                  "context, target_language)", construct="params",
                  where=L.where(f), detail=str(got))
        dflt = [A.show(w.ident).strip("'") for w in A.walk(
            args.f.get("defaults")) if isinstance(w, A.NameRef)]
        if name == "visit_Macro":
            rep.check(dflt == ["None"] * 3, "R10.3", f.qualname,
                      "a render function's translation settings default to "
                      "None (set by the caller)", construct="render-defaults",
                      where=L.where(f), detail=str(dflt))
        else:
            rep.check(dflt == params[3:], "R10.3", f.qualname,
                      "a slot filler's translation settings default to those "
                      "of the place where it is written",
                      construct="fill-defaults", where=L.where(f),
                      detail=str(dflt))
    ds = L.emission(repo, CC + "visit_DefineSlot")
    ok = any(isinstance(w, A.Frag) and L.frag_find(
        w, "_S(__stream, econtext.copy(), rcontext)", "expr")
        for w in A.walk(ds.emission))
    rep.check(ok, "R10.3", CC + "visit_DefineSlot", "a filler is called with "
              "three positional arguments only: it keeps its own translation "
              "settings", construct="filler-call")
    for name in ("visit_UseInternalMacro", "visit_UseExternalMacro"):
        r = L.emission(repo, CC + name)
        ok = L.scoped_call(L.Lin(r.emission), "_F(__stream, _C, rcontext, "
                           "__i18n_domain, __i18n_context, target_language)"
                           )[0] >= 0
        rep.check(ok, "R10.3", CC + name, "a macro is called with the "
                  "caller's translation settings", construct="macro-call")
    rf = repo.func("chameleon.template.BaseTemplate.render")
    text = L.text(rf.node)
    rep.check("target_language=target_language" in text and
              "__kw.get('target_language')" in text, "R10.3", rf.qualname,
              "render() hands the target_language argument to the top-level "
              "render function", construct="render-target", where=L.where(rf))
    _wrappers(repo, rep)


TRANSLATE_KW = ("domain", "mapping", "context", "target_language", "default")


def _wrappers(repo, rep):
    """A function that stands in for the translation function (installed as
    __translate) must hand every keyword of the translate contract through
    to the function it wraps."""
    f = repo.func("chameleon.zpt.template.PageTemplate.render")
    wh = L.where(f)
    inner = [n for n in ast.walk(f.node)
             if isinstance(n, (ast.FunctionDef, ast.Lambda))
             and n is not f.node]
    n_wr = 0
    for w in inner:
        a = w.args
        params = a.posonlyargs + a.args
        defaults = dict(zip([x.arg for x in params[len(params) -
                                                   len(a.defaults):]],
                            a.defaults))
        defaults.update({x.arg: d for x, d in zip(a.kwonlyargs, a.kw_defaults)
                         if d is not None})
        wrapped = [k for k, d in defaults.items()
                   if isinstance(d, ast.Name) and d.id == "translate"]
        if not wrapped and getattr(w, "name", "") != "translate":
            continue
        n_wr += 1
        calls = [c for c in ast.walk(w) if isinstance(c, ast.Call)
                 and isinstance(c.func, ast.Name) and c.func.id in wrapped]
        rep.check(bool(calls), "R10.3", f.qualname, "the encoding wrapper "
                  "calls the translation function it wraps",
                  construct="wrapper-calls", where=wh)
        # the message id reaches the wrapped function as it came in; the
        # only rewriting is the decoding of bytes
        first = params[0].arg if params else None
        for n in ast.walk(w):
            tg = []
            if isinstance(n, ast.Assign):
                tg = n.targets
            elif isinstance(n, (ast.AugAssign, ast.AnnAssign)):
                tg = [n.target]
            for t_ in tg:
                if isinstance(t_, ast.Name) and t_.id == first:
                    gs = L.guards_of(n, w)
                    okg = any(truth and src(test).replace(" ", "") ==
                              "isinstance(%s,bytes)" % first
                              for test, truth in gs)
                    rep.check(okg, "R10.3", f.qualname, "the wrapper rewrites "
                              "the message id only to decode bytes (message "
                              "objects keep their default and mapping)",
                              construct="wrapper-msgid", where=wh,
                              detail="%s under %s" % (src(n), [
                                  src(x) for x, _ in gs]))
        for c in calls:
            if c.args:
                rep.check(src(c.args[0]) == first, "R10.3", f.qualname,
                          "the wrapper hands the message id on as its first "
                          "argument", construct="wrapper-msgid-arg", where=wh,
                          detail=src(c))
        names = {x.arg for x in params + a.kwonlyargs}
        for c in calls:
            star = [k for k in c.keywords if k.arg is None]
            fwd_all = bool(star) and a.kwarg is not None and any(
                isinstance(k.value, ast.Name) and k.value.id == a.kwarg.arg
                for k in star)
            missing = []
            for kw in TRANSLATE_KW:
                explicit = [k for k in c.keywords if k.arg == kw]
                if explicit:
                    continue
                if fwd_all and kw not in names:
                    continue
                missing.append(kw)
            rep.check(not missing, "R10.3", f.qualname, "the wrapper passes "
                      "every translation keyword (domain, mapping, context, "
                      "target_language, default) through",
                      construct="wrapper-forwards", where=wh,
                      detail="not forwarded: %s in %s" % (missing, src(c)))
    rep.check(n_wr >= 1, "R10.3", f.qualname, "the encoding wrapper around "
              "the translation function is found", construct="wrapper-found",
              where=wh)


def _default_translate_once(repo, rep):
    # the default translation function substitutes the placeholders of the
    # message once: a value of the mapping is inserted as it is (a '${x}'
    # inside a named block's markup is not a placeholder)
    st = repo.func("chameleon.i18n.simple_translate")
    subs = [n for n in ast.walk(st.node) if isinstance(n, ast.Call)
            and src(n.func) == "_interp_regex.sub"]
    ok = len(subs) == 1 and len(subs[0].args) == 2 and \
        isinstance(subs[0].args[1], ast.Name)
    rep.check(ok, "R10.6", st.qualname, "placeholders are substituted in one "
              "pass over the message (mapping values are not scanned again)",
              construct="substitute-once", where=L.where(st),
              detail=str([src(x)[:70] for x in subs]))
    # implicit translation of text: the message id is taken from the text as
    # it is rendered, i.e. after '$$' was un-doubled
    vt = repo.func("chameleon.zpt.program.MacroProgram.visit_text")
    und = [n.lineno for n in ast.walk(vt.node) if isinstance(n, ast.Assign)
           and src(n.targets[0]) == "node" and
           "replace('$$', '$')" in src(n.value)]
    mt = [n.lineno for n in ast.walk(vt.node) if isinstance(n, ast.Call)
          and src(n.func) in ("re.search", "re.match") and len(n.args) >= 2
          and src(n.args[1]) == "node"]
    rep.check(bool(und) and bool(mt) and min(und) < min(mt), "R10.6",
              vt.qualname, "the implicit message id of a text run is cut out "
              "of the un-doubled text (what translate gets is what would be "
              "rendered)", construct="implicit-msgid-undoubled",
              where=L.where(vt), detail="un-double at %s, match at %s" % (
                  und, mt))


def _translate_applied(repo, rep):
    _default_translate_once(repo, rep)
    """i18n:translate wraps the element's content whenever the statement is
    present and the content is static -- also for an element without
    children (an explicit id is still looked up, with an empty default)."""
    f = repo.func("chameleon.zpt.program.MacroProgram.visit_element")
    sites = [n for n in ast.walk(f.node) if isinstance(n, ast.Call)
             and src(n.func) == "nodes.Translate"]
    # (the wrapper of the content kept by tal:content="default" -- constant
    # empty id -- has its own obligation: default-content-translated)
    sites = [n for n in sites if not (
        n.args and isinstance(n.args[0], ast.Constant)
        and n.args[0].value == "")]
    rep.check(len(sites) == 1, "R10.1", f.qualname, "one construction site "
              "of the element-level Translate node",
              construct="translate-site", where=L.where(f))
    for c in sites:
        gs = [(L.inlined_text(f.node, t), v)
              for t, v in L.guards_of(c, f.node)
              if not isinstance(t, ast.ExceptHandler)]
        # (the macro-use branch builds no element at all)
        gs = [g for g in gs if not L.cond_holds(
            [g], L.inlined_text(f.node, "use_macro or extend_macro"), False)]
        ok = len(gs) == 1 and L.cond_holds(
            gs, L.inlined_text(
                f.node, "ns.get((TAL, 'content')) or "
                "ns.get((TAL, 'replace'))"), False)
        rep.check(ok, "R10.1", f.qualname, "the Translate wrapper is applied "
                  "under exactly one condition: no tal:content / tal:replace "
                  "on the element", construct="translate-applied",
                  where=L.where(f, c.lineno), detail=str(gs))
    # the placeholder grammar of the default translation function accepts
    # every name, also a single letter
    from .. import rx
    nre = repo.const("chameleon.i18n", "NAME_RE")
    if not isinstance(nre, str):
        raise AnalysisError("chameleon.i18n.NAME_RE vanished")
    items = list(rx.parse(nre, 0))
    C = rx.C
    ok = len(items) == 2 and items[0][0] is C.IN and \
        items[1][0] in (C.MAX_REPEAT, C.MIN_REPEAT) and items[1][1][0] == 0 \
        and items[1][1][1] >= 255
    if ok:
        head = rx.in_set(items[0][1])
        tail = rx.in_set(list(items[1][1][2])[0][1]) if list(
            items[1][1][2])[0][0] is C.IN else None
        letters = rx.CharSet.of("abcdefghijklmnopqrstuvwxyz"
                                "ABCDEFGHIJKLMNOPQRSTUVWXYZ")
        ok = letters <= head and tail is not None and head <= tail and \
            rx.CharSet.of("_") <= tail and rx.CharSet.of("-") <= tail and \
            rx.CharSet.of("0") <= tail
    rep.check(ok, "R10.6", "chameleon.i18n.NAME_RE", "a placeholder name is "
              "one letter followed by any number (also none) of letters, "
              "digits, '-' and '_': ${n} with a one-letter i18n:name is "
              "interpolated", construct="name-grammar", detail=nre)


def _names(repo, rep):
    _translate_applied(repo, rep)
    f = repo.func(CC + "visit_Name")
    res = L.emission(repo, f.qualname)
    site = f.qualname
    wh = L.where(f)
    lin = L.Lin(res.emission)
    tcs = lin.all(lambda it: isinstance(it, A.Internal)
                  and it.kind == "TranslationContext")
    rep.check(len(tcs) == 1, "R10.4", site, "the named block is captured in "
              "its own output context", construct="name-capture", where=wh)
    if len(tcs) != 1:
        return
    tc = lin.item(tcs[0])
    rep.check("Child(node.node)" in A.show(tc.args[0], limit=4), "R10.4",
              site, "the captured block is the named element",
              construct="name-body", where=wh)
    ph = [i for i, (it, c, p) in enumerate(lin.rows)
          if isinstance(it, A.Child) and "${%s}" in A.show(it.arg, limit=6)]
    ok = len(ph) == 1 and ph[0] > tcs[0] and not any(
        isinstance(n, A.Internal) for n, fld in lin.path(ph[0]))
    rep.check(ok, "R10.4", site, "the ${name} placeholder is emitted to the "
              "enclosing stream (outside the block's own context)",
              construct="placeholder", where=wh)
    if ph:
        rep.check("node.name" in A.show(lin.item(ph[0]).arg, limit=6),
                  "R10.4", site, "the placeholder carries the block's name",
                  construct="placeholder-name", where=wh)
    join = [i for i, (it, c, p) in enumerate(lin.rows)
            if isinstance(it, A.Frag) and L.frag_find(it, "_S = ''.join(_S)")]
    ok = False
    if join:
        it = lin.item(join[-1])
        b = L.frag_find(it, "_S = ''.join(_S)")[0][1]
        ok = join[-1] > tcs[0] and \
            L.name_key(it, b["_S"]) == A.ident_key(tc.args[2])
    rep.check(ok, "R10.4", site, "after the block ran, its stream is joined "
              "into the string the mapping refers to", construct="name-join",
              where=wh)
    # ... also when the block is cut short by a failure which an on-error
    # element between the block and the translated element handles: the
    # translation then still runs, and its mapping lists every name of the
    # translation -- the join has to happen on that exit too (in a
    # 'finally'), or the mapping value is the raw list of fragments
    in_finally = False
    if join:
        in_finally = any(fld == "finalbody" for n_, fld in lin.path(join[-1]))
    rep.check(in_finally, "R10.4", site, "the block's stream is joined on "
              "every exit of the block (a failure handled further out, "
              "inside the translated element, must not leave a list in the "
              "mapping)", construct="name-join-on-failure", where=wh)
    # the identifiers are those visit_Translate's mapping loads
    ids = A.show(tc.args[2], limit=8)
    rep.check("id(getitem(self._translations" in ids and "node.name" in ids,
              "R10.4", site, "the block's stream is named per (enclosing "
              "translation, block name): the name visit_Translate's mapping "
              "looks up", construct="name-ident", where=wh, detail=ids[:120])
    tr = list(A.flatten(res.trace))
    raises = [A.show(it.exc, limit=4) for it, c in tr
              if isinstance(it, A.Raise)]
    rep.check(any("Not allowed outside of translation" in r for r in raises),
              "R10.4", site, "i18n:name outside a translation is rejected",
              construct="stray-name", where=wh)
    rep.check(any("Duplicate translation name" in r for r in raises),
              "R10.4", site, "a duplicate i18n:name in one translation is "
              "rejected", construct="duplicate-name", where=wh)
    def registers(it):
        # set.add(name) on, or a keyed store of the name into, the enclosing
        # translation's collection (possibly through a local alias of it)
        if not isinstance(it, A.Effect):
            return False
        if it.kind == "add" and "_translations" in it.target:
            return True
        if it.kind == "setitem":
            obj = A.show(it.obj, limit=6) if it.obj is not None else it.target
            key = A.show(it.arg.items[0], limit=4) \
                if isinstance(it.arg, A.Tup) and it.arg.items else ""
            return "self._translations" in obj and "node.name" in key
        return False
    adds = [i for i, (it, c) in enumerate(tr) if registers(it)]
    # two block names of one translation never share a capture variable:
    # identifier() mangles its suffix ('a-b' and 'a_b' read the same), so the
    # suffix has to lead with something that is unique per registered name --
    # the ordinal stored at registration (len() of the collection before the
    # store: the collection only grows, duplicates are rejected above) --
    # or else the key function itself has to be injective
    coll = "getitem(self._translations, `-1`)"
    sfx = tc.args[2].suffix if isinstance(tc.args[2], A.Ident) else None
    by_ordinal = False
    if isinstance(sfx, A.Fmt) and isinstance(sfx.fmt, str) and \
            re.match(r"^%d[_.]", sfx.fmt) and sfx.args:
        first = A.show(sfx.args[0], limit=8)
        stored = [A.show(it.arg.items[1], limit=8) for it, c in tr
                  if registers(it) and it.kind == "setitem"
                  and isinstance(it.arg, A.Tup) and len(it.arg.items) == 2]
        by_ordinal = first == "getitem(%s, node.name)" % coll and \
            stored == ["len(%s)" % coll]
    if by_ordinal:
        rep.check(True, "R10.4", site, "two block names of one translation "
                  "never share a capture variable: the variable's name leads "
                  "with the ordinal the name was registered under (the "
                  "collection's length before the store)",
                  construct="name-key-injective", where=wh,
                  detail=A.show(sfx, limit=8)[:120])
    else:
        from . import c09
        L.borrow(repo, rep, "R10.4", "C09", c09._keys,
                 ("slot-key-injective",))
    child = [i for i, (it, c) in enumerate(tr) if isinstance(it, A.Child)]
    rep.check(adds and child and adds[0] < child[0], "R10.4", site,
              "the name is registered with the enclosing translation before "
              "the block is compiled (a nested translation inside the block "
              "starts its own set)", construct="name-register", where=wh)


def _messages(repo, rep):
    targets = []
    res = L.emission(repo, CC + "visit_Macro")
    for w in A.walk(res.emission):
        if isinstance(w, A.Frag) and w.tree is not None and "func" in w.slots:
            for n in w.tree.body:
                if isinstance(n, ast.FunctionDef):
                    targets.append((A.show(w.slots["func"]).strip("'"),
                                    n.body, n.args.args[0].arg))
    mod = repo.module("chameleon.compiler")
    ip = L.interp(repo)
    fac = ip._factory(mod.assigns["emit_convert"][-1], mod, "emit_convert")
    if fac is None:
        raise AnalysisError("emit_convert vanished")
    tree = ast.parse(textwrap.dedent(fac.node[1]["source"]))
    targets.append(("emit_convert", tree.body, "target"))
    for name, body, tgt in targets:
        # exact numbers take the short way (str(), never offered to the
        # translation function): the test is 'the type is int OR is float'
        tests = [n_.test for st_ in body for n_ in ast.walk(st_)
                 if isinstance(n_, ast.If)
                 and {"int", "float"} <= {x.id for x in ast.walk(n_.test)
                                          if isinstance(x, ast.Name)}]
        okn = bool(tests) and all(
            isinstance(t_, ast.BoolOp) and isinstance(t_.op, ast.Or)
            and all(isinstance(v_, ast.Compare) and len(v_.ops) == 1
                    and isinstance(v_.ops[0], (ast.Is, ast.Eq))
                    for v_ in t_.values) for t_ in tests)
        rep.check(okn, "R10.5", COMP + name, "%s: a value whose type is int "
                  "or float is converted with str() at once (a number is no "
                  "message: the translation function is not called for it)"
                  % name, construct="number-fast-path:" + name,
                  detail=str([src(t_) for t_ in tests]))
        paths = P.enum_paths(body)
        rep.count("paths", len(paths))
        n = 0
        ok = True
        detail = ""
        for p in paths:
            tr_i = None
            for i, ev in enumerate(p):
                if ev[0] == "assign" and isinstance(ev[2], ast.Call) and \
                        src(ev[2].func) == "translate" and ev[2].args and \
                        src(ev[2].args[0]) == tgt:
                    tr_i = i
                if ev[0] == "assign" and ev[1] == tgt and \
                        src(ev[2]) == "str(%s)" % tgt:
                    conds = [(src(e[1]), e[2]) for e in p[:i]
                             if e[0] == "cond"]
                    number = any(("is int" in c and "is float" in c) and v
                                 for c, v in conds)
                    if number:
                        continue
                    n += 1
                    same = any(c.replace(" ", "") in (
                        "%sis__converted" % tgt,) and v for c, v in conds)
                    if tr_i is None or tr_i > i or not same:
                        ok = False
                        detail = P.path_text(p, 20)
        rep.check(ok and n >= 1, "R10.5", COMP + name,
                  "%s: a value that is neither str, bytes, exact number nor "
                  "__html__ is offered to translate first; str() is applied "
                  "only if translate returned the object unchanged" % name,
                  construct="translate-before-str:" + name, detail=detail)
    # lexical scoping of the conversion helpers: they read __i18n_domain /
    # __i18n_context as free variables, so every generated function that has
    # those as its own parameters must define its own helpers -- otherwise a
    # message object inserted there is translated with the settings of the
    # enclosing function
    for name in ("visit_Macro", "visit_UseExternalMacro"):
        r = L.emission(repo, CC + name)
        fds = [w for w in A.walk(r.emission) if isinstance(w, A.Py)
               and w.kind == "FunctionDef"]
        for fd in fds:
            params = [A.show(w.ident).strip("'") for w in A.walk(
                fd.f.get("args")) if isinstance(w, A.NameRef)
                and w.ctx == "param"]
            if "__i18n_domain" not in params:
                continue
            helpers = set()
            first_child = None
            for i, w in enumerate(A.walk(fd.f.get("body"))):
                if isinstance(w, A.Frag) and "func" in w.slots and \
                        w.tree is not None and any(
                            isinstance(n, ast.FunctionDef)
                            for n in w.tree.body) and first_child is None:
                    helpers.add(A.show(w.slots["func"]).strip("'"))
                if isinstance(w, A.Child) and first_child is None:
                    first_child = i
            rep.check({"__convert", "__quote"} <= helpers, "R10.5",
                      CC + name, "the generated function has its own "
                      "__i18n_domain/__i18n_context parameters and defines "
                      "its own __convert/__quote ahead of its content, so "
                      "inserted message objects see the settings in effect "
                      "where they are written",
                      construct="helpers-scoped:" + name,
                      where=L.where(repo.func(CC + name)),
                      detail="defined here: %s" % sorted(helpers))
    rep.require_min("R10.5", 5, "__quote, __convert, emit_convert, helper "
                    "scoping in render and filler functions")


def _leaves(v, conds=()):
    if isinstance(v, A.Alt):
        yield from _leaves(v.a, conds + ((v.test, True),))
        yield from _leaves(v.b, conds + ((v.test, False),))
    else:
        yield conds, v


def implicit_inside_explicit(repo, rep, rule="R10.1"):
    """'exactly once': with implicit_i18n_translate the text pieces of an
    element are translated one by one -- unless the element is marked
    i18n:translate, whose message they are part of (else the marked element
    is translated a second time, from already translated pieces)."""
    PROG = "chameleon.zpt.program.MacroProgram."
    vt = repo.func(PROG + "visit_text")
    flag = None
    for n in ast.walk(vt.node):
        if isinstance(n, ast.Assign) and src(n.targets[0]) == "translation":
            flag = n.value
    stack = None
    if flag is not None:
        e = L.inline_locals(vt.node, flag)
        conj = e.values if isinstance(e, ast.BoolOp) and isinstance(
            e.op, ast.And) else [e]
        tops = [c for c in conj if isinstance(c, ast.Subscript)
                and src(c.slice) == "-1" and src(c.value).startswith("self._")]
        if any(src(c) == "self.implicit_i18n_translate" for c in conj) and \
                len(tops) == 1:
            stack = src(tops[0].value)
    rep.check(stack is not None, rule, vt.qualname, "text is translated "
              "implicitly only if the option is on AND the enclosing "
              "elements allow it (top of a per-element stack)",
              construct="implicit-consults-stack", where=L.where(vt),
              detail=src(flag) if flag is not None else "no flag")
    if stack is None:
        return
    f = repo.func(PROG + "visit_element")
    res = L.emission(repo, f.qualname)
    L.g_pair_stack(rep, rule, f, res, stack)
    tr = list(A.flatten(res.trace))
    push = [it for it, c in tr if isinstance(it, A.Effect)
            and it.kind == "push" and it.target == stack]
    ok = False
    detail = "no push"
    if push:
        v = push[0].arg.items[0] if isinstance(push[0].arg, A.Tup) else None
        vals = {}
        for conds, leaf in (_leaves(v) if v is not None else []):
            vals.setdefault(A.show(leaf, limit=4), []).append(conds)
        detail = str({k: [[(c, b) for c, b in cs] for cs in v_]
                      for k, v_ in vals.items()})[:300]
        off = vals.get("False", [])
        ok = any(any("I18N, 'translate'" in c and "in ns" in c and b
                     for c, b in cs) for cs in off) and any(
            stack in k and "-1" in k for k in vals)
        # ... on EVERY path: whatever else the element carries (i18n:name),
        # a value other than False is chosen only where the element is
        # known not to be marked
        for k, css in vals.items():
            if k == "False":
                continue
            for cs in css:
                if not any("I18N, 'translate'" in c and "in ns" in c
                           and not b for c, b in cs):
                    ok = False
                    detail = "value %s chosen without excluding " \
                             "i18n:translate: %s" % (k, [(c, b) for c, b
                                                         in cs])
    rep.check(ok, rule, f.qualname, "an element marked i18n:translate "
              "switches implicit translation off for its own text, other "
              "elements inherit the setting", construct="implicit-off-inside-"
              "explicit", where=L.where(f), detail=detail)
    init = repo.func(PROG + "__init__")
    t = L.text(init.node, body_only=True)
    rep.check("%s = [True]" % stack in t, rule, init.qualname,
              "implicit translation is allowed at the top level",
              construct="implicit-initial", where=L.where(init))


def default_content_translated(repo, rep, rule="R10.1"):
    """tal:content="default" keeps the element's own content; on an element
    marked i18n:translate that content is then the message -- it has to be
    wrapped like the content of a marked element without tal:content."""
    f = repo.func("chameleon.zpt.program.MacroProgram.visit_element")
    sites = []
    for n in ast.walk(f.node):
        if isinstance(n, ast.Assign) and isinstance(n.value, ast.Call) and \
                src(n.value.func) == "self._make_content_node" and \
                len(n.value.args) >= 4 and \
                src(n.targets[0]) == src(n.value.args[1]) == "content":
            sites.append(n)
    ok = len(sites) == 1
    detail = "%d tal:content site(s)" % len(sites)
    if ok:
        st = sites[0]
        flag = src(st.value.args[3])
        blk = None
        par = st._parent
        for fld in ("body", "orelse", "finalbody"):
            b = getattr(par, fld, None)
            if isinstance(b, list) and st in b:
                blk = b
        before = blk[:blk.index(st)] if blk else []
        fdef = [x for x in before if isinstance(x, ast.Assign)
                and src(x.targets[0]) == flag]
        ok_flag = bool(fdef) and "I18N, 'translate'" in src(fdef[-1].value)
        wrapped = False
        for x in before:
            if isinstance(x, ast.If) and src(x.test) == flag and \
                    not x.orelse and blk.index(x) > (
                        blk.index(fdef[-1]) if fdef else -1):
                for y in x.body:
                    if isinstance(y, ast.Assign) and \
                            src(y.targets[0]) == "content" and \
                            isinstance(y.value, ast.Call) and \
                            src(y.value.func) == "nodes.Translate" and \
                            len(y.value.args) >= 2 and \
                            isinstance(y.value.args[0], ast.Constant) and \
                            y.value.args[0].value == "" and \
                            src(y.value.args[1]) == "content":
                        wrapped = True
        ok = ok_flag and wrapped
        detail = "flag %s from i18n:translate: %s; default content " \
                 "wrapped: %s" % (flag, ok_flag, wrapped)
    rep.check(ok, rule, f.qualname, "on an element marked i18n:translate "
              "the content kept by tal:content=\"default\" is wrapped in a "
              "Translate node (computed message id) before it becomes the "
              "default branch", construct="default-content-translated",
              where=L.where(f, sites[0].lineno) if sites else L.where(f),
              detail=detail)


def translate_skips_none(repo, rep, rule="R10.6"):
    """None is 'no value' (the attribute / the content is dropped): the
    value-translating fragment must not hand it to the translation
    function, whose answer (a str for most translators) would be written"""
    m = repo.modules["chameleon.compiler"]
    frag = None
    for n in m.tree.body:
        if isinstance(n, ast.Assign) and isinstance(n.targets[0], ast.Name) \
                and n.targets[0].id == "emit_translate" and \
                isinstance(n.value, ast.Call):
            for k in n.value.keywords:
                if k.arg == "source":
                    try:
                        frag = (n, ast.parse(textwrap.dedent(
                            repo.fold(k.value, m))))
                    except (NotConst, SyntaxError):
                        frag = None
    if frag is None:
        raise AnalysisError("emit_translate fragment not found")
    tree = frag[1]
    for x in ast.walk(tree):
        for ch in ast.iter_child_nodes(x):
            ch._parent = x
    calls = [c for c in ast.walk(tree) if isinstance(c, ast.Call)
             and src(c.func) == "translate"]
    ok = bool(calls)
    for c in calls:
        gs = [(src(P._cond(t_, True, None)[1]),
               P._cond(t_, True, None)[2] == v_)
              for t_, v_ in L.guards_of(c, tree)
              if not isinstance(t_, ast.ExceptHandler)]
        if not (L.cond_holds(gs, "target is None", False) or
                L.cond_holds(gs, "target is not None", True, contains=True)):
            ok = False
    rep.check(ok, rule, COMP + "emit_translate", "a value of None is not "
              "offered to the translation function (None means: drop the "
              "attribute / write nothing)", construct="translate-skips-none",
              where="%s:%d" % (m.relpath, frag[0].lineno),
              detail="%d translate call(s)" % len(calls))


def _program_flags(repo, rep):
    """Value-level decisions of the template program that feed translation:
    the translate flag of content / replacement / fallback is 'the element
    carries an EMPTY i18n:translate'; text below an i18n:translate element is
    not translated piece by piece, an i18n:name block is a message of its
    own again, everything else inherits; an interpolated attribute value is
    implicitly translated unless it has an explicit id or is boolean; the
    implicit message id of a text run is the text with every white-space run
    collapsed and the outer white space cut off (a single character is a
    text)."""
    from .. import rx as _rx
    ve = repo.func("chameleon.zpt.program.MacroProgram.visit_element")
    cmps = [n for n in ast.walk(ve.node) if isinstance(n, ast.Compare)
            and len(n.ops) == 1 and "(I18N, 'translate')" in src(n.left)
            and isinstance(n.comparators[0], ast.Constant)
            and n.comparators[0].value == ""]
    rep.check(len(cmps) >= 2 and all(isinstance(c.ops[0], ast.Eq)
                                     for c in cmps), "R10.1", ve.qualname,
              "the translate flag of a content / replacement / on-error "
              "value is: i18n:translate is present and EMPTY (%d sites)"
              % len(cmps), construct="translate-flag-eq", where=L.where(ve),
              detail=str([src(c) for c in cmps]))
    # the IMPLICIT decision
    ifs = [n for n in ast.walk(ve.node) if isinstance(n, ast.If)
           and any(isinstance(a_, ast.Assign) and
                   src(a_.targets[0]) == "IMPLICIT" for a_ in n.body)]
    top = [n for n in ifs if not any(n in ast.walk(o) and n is not o
                                     for o in ifs)]
    table = {}
    if len(top) == 1:
        for path in P.enum_paths([top[0]]):
            conds = [(src(e[1]), e[2]) for e in path if e[0] == "cond"]
            val = [e[2] for e in path if e[0] == "assign"
                   and e[1] == "IMPLICIT"]
            if val:
                key = (L.cond_holds(conds, "(I18N, 'translate') in ns", True),
                       L.cond_holds(conds, "(I18N, 'name') in ns", True))
                table[key] = src(val[-1])
    want = {(True, False): "False", (False, True): "True",
            (False, False): "self._implicit_translation[-1]"}
    rep.check(table == want, "R10.1", ve.qualname, "implicit translation "
              "of text: off below i18n:translate, on again inside an "
              "i18n:name block, inherited otherwise",
              construct="implicit-table", where=L.where(ve),
              detail=str(sorted(table.items())))
    ca = repo.func("chameleon.zpt.program.MacroProgram."
                   "_create_attributes_nodes")
    tr = [a_ for a_ in ast.walk(ca.node) if isinstance(a_, ast.Assign)
          and src(a_.targets[0]) == "translation"]
    okt = bool(tr)
    for a_ in tr:
        conj = {src(x).replace(" ", "") for x in (
            a_.value.values if isinstance(a_.value, ast.BoolOp) and
            isinstance(a_.value.op, ast.And) else [a_.value])}
        if not {"implicit_i18n", "msgidismissing", "notboolean"} <= conj:
            okt = False
    rep.check(okt, "R10.6", ca.qualname, "an interpolated attribute value "
              "is translated implicitly when the attribute is listed for "
              "implicit translation, has no explicit id and is not boolean",
              construct="attr-interp-translation", where=L.where(ca),
              detail=str([src(a_.value) for a_ in tr]))
    vt = repo.func("chameleon.zpt.program.MacroProgram.visit_text")
    pats = [(c, c.args[0].value) for c in ast.walk(vt.node)
            if isinstance(c, ast.Call) and src(c.func) in (
                "re.search", "re.sub", "re.match")
            and c.args and isinstance(c.args[0], ast.Constant)
            and isinstance(c.args[0].value, str)]
    okp = len(pats) >= 2
    pdetail = []
    for c, pat in pats:
        # a text run may span lines: '.' has to match a line break
        fl = [k.value for k in c.keywords if k.arg == "flags"]
        fl += list(c.args[3:4]) if src(c.func) == "re.sub" else \
            list(c.args[2:3])
        dotall = any("DOTALL" in src(x) or src(x).endswith("re.S")
                     for x in fl)
        if "." in pat.replace("\\.", "") and not dotall and \
                "(?s" not in pat:
            okp = False
            pdetail.append("'.' does not match a line break in %r" % pat)
        probs, counts = L.regex_shape(pat, 16)
        if probs:
            okp = False
            pdetail += [t for k, t in probs]
        if src(c.func) == "re.search":
            w = L.group_width(pat, 16, 2)
            if w is None or w[0] != 1:
                okp = False
                pdetail.append("the text group is at least %s characters"
                               % (w,))
        if src(c.func) == "re.sub":
            items = list(_rx.parse(pat))
            if not (len(items) == 1 and items[0][0] is _rx.C.MAX_REPEAT
                    and items[0][1][0] == 1):
                okp = False
                pdetail.append("the collapsing pattern is %r" % pat)
    rep.check(okp, "R10.6", vt.qualname, "the implicit message id of a "
              "text run: white space is any white space, a one-character "
              "text is a text", construct="implicit-msgid-patterns",
              where=L.where(vt), detail="; ".join(pdetail))


def _attribute_names(repo, rep):
    """The names listed in i18n:attributes are looked up by exact name
    afterwards (I18N_ATTRIBUTES.get(name)): the statement parser keeps them
    as written -- it lowers them only when told that the document is not
    XML, and that is not the default."""
    pa = repo.func("chameleon.i18n.parse_attributes")
    a = pa.node.args
    params = [x.arg for x in a.args]
    dflt = dict(zip(params[len(params) - len(a.defaults):], a.defaults))
    lowers = [n for n in ast.walk(pa.node) if isinstance(n, ast.Call)
              and isinstance(n.func, ast.Attribute)
              and n.func.attr in ("lower", "upper", "casefold")]
    ok = True
    detail = []
    for c in lowers:
        gs = [(src(t), v) for t, v in L.guards_of(c, pa.node)
              if isinstance(t, ast.expr)]
        flag = [p_ for p_ in params if any(p_ in g[0] for g in gs)]
        if not flag:
            ok = False
            detail.append("%s is unconditional" % src(c))
            continue
        for p_ in flag:
            if not L.cond_holds(gs, p_, False):
                ok = False
                detail.append("%s runs when %s is true" % (src(c), p_))
            d_ = dflt.get(p_)
            if not (isinstance(d_, ast.Constant) and d_.value is True):
                ok = False
                detail.append("the default of %s is %s" % (
                    p_, src(d_) if d_ is not None else "missing"))
    calls = [n for q, f_ in repo.funcs.items() for n in ast.walk(f_.node)
             if isinstance(n, ast.Call)
             and src(n.func) == "i18n.parse_attributes"]
    for c in calls:
        if len(c.args) > 1 or c.keywords:
            ok = False
            detail.append("called with %s" % src(c))
    rep.check(ok and bool(calls), "R10.6", pa.qualname, "attribute names "
              "of i18n:attributes are kept as written (case folding only "
              "for documents declared not to be XML, which no caller does)",
              construct="attr-names-as-written", where=L.where(pa),
              detail="; ".join(detail))
    # the placeholder name of the default translation function: letters,
    # digits, '-' and '_' after the first letter, matched greedily -- '$name'
    # without braces is the whole name, not its first letter
    mod = repo.module("chameleon.i18n")
    try:
        nre = repo.fold(mod.assigns["NAME_RE"][-1], mod)
    except Exception:
        nre = None
    from .. import rx as _rx
    C = _rx.C
    okg = False
    if isinstance(nre, str):
        items = list(_rx.parse(nre))
        okg = len(items) == 2 and items[1][0] is C.MAX_REPEAT
    rep.check(okg, "R10.6", "chameleon.i18n.NAME_RE", "the tail of a "
              "placeholder name is matched greedily", construct="name-greedy",
              detail=str(nre))


def _attributes(repo, rep):
    _attribute_names(repo, rep)
    _program_flags(repo, rep)
    f = repo.func("chameleon.zpt.program.MacroProgram."
                  "_create_attributes_nodes")
    text = L.text(f.node)
    site = f.qualname
    wh = L.where(f)
    rep.check("msgid = I18N_ATTRIBUTES.get(name, missing)" in text, "R10.6",
              site, "an attribute named in i18n:attributes gets its explicit "
              "msgid (or None)", construct="attr-msgid", where=wh)
    rep.check("if msgid is missing and implicit_i18n: msgid = text" in text,
              "R10.6", site, "an implicitly translated static attribute uses "
              "its text as msgid", construct="attr-implicit", where=wh)
    wraps_ = [a_ for a_ in ast.walk(f.node) if isinstance(a_, ast.Assign)
              and src(a_.targets[0]) == "value"
              and src(a_.value) == "nodes.Translate(msgid, value)"]
    gtxt = [" and ".join(
        src(L.inline_locals(f.node, t_)) if v_ else
        "not (%s)" % src(L.inline_locals(f.node, t_))
        for t_, v_ in L.guards_of(a_, f.node)
        if isinstance(t_, ast.expr)) for a_ in wraps_]
    rep.check(bool(wraps_) and all("msgid is not missing" in g
                                   for g in gtxt), "R10.6", site,
              "translation wraps the attribute value whenever a message id "
              "applies", construct="attr-wrap", where=wh,
              detail="; ".join(g[:120] for g in gtxt))
    # "an element whose static content is empty is not translated; the same
    # contract holds for attributes": an empty static value without a
    # message id of its own is not offered to the translation function
    rep.check(bool(wraps_) and all(
        "value.value == ''" in g and "isinstance(value, ast.Constant)" in g
        and "not msgid" in g for g in gtxt), "R10.6", site, "an empty "
        "static attribute value without an explicit message id is not "
        "translated", construct="attr-empty-not-translated", where=wh,
        detail="; ".join(g[:160] for g in gtxt))
    # exactly once: an interpolated attribute is translated either inline
    # (implicit, no entry in i18n:attributes) or by the Translate wrapper
    # (entry present) -- the two conditions exclude each other
    res = L.emission(repo, f.qualname)
    flags = []
    for w in A.walk(res.value):
        if isinstance(w, A.NodeV) and w.kind == "Interpolation" and \
                len(w.args) >= 3:
            flags.append(w.args[2])
    ok = bool(flags)
    for fl in flags:
        t = A.show(fl).strip("`")
        try:
            tree = ast.parse(t, mode="eval").body
        except SyntaxError:
            tree = None
        conj = set()
        if isinstance(tree, ast.BoolOp) and isinstance(tree.op, ast.And):
            conj = {src(v) for v in tree.values}
        elif tree is not None:
            conj = {src(tree)}
        if not ({"implicit_i18n", "msgid is missing"} <= conj):
            ok = False
    rep.check(ok, "R10.6", site, "an interpolated attribute is translated "
              "inline only if it is implicit *and* has no i18n:attributes "
              "entry (otherwise the Translate wrapper does it): one "
              "translate call per attribute", construct="attr-once",
              where=wh, detail=str([A.show(fl) for fl in flags]))
    st = repo.func("chameleon.i18n.simple_translate")
    inner = [n for n in ast.walk(st.node) if isinstance(n, ast.FunctionDef)
             and n is not st.node]
    ok = False
    detail = ""
    if inner:
        rets = [n for n in ast.walk(inner[0]) if isinstance(n, ast.Return)]
        if len(rets) == 1:
            v = rets[0].value
            detail = src(v)
            # str(mapping.get(<name>, <whole match>)) -- the default applies
            # only to names that are absent, not to falsy values
            if isinstance(v, ast.Call) and src(v.func) == "str" and \
                    len(v.args) == 1 and isinstance(v.args[0], ast.Call) and \
                    src(v.args[0].func) == "mapping.get" and \
                    len(v.args[0].args) == 2 and \
                    src(v.args[0].args[1]) == "whole":
                ok = True
    rep.check(ok, "R10.6", st.qualname, "the default translation replaces "
              "${name} by str(mapping[name]) whenever the name is in the "
              "mapping (also for empty or zero values); only absent names "
              "keep the placeholder", construct="mapping-get",
              where=L.where(st), detail=detail)
    t2 = L.text(st.node)
    rep.check("if default is None: default = getattr(msgid, 'default', "
              "msgid)" in t2 and "if mapping is None: mapping = "
              "getattr(msgid, 'mapping', None)" in t2, "R10.6", st.qualname,
              "message objects contribute their own default and mapping",
              construct="message-attrs", where=L.where(st))
    g = repo.func(COMP + "ExpressionTransform.visit_Translate")
    r = L.emission(repo, g.qualname)
    items = A.items_of(r.value)
    fr = [w for w in A.walk(r.value) if isinstance(w, A.Frag)
          and w.factory == "emit_translate"]
    ok = False
    detail = ""
    if fr:
        sl = fr[0].slots
        mv = sl.get("msgid")
        ok = A.show(sl.get("default")) == "target" and \
            A.show(sl.get("target")) == "target" and \
            L.decides_on(mv, "node.msgid is not None") \
            and "node.msgid" in A.show(L.branch(
                mv, "node.msgid is not None", True), limit=4) and \
            A.show(L.branch(mv, "node.msgid is not None", False)) == "target"
        detail = A.show(mv, limit=3)[:100]
    rep.check(ok and len(items) >= 2 and items[-1] is fr[0] if fr else False,
              "R10.6", g.qualname, "attribute translation: evaluate the "
              "value, then translate(msgid = explicit id or the value, "
              "default = the value)", construct="emit-translate",
              where=L.where(g), detail=detail)
    translate_skips_none(repo, rep)
    pa = repo.func("chameleon.i18n.parse_attributes")
    text = L.text(pa.node)
    rep.check("d[attr] = msgid" in text and "if attr in d:" in text, "R10.6",
              pa.qualname, "i18n:attributes maps attribute -> msgid, once per "
              "attribute", construct="parse-attributes", where=L.where(pa))
