"""C13 -- tal:on-error replaces exactly the failed element's output."""
from __future__ import annotations

import ast

from .. import absint as A
from .. import lib as L
from .. import paths as P
from ..core import AnalysisError, src

ANCHOR = "chameleon.compiler.Compiler.visit_OnError"


def run(repo, rep, tier):
    rep.explanation = (
        "Static analysis of the on-error emitter and of the node "
        "construction.  Compiler.visit_OnError is interpreted abstractly "
        "(no code of /repo runs); the emission tree must have the shape "
        "'saved = len(stream); try: <element> except Exception as e: "
        "record error; call handler once; truncate stream to saved; "
        "<fallback>' with the saved length held in a per-node generated "
        "local, for every template at once.  MacroProgram.visit_element is "
        "interpreted to show that OnError is the outermost wrapper, that the "
        "fallback tag is built from static attributes only, and that the "
        "handler option reaches the generated code under the key the macro "
        "prologue reads.")
    rep.assumptions = [
        "Compiler.visit dispatches visit_<NodeClass> by class name",
        "the generated code of one render function shares one flat local "
        "namespace (all emitters paste into the same FunctionDef)",
        "ast.Try/ExceptHandler semantics of the running Python",
    ]
    rep.rule("R13.1", "on-error skeleton: saved length before try; try body "
                      "is the element; single 'except Exception as' handler: "
                      "record, handler call once, truncate to saved, then "
                      "fallback")
    rep.rule("R13.2", "G-LIVE: the saved stream length is a per-node "
                      "generated local (nested on-error must not clobber it)")
    rep.rule("R13.3", "fallback element is built from static attributes only "
                      "and OnError is the outermost wrapper of the element")
    rep.rule("R13.5", "error.lineno / error.offset are the location of the "
                      "failing expression's token in the text that was "
                      "tokenised (source identity, shared with C12)")
    rep.rule("R13.4", "handler plumbing: option -> render kwarg -> macro "
                      "prologue -> handler fragment, same key")

    from .c12 import _source_identity
    _source_identity(repo, rep, rule="R13.5")
    # error.lineno / error.offset are read from __token in the handler: a
    # token left over from before a call into another emitted function would
    # locate the failure at an unrelated expression
    from .c12 import transfers
    transfers(repo, rep, rule="R13.5")
    # OnError is the outermost wrapper of what visit_element *returns* --
    # but the element's node is also handed out through two side doors: the
    # fill-slot collector and the macro table.  What is registered there
    # must carry the on-error wrapper too, or a failing fill-slot /
    # define-macro element with tal:on-error is not replaced by its fallback
    ve = repo.func("chameleon.zpt.program.MacroProgram.visit_element")
    wraps = [n.lineno for n in ast.walk(ve.node) if isinstance(n, ast.Call)
             and src(n.func) == "wrap" and any(
                 src(a) == "ON_ERROR" for a in n.args)]
    regs = []
    for n in ast.walk(ve.node):
        if isinstance(n, ast.Call) and src(n.func) == "nodes.FillSlot":
            regs.append(("fill-slot", n))
        elif isinstance(n, ast.Assign) and src(n.targets[0]).startswith(
                "self._macros["):
            regs.append(("define-macro", n))
    if len(regs) < 2 or not wraps:
        raise AnalysisError("visit_element: registration sites / ON_ERROR "
                            "wrap not found")
    rewraps = [n.lineno for n in ast.walk(ve.node) if isinstance(n, ast.Assign)
               and src(n.targets[0]) == "slot" and isinstance(n.value, ast.Call)
               and src(n.value.func) == "wrap" and any(
                   src(a) == "ON_ERROR" for a in n.value.args)
               and src(n.value.args[0]) == "slot"]
    for what, n in regs:
        if what == "define-macro" and "ON_ERROR" in src(n):
            # the element itself is then rendered through the macro: the
            # wrapper must not be applied a second time around the reference
            # (a failing fallback expression would reach the handler twice)
            blk = getattr(n, "_parent", None)
            body = None
            for fld in ("body", "orelse", "finalbody"):
                b_ = getattr(blk, fld, None)
                if isinstance(b_, list) and n in b_:
                    body = b_
            later = body[body.index(n) + 1:] if body else []
            off = any(isinstance(x, ast.Assign) and
                      src(x.targets[0]) == "ON_ERROR" and
                      src(x.value) == "skip" for x in later)
            rep.check(off, "R13.3", ve.qualname, "after the macro body was "
                      "registered with the on-error wrapper, the wrapper is "
                      "switched off for the reference that replaces the "
                      "element (one handler per failure)",
                      construct="macro-not-wrapped-twice",
                      where=L.where(ve, n.lineno))
        covered = any(w < n.lineno for w in rewraps) or "ON_ERROR" in src(n)
        rep.check(covered, "R13.3", ve.qualname, "the node registered for "
                  "%s carries the element's on-error wrapper" % what,
                  construct="side-door:" + what, where=L.where(ve, n.lineno),
                  detail="%s is built from the node before ON_ERROR is "
                         "applied (line %s)" % (src(n)[:60], wraps))
    from . import c10, c11, c18
    # the output around a handled failure survives: blocks of an enclosing
    # translation are initialised even if the failure skipped them
    L.borrow(repo, rep, "R13.1", "C10", c10._translate, ("block-init",))
    # error.lineno / error.offset are read from the failing expression's
    # token: stripping it keeps the position
    L.borrow(repo, rep, "R13.5", "C11", c11._algebra, ("strip", "lstrip"))
    # a fallback spelled data-tal-on-error is an ordinary statement
    L.borrow(repo, rep, "R13.3", "C18", c18._keyed,
             ("convert-first", "data-name-keeps-hyphens"), minimum=2)
    # 'the output after the element is untouched': a matched tal:case that
    # fails under its own on-error has still settled its switch -- the
    # marker is written before the body runs (C01 owns the skeleton rules)
    from . import c01
    L.borrow(repo, rep, "R13.1", "C01", c01._skeletons, ("cancel-order",))
    # 'everything the element had emitted so far is discarded': inside a
    # slot filler the handler truncates the list the filler was called
    # with -- the filler's writes must go to that same list (C09 owns the
    # filler's prologue)
    from . import c09
    L.borrow(repo, rep, "R13.2", "C09", c09._slots, ("fill-own-stream",))
    from .c01 import content_node_total
    okc, detail = content_node_total(repo)
    rep.check(okc, "R13.3", "chameleon.zpt.program.MacroProgram."
              "_make_content_node", "the on-error expression is evaluated "
              "and inserted as text (escaped) or structure like any content "
              "expression -- no shortcut for constant strings",
              construct="fallback-content-total", detail=detail)

    func = repo.func(ANCHOR)
    res = L.emission(repo, ANCHOR)
    L.require_no_opaque(res.emission, ANCHOR)
    rep.count("functions_interpreted")
    lin = L.Lin(res.emission)
    site = func.qualname
    where = "%s:%d" % (func.module.relpath, func.node.lineno)

    tries = lin.all(L.is_py("Try"))
    if len(tries) != 1:
        rep.bad("R13.1", site, "exactly one try statement is emitted",
                "try-count", "%d found" % len(tries), where)
        return
    ti = tries[0]
    tr = lin.item(ti)
    rep.ok("R13.1", site, "exactly one try statement is emitted")

    # saved = len(__stream) before the try
    saved = None
    for i in range(ti):
        it = lin.item(i)
        if isinstance(it, A.Frag):
            for node, b in L.frag_find(it, "_S = len(__stream)"):
                saved = (i, it, L.name_key(it, b["_S"]), b["_S"])
    rep.check(saved is not None, "R13.1", site,
              "the stream length is saved before the try statement",
              construct="saved-length", where=where,
              detail="no 'X = len(__stream)' fragment precedes the try")

    # try body = the guarded element only
    body_rows = [i for i in range(len(lin.rows))
                 if any(n is tr and f == "body" for n, f in lin.path(i))]
    body_items = [lin.item(i) for i in body_rows]
    ok = len(body_items) == 1 and isinstance(body_items[0], A.Child) and \
        A.show(body_items[0].arg) == "node.node"
    rep.check(ok, "R13.1", site,
              "the try body is exactly the guarded element (node.node)",
              construct="try-body", where=where,
              detail="body = %s" % [A.show(x) for x in body_items])
    for fld in ("orelse", "finalbody"):
        v = tr.f.get(fld)
        empty = v is None or not list(A.flatten(v))
        rep.check(empty, "R13.1", site, "try has no %s" % fld,
                  construct="try-" + fld, where=where)

    # handlers
    hs = [it for it, _ in A.flatten(tr.f.get("handlers", A.Seq()))]
    ok = len(hs) == 1 and isinstance(hs[0], A.Py) and \
        hs[0].kind == "ExceptHandler"
    rep.check(ok, "R13.1", site, "exactly one except handler",
              construct="handler-count", where=where)
    if not ok:
        return
    h = hs[0]
    classes = sorted(
        A.show(w.args[0]).strip("'") for w in A.walk(h.f.get("type", A.Seq()))
        if isinstance(w, A.Internal) and w.kind == "Builtin")
    if h.f.get("type") is None or isinstance(h.f.get("type"), A.Const):
        classes = ["<bare>"]
    rep.check(classes == ["Exception"], "R13.1", site,
              "the handler catches Exception and nothing wider or narrower",
              construct="handler-type", where=where,
              detail="catches %s" % classes)
    nm = h.f.get("name")
    rep.check(isinstance(nm, A.Const) and isinstance(nm.value, str),
              "R13.1", site, "the caught exception is bound to a name",
              construct="handler-name", where=where)
    excname = nm.value if isinstance(nm, A.Const) else None

    hrows = [i for i in range(len(lin.rows))
             if any(n is h and f == "body" for n, f in lin.path(i))]
    trunc = fallback = record = None
    trunc_top = False
    handler_calls = []
    for i in hrows:
        it = lin.item(i)
        if isinstance(it, A.Frag):
            for pattern in ("del __stream[_S:]", "__stream[_S:] = []",
                            "del __stream[_S:len(__stream)]"):
                for node, b in L.frag_find(it, pattern):
                    trunc = (i, L.name_key(it, b["_S"]))
                    # (a statement of the fragment itself: not under a test
                    # of the saved length -- 0 is a length, the element may
                    # be the first thing written)
                    par_ = getattr(node, "_parent", None)
                    trunc_top = it.tree is not None and any(
                        st is node for st in getattr(it.tree, "body", []))
            for node, b in L.frag_find(it, "econtext[_K] = _C(_E, _P)"):
                record = (i, it, b)
            for node, b in L.frag_find(it, "_H(_E)", "expr"):
                hv = L.slot_value(it, b["_H"])
                if hv is not None and "on_error_handler" in A.show(hv):
                    guarded = bool(L.frag_find(
                        it, "if _H is not None: _H(_E)"))
                    handler_calls.append((i, it, b, guarded))
        elif isinstance(it, A.Child) and A.show(it.arg) == "node.fallback":
            fallback = i
    rep.check(trunc is not None, "R13.1", site,
              "the handler truncates the stream (del __stream[saved:])",
              construct="truncate", where=where)
    if trunc is not None:
        rep.check(trunc_top, "R13.1", site, "the truncation is "
                  "unconditional (a saved length of 0 is a length: the "
                  "element may open the document or a captured block)",
                  construct="truncate-unconditional", where=where)
    rep.check(fallback is not None, "R13.1", site,
              "the handler emits the fallback (node.fallback)",
              construct="fallback", where=where)
    if trunc and fallback is not None:
        rep.check(trunc[0] < fallback, "R13.1", site,
                  "truncation precedes the fallback output",
                  construct="truncate-before-fallback", where=where)
    if trunc and saved:
        rep.check(trunc[1] == saved[2], "R13.1", site,
                  "the stream is truncated to the length saved before the try "
                  "(same generated local)", construct="truncate-same-local",
                  where=where,
                  detail="saved %s, truncated to %s" % (saved[2], trunc[1]))
    rep.check(record is not None, "R13.1", site,
              "the handler records the error under the node's name in econtext",
              construct="error-record", where=where)
    if record:
        i, it, b = record
        kv = L.slot_value(it, b["_K"])
        rep.check(kv is not None and "node.name" in A.show(kv), "R13.1", site,
                  "the error variable is stored under node.name",
                  construct="error-key", where=where, detail=A.show(kv))
        rep.check(isinstance(b["_E"], ast.Name) and b["_E"].id == excname,
                  "R13.1", site,
                  "the error record is built from the caught exception",
                  construct="error-record-exc", where=where)
        cls = L.slot_value(it, b["_C"])
        rep.check(cls is not None and "ErrorInfo" in A.show(cls), "R13.1",
                  site, "the error record is an ErrorInfo",
                  construct="error-class", where=where)
        if fallback is not None:
            rep.check(i < fallback, "R13.1", site,
                      "the error variable is bound before the fallback "
                      "expression is evaluated", construct="record-order",
                      where=where)
        # the record's position argument has, on every alternative, as many
        # items as ErrorInfo.__init__ reads (an entry of the token table is
        # (token, line, column); the stand-in for 'no token' must survive
        # the same slicing)
        for n in ast.walk(it.tree) if it.tree is not None else ():
            if isinstance(n, ast.Call) and n.func is b["_C"] and \
                    len(n.args) >= 2:
                need = _position_items(repo)
                lens = _plen(n.args[1], _entry_arity(repo))
                rep.check(all(x is None or x >= need for x in lens), "R13.1",
                          site, "the position handed to the error record "
                          "has %d items whether or not a token is set"
                          % need, construct="position-arity", where=where,
                          detail="%s -> %s item(s)" % (
                              src(n.args[1])[:80], sorted(
                                  x for x in lens if x is not None)))
    # the token may be unset (start of a render function, after an inline
    # macro call): the handler must not index the token table blindly
    for i in hrows:
        it = lin.item(i)
        if isinstance(it, A.Frag) and it.tree is not None:
            for n in ast.walk(it.tree):
                if isinstance(n, ast.Subscript) and \
                        src(n.value) == "__tokens":
                    guarded = False
                    p = n
                    # guarded by an enclosing 'X if __token is not None else'
                    # or 'if __token is not None:'
                    for anc in ast.walk(it.tree):
                        if isinstance(anc, (ast.IfExp, ast.If)) and \
                                "is not None" in src(anc.test) and \
                                src(n.slice) in src(anc.test) and \
                                any(x is n for x in ast.walk(anc)):
                            guarded = True
                    rep.check(guarded, "R13.1", site,
                              "the handler looks the failing position up "
                              "only if a token is set (it is None after an "
                              "inline macro call and at the start of a "
                              "render function)", construct="token-guard",
                              where=where, detail=src(n))
    rep.check(len(handler_calls) == 1 and handler_calls[0][3], "R13.1", site,
              "the configured on_error_handler is called exactly once, "
              "guarded by 'is not None'", construct="handler-call",
              where=where, detail="%d call site(s)" % len(handler_calls))
    if handler_calls:
        b = handler_calls[0][2]
        rep.check(isinstance(b["_E"], ast.Name) and b["_E"].id == excname,
                  "R13.1", site, "the handler receives the caught exception",
                  construct="handler-arg", where=where)

    # R13.2
    n = L.g_live(rep, "R13.2", func, res)
    rep.require_min("R13.2", 1, "saved stream length lives across the element")

    # R13.3 / wrapper position
    vis = "chameleon.zpt.program.MacroProgram.visit_element"
    ve = L.emission(repo, vis)
    vfunc = repo.func(vis)
    vwhere = "%s:%d" % (vfunc.module.relpath, vfunc.node.lineno)
    top = ve.value
    # the i18n:name capture may enclose the wrapper: it only redirects where
    # the element's output -- the fallback included -- is written (so that
    # the name's entry in the translation mapping is the fallback, not the
    # discarded output)
    nm = "has ns[(I18N, 'name')]"
    if L.decides_on(top, nm):
        named = L.branch(top, nm, True)
        plain = L.branch(top, nm, False)
        names = [w for w in A.walk(named) if isinstance(w, A.NodeV)
                 and w.kind == "Name"]
        inner_ok = bool(names) and all(
            any(x is plain for x in A.walk(w)) for w in names)
        rep.check(inner_ok, "R13.3", vfunc.qualname, "the i18n:name capture "
                  "encloses the complete element, its on-error wrapper "
                  "included (the same value that is returned without "
                  "i18n:name)", construct="name-encloses-on-error",
                  where=vwhere)
        top = plain
    inside = [w for o_ in A.walk(ve.value) if isinstance(o_, A.NodeV)
              and o_.kind == "OnError" for w in A.walk(o_)
              if isinstance(w, A.NodeV) and w.kind == "Name"]
    rep.check(not inside, "R13.3", vfunc.qualname, "the element's own "
              "i18n:name capture is not inside its on-error wrapper: a "
              "failure would leave the capture unfinished and the discarded "
              "output would reach the translation mapping under that name",
              construct="name-encloses-on-error", where=vwhere,
              detail="%d Name node(s) inside OnError" % len(inside))
    # a define-macro element returns a reference to its macro; the macro
    # body in the table carries the wrapper (side-door:define-macro below)
    dm = "has ns[(METAL, 'define-macro')]"
    if L.decides_on(top, dm):
        ref = L.branch(top, dm, True)
        rep.check(not any(isinstance(w, A.NodeV) and w.kind == "OnError"
                          for w in A.walk(ref)) and any(
                              isinstance(w, A.NodeV)
                              and w.kind == "UseInternalMacro"
                              for w in A.walk(ref)), "R13.3",
                  vfunc.qualname, "a define-macro element is rendered "
                  "through its macro (whose body carries the on-error "
                  "wrapper), not wrapped a second time",
                  construct="macro-not-wrapped-twice", where=vwhere)
        top = L.branch(top, dm, False)
    onerr = None
    if isinstance(top, A.Alt):
        for br, other in ((top.a, top.b), (top.b, top.a)):
            if isinstance(br, A.NodeV) and br.kind == "OnError":
                onerr = (br, other, top.test)
    elif isinstance(top, A.NodeV) and top.kind == "OnError":
        onerr = (top, None, "always")
    rep.check(onerr is not None, "R13.3", vfunc.qualname,
              "OnError is the outermost wrapper of what visit_element returns",
              construct="outermost", where=vwhere,
              detail="top of returned value: %s" % A.show(top, limit=1))
    if onerr:
        node, other, test = onerr
        rep.check("on-error" in test, "R13.3", vfunc.qualname,
                  "OnError is applied iff the element carries tal:on-error",
                  construct="guard", where=vwhere, detail=test)
        fields = ("fallback", "name", "node")
        inner = node.arg("node", fields)
        rep.check(other is None or inner is other, "R13.3", vfunc.qualname,
                  "OnError wraps the complete element (the same value that is "
                  "returned without on-error)", construct="wraps-all",
                  where=vwhere)
        nm = node.arg("name", fields)
        rep.check(isinstance(nm, A.Const) and nm.value == "error", "R13.3",
                  vfunc.qualname, "the error variable is called 'error'",
                  construct="error-name", where=vwhere)
        fb = node.arg("fallback", fields)
        starts = [w for w in A.walk(fb)
                  if isinstance(w, A.NodeV) and w.kind == "Start"]
        rep.check(bool(starts), "R13.3", vfunc.qualname,
                  "the fallback carries its own start tag", "fallback-start",
                  where=vwhere)
        for st in starts:
            attrs = st.arg("attributes", ("name", "prefix", "suffix",
                                          "attributes"))
            static_only = False
            for w in A.walk(attrs):
                if isinstance(w, A.Alt) and _static_filter(w.test):
                    static_only = True
            rep.check(static_only, "R13.3", vfunc.qualname,
                      "the fallback start tag keeps only attributes whose "
                      "expression is a string constant (static attributes)",
                      construct="static-filter", where=vwhere,
                      detail=A.show(attrs, limit=3))
            # ... and all of them: the filter asks what the attribute IS
            # (type tests only), not whether its text is non-empty --
            # alt="" and a valueless 'disabled' are static attributes
            tests_ = [w.test for w in A.walk(attrs)
                      if isinstance(w, A.Alt) and _static_filter(w.test)]
            rep.check(bool(tests_) and all(_type_tests_only(t_)
                                           for t_ in tests_), "R13.3",
                      vfunc.qualname, "every static attribute is kept, "
                      "also one with an empty value",
                      construct="static-filter-total", where=vwhere,
                      detail="; ".join(t_[:100] for t_ in tests_))
            break
        # attributes of the fallback tag are rendered outside the Cache of
        # the attribute dictionaries: they must not carry override filters
        def walk_emitted(v, seen=None):
            """walk without descending into what a Loop iterates over"""
            seen = set() if seen is None else seen
            if id(v) in seen:
                return
            seen.add(id(v))
            yield v
            for fld, k in v.kids():
                if isinstance(v, (A.Loop, A.LoopVar)) and fld == "iter":
                    continue
                yield from walk_emitted(k, seen)
        fattrs = [w for w in walk_emitted(fb) if isinstance(w, A.NodeV)
                  and w.kind == "Attribute"]
        okf = bool(fattrs) and all(
            not list(A.flatten(a.arg("filters", (
                "name", "expression", "quote", "eq", "space", "default",
                "filters")) or A.Seq())) for a in fattrs)
        reused = [w for w in A.walk(fb) if isinstance(w, A.Loop)
                  and any(isinstance(x, A.LoopVar) and x.canon.startswith(
                      "each(") and x.path == "" and
                      isinstance(it_, A.LoopVar) for it_ in [None]
                      for x in [])]
        raw = []
        for st in starts:
            at = st.arg("attributes", ("name", "prefix", "suffix",
                                       "attributes"))
            for w in walk_emitted(at):
                if isinstance(w, A.Alt) and isinstance(w.a, A.LoopVar):
                    raw.append(w)
        rep.check(okf and not raw, "R13.3", vfunc.qualname,
                  "the fallback tag's attributes are filter-free copies "
                  "(the element's own Attribute nodes refer to attribute "
                  "dictionaries that are cached only inside the regular "
                  "start tag)", construct="fallback-attr-filters",
                  where=vwhere, detail="%d Attribute constructions, %d raw "
                  "reuses" % (len(fattrs), len(raw)))
        # the fallback has a tag exactly when the element itself has one
        tagged = [w for w in A.walk(fb) if isinstance(w, A.Alt) and any(
            isinstance(x, A.NodeV) and x.kind == "Element"
            for x in (w.a, w.b))]
        okt = False
        for w in tagged:
            t = L.norm_test(w.test)
            okt = "omit is False" in t and \
                "start['namespace'] not in self.DROP_NS" in t and \
                isinstance(w.a, A.NodeV) and w.a.kind == "Element"
        rep.check(okt, "R13.3", vfunc.qualname,
                  "the fallback is wrapped in the element's tag exactly when "
                  "the element renders a tag of its own (no tal:omit-tag, not "
                  "an element of a template-language namespace)",
                  construct="fallback-tag-condition", where=vwhere,
                  detail=str([w.test for w in tagged]))
        contents = [w for w in A.walk(fb)
                    if isinstance(w, A.NodeV) and w.kind == "Content"]
        rep.check(bool(contents), "R13.3", vfunc.qualname,
                  "the fallback content is the evaluated on-error expression",
                  construct="fallback-content", where=vwhere)

    # R13.4 plumbing
    _plumbing(repo, rep)
    _unknown_position(repo, rep)
    # the fallback tag exists exactly when the element renders a tag: a
    # use-macro element omits it (C09 owns the element details)
    from . import c09 as _c09
    L.borrow(repo, rep, "R13.3", "C09", _c09.element_details,
             ("use-macro-omits-tag",))
    # error.lineno / error.offset of a deferred (non-strict) expression error
    # are those of the expression: its statements set the token (C19)
    from . import c19 as _c19
    L.borrow(repo, rep, "R13.1", "C19", _c19._deferred, ("deferred-shape",))
    ei = repo.func("chameleon.tal.ErrorInfo.__init__")
    need = {"type", "value", "lineno", "offset"}
    ok_ei = True
    for path in P.enum_paths(ei.node.body):
        if any(e[0] == "raise" for e in path):
            continue
        got = {e[1].split(".", 1)[1] for e in path if e[0] == "assign"
               and e[1].startswith("self.")}
        if not need <= got:
            ok_ei = False
    rep.check(ok_ei, "R13.4", ei.qualname, "the error object has its type, "
              "value, lineno and offset on every path (the fallback "
              "expression may read any of them)",
              construct="error-info-complete", where=L.where(ei))
    error_variable_scope(repo, rep)
    handler_locals_distinct(repo, rep)
    # every on-error element gets the handler: there is no exit of the
    # emitter in front of the try statement ("nothing in here can fail" is
    # not decidable from the guarded code: macros, fillers and the
    # translation function are called without a token)
    vo = repo.func("chameleon.compiler.Compiler.visit_OnError")
    rets = [r_ for r_ in ast.walk(vo.node) if isinstance(r_, ast.Return)]
    rep.check(len(rets) == 1 and rets[0] is vo.node.body[-1], "R13.1",
              vo.qualname, "the emitter has one exit, behind the try "
              "statement (%d return statements)" % len(rets),
              construct="handler-always-emitted", where=L.where(vo))
    # ... and line / column are the position's items as they are: lines count
    # from 1 but columns from 0, so a truth test or arithmetic on them loses
    # a legitimate value
    f, prm, items = _position_reads(repo)
    want = {"lineno": 0, "offset": 1}
    got = {}
    for n in ast.walk(f.node):
        if isinstance(n, ast.Assign) and len(n.targets) == 1 and \
                src(n.targets[0]) in ("self.lineno", "self.offset"):
            a = src(n.targets[0]).split(".")[1]
            got.setdefault(a, []).append(items.get(src(n.value)))
    rep.check(all(got.get(a) and all(v == k for v in got[a])
                  for a, k in want.items()),
              "R13.4", ei.qualname, "error.lineno / error.offset are items "
              "0 / 1 of the position, unchanged (column 0 is a column; "
              "got %s)" % got, construct="error-position-verbatim",
              where=L.where(ei))
    # "the output after the element is untouched": the handler puts the
    # translation settings back (C10 owns them); error.lineno / offset are
    # Token.location's (C11 owns its closed form)
    from . import c10 as _c10
    L.borrow(repo, rep, "R13.2", "C10", _c10._settings,
             ("handler-restores-settings",))
    from . import c11 as _c11
    L.borrow(repo, rep, "R13.4", "C11", _c11._location,
             ("location-line", "location-column", "location-pair"),
             minimum=3)
    L.state_rule(repo, rep)


def handler_locals_distinct(repo, rep, rule="R13.2"):
    """what the handler needs is saved in per-node locals ahead of the try
    (the length of the stream, the scope, the globals, the translation
    settings): all of them are alive until the handler has run, so their
    generated names differ pairwise"""
    f = repo.func("chameleon.compiler.Compiler.visit_OnError")
    made = {}
    for a in ast.walk(f.node):
        if isinstance(a, ast.Assign) and isinstance(a.value, ast.Call) and \
                src(a.value.func) == "identifier" and a.value.args:
            made[src(a.targets[0])] = tuple(src(x) for x in a.value.args)
    dup = [k for k in made if list(made.values()).count(made[k]) > 1]
    rep.check(len(made) >= 4 and not dup, rule, f.qualname, "the per-node "
              "locals of the handler have pairwise different generated "
              "names (%d locals)" % len(made),
              construct="handler-locals-distinct", where=L.where(f),
              detail=", ".join("%s=%s" % (k, made[k][0]) for k in dup))


def error_variable_scope(repo, rep, rule="R13.4"):
    """the handler's 'error' variable is a local of the fallback: its
    previous value is saved before the assignment and put back (or the name
    deleted) after the fallback -- by the same pair of fragments that
    brackets tal:define names (C05 owns their shape)"""
    q = "chameleon.compiler.Compiler.visit_OnError"
    f = repo.func(q)
    res = L.emission(repo, q)
    lin = L.Lin(res.emission)
    enters, leaves = L.brackets(lin)
    fb = lin.index(L.is_child("node.fallback"))
    assign = [i for i, r in enumerate(lin.rows)
              if isinstance(r[0], A.Frag) and "econtext[key] = cls(" in
              str(r[0]).replace("KEY", "key")]
    if fb < 0 or not assign:
        raise AnalysisError("visit_OnError: fallback / error assignment "
                            "not found in the emission")
    named = [e for e in enters if "node.name" in str(e["key"])]
    ok = bool(named) and all(
        e["i"] < assign[0] and any(
            l["backup"] == e["backup"] and l["key"] == e["key"]
            and l["i"] > fb and l["marker"] == e["marker"] for l in leaves)
        for e in named)
    rep.check(ok, rule, q, "the 'error' variable ends with the fallback: "
              "saved before it is assigned, restored after the fallback "
              "(an outer variable of that name is not clobbered)",
              construct="error-variable-scoped", where=L.where(f),
              detail="%d save / %d restore fragment(s) in the handler" % (
                  len(enters), len(leaves)))
    L.discarded_rule(repo, rep, rule, "chameleon.compiler.Compiler")


def _position_reads(repo):
    """ErrorInfo.__init__'s reads of its position argument: ({local name or
    'position[k]' text: item index}, number of items read)"""
    f = repo.func("chameleon.tal.ErrorInfo.__init__")
    prm = f.node.args.args[2].arg if len(f.node.args.args) > 2 else None
    items = {}
    for n in ast.walk(f.node):
        if isinstance(n, ast.Subscript) and src(n.value) == prm and \
                isinstance(n.slice, ast.Constant) and \
                isinstance(n.slice.value, int):
            items[src(n)] = n.slice.value
        if isinstance(n, ast.Assign) and src(n.value) == prm and \
                isinstance(n.targets[0], ast.Tuple) and \
                all(isinstance(t, ast.Name) for t in n.targets[0].elts):
            for k, t in enumerate(n.targets[0].elts):
                items[t.id] = k
    return f, prm, items


def _position_items(repo):
    f, prm, items = _position_reads(repo)
    if prm is None or not items:
        raise AnalysisError("ErrorInfo.__init__: position reads not found")
    return max(items.values()) + 1


def _entry_arity(repo):
    """items of one __tokens entry: (token,) + token.location"""
    f = repo.func("chameleon.compiler.Compiler.__init__")
    for n in ast.walk(f.node):
        if isinstance(n, ast.BinOp) and isinstance(n.op, ast.Add) and \
                isinstance(n.left, ast.Tuple) and \
                src(n.right).endswith(".location"):
            loc = repo.func("chameleon.tokenize.Token.location")
            r = loc.node.returns
            if isinstance(r, ast.Subscript) and src(r.value) == "tuple" and \
                    isinstance(r.slice, ast.Tuple):
                return len(n.left.elts) + len(r.slice.elts)
    return None


def _plen(e, entry):
    """possible lengths of a tuple-valued generated expression (None =
    unknown)"""
    if isinstance(e, ast.Tuple):
        return {len(e.elts)}
    if isinstance(e, ast.IfExp):
        return _plen(e.body, entry) | _plen(e.orelse, entry)
    if isinstance(e, ast.BoolOp):
        out = set()
        for v in e.values:
            out |= _plen(v, entry)
        return out
    if isinstance(e, ast.Subscript) and isinstance(e.slice, ast.Slice):
        lo, up, st = e.slice.lower, e.slice.upper, e.slice.step
        if st is None and all(x is None or (
                isinstance(x, ast.Constant) and isinstance(x.value, int)
                and x.value >= 0) for x in (lo, up)):
            lo = lo.value if lo is not None else 0
            out = set()
            for n in _plen(e.value, entry):
                if n is None:
                    out.add(None)
                else:
                    u = n if up is None else min(up.value, n)
                    out.add(max(0, u - lo))
            return out
        return {None}
    if isinstance(e, ast.Subscript) and src(e.value) == "__tokens":
        return {entry}
    if isinstance(e, ast.Call) and src(e.func) == "__tokens.get":
        if len(e.args) >= 2:
            return {entry} | _plen(e.args[1], entry)
        return {entry, 0}
    return {None}


def _type_tests_only(test):
    try:
        tree = ast.parse(test, mode="eval").body
    except SyntaxError:
        return False
    terms = tree.values if isinstance(tree, ast.BoolOp) and \
        isinstance(tree.op, ast.And) else [tree]
    return all(isinstance(t, ast.Call) and src(t.func) == "isinstance"
               for t in terms)


def _static_filter(test):
    try:
        tree = ast.parse(test, mode="eval").body
    except SyntaxError:
        return False
    for n in ast.walk(tree):
        if isinstance(n, ast.Call) and isinstance(n.func, ast.Name) and \
                n.func.id == "isinstance" and len(n.args) == 2:
            a, b = n.args
            if isinstance(a, ast.Attribute) and a.attr == "expression" and \
                    src(b) in ("ast.Constant", "Constant"):
                return True
    return False


def _plumbing(repo, rep):
    comp = repo.cls("chameleon.compiler.Compiler")
    dnode, owner = repo.class_attr(comp, "defaults")
    site = "chameleon.compiler.Compiler.defaults"
    if dnode is None or not isinstance(dnode, ast.Dict):
        raise AnalysisError("Compiler.defaults is not a dict display")
    keys = [k.value for k in dnode.keys if isinstance(k, ast.Constant)]
    rep.check("on_error_handler" in keys, "R13.4", site,
              "the compiler knows the 'on_error_handler' default",
              construct="defaults-key")
    # macro prologue reads econtext["__" + name] for every default
    res = L.emission(repo, "chameleon.compiler.Compiler.visit_Macro")
    found = False
    for it, conds in A.flatten(res.emission):
        pass
    for w in A.walk(res.emission):
        if isinstance(w, A.Frag):
            for node, b in L.frag_find(w, "_N = econtext[_K]"):
                kv = L.slot_value(w, b["_K"])
                nv = L.slot_value(w, b["_N"])
                if kv is not None and nv is not None and \
                        "__" in A.show(kv) and A.show(nv) in A.show(kv):
                    found = True
    rep.check(found, "R13.4", "chameleon.compiler.Compiler.visit_Macro",
              "the macro prologue binds NAME = econtext['__' + NAME] for "
              "every default (incl. on_error_handler)",
              construct="prologue-read")
    # PageTemplate.render passes it
    f = repo.func("chameleon.zpt.template.PageTemplate.render")
    ok = False
    for call in ast.walk(f.node):
        if isinstance(call, ast.Call) and len(call.args) == 2 and \
                isinstance(call.args[0], ast.Constant) and \
                call.args[0].value == "__on_error_handler" and \
                src(call.args[1]) == "self.on_error_handler":
            ok = True
    rep.check(ok, "R13.4", f.qualname,
              "render() passes self.on_error_handler as '__on_error_handler'",
              construct="render-kwarg",
              where="%s:%d" % (f.module.relpath, f.node.lineno))


def _unknown_position(repo, rep):
    """Without a recorded token the position handed to the error object is
    (None, None): both components are the constant None (the error's lineno
    / offset are 'unknown', never a private sentinel object)."""
    f = repo.func("chameleon.compiler.Compiler.visit_OnError")
    res = L.emission(repo, f.qualname)
    ok = False
    detail = ""
    for w in A.walk(res.emission):
        if isinstance(w, A.Frag) and w.tree is not None:
            for n in ast.walk(w.tree):
                if isinstance(n, ast.IfExp) and "__token" in src(n.test):
                    pt, flip = L._CanonIf._pos(n.test)
                    none_side = n.body if (src(pt).replace(" ", "") ==
                                           "__tokenisNone") != flip \
                        else n.orelse
                    detail = src(none_side)
                    ok = isinstance(none_side, ast.Tuple) and \
                        len(none_side.elts) == 2 and all(
                            isinstance(e, ast.Constant) and e.value is None
                            for e in none_side.elts)
    rep.check(ok, "R13.1", f.qualname, "a failure without a recorded "
              "position gives the error object (None, None)",
              construct="position-unknown-none", where=L.where(f),
              detail=detail)
