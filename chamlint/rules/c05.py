"""C05 -- variable scoping: locals end with their element, globals persist."""
from __future__ import annotations

import ast
import re

from .. import absint as A
from .. import lib as L
from .. import paths as P
from ..core import AnalysisError, src

COMP = "chameleon.compiler.Compiler."


def run(repo, rep, tier):
    rep.explanation = (
        "The save/assign/restore bracket that implements local scope is a "
        "pair of fixed code fragments emitted by Compiler._enter_assignment "
        "and _leave_assignment.  The emitters visit_Define and visit_Repeat "
        "are interpreted abstractly; in the emission tree every 'enter' must "
        "have its 'leave' under the same compile-time condition, on the "
        "other side of the element's body, on the same per-node backup "
        "local, in reverse order.  Global definitions must additionally be "
        "written to rcontext and merged back after both kinds of macro call. "
        "Name rewriting (NameTransform) and the two-level Scope are checked "
        "path by path.  This holds for every template, because the rules "
        "look at the code that handles all of them.")
    rep.assumptions = [
        "generated code of all emitters shares one function namespace",
        "dict/Scope semantics of CPython for get/__setitem__/__delitem__",
    ]
    rep.rule("R05.1", "G-PAIR: every emitted 'save outer value' has its "
                      "'restore' under the same condition, after the body, "
                      "same backup local and key, same undefined-marker, "
                      "in reverse order")
    rep.rule("R05.2", "G-LIVE: backup locals are per-node")
    rep.rule("R05.3", "globals: non-local assignment also writes rcontext; "
                      "both macro calls copy econtext in and merge rcontext out")
    rep.rule("R05.4", "G-SIBLING: every binder of user-chosen names rejects "
                      "the same reserved names")
    rep.rule("R05.5", "user names are always looked up in the template "
                      "context first (no capture of generated helpers)")
    rep.rule("R05.6", "Scope: local layer over shared root")
    rep.rule("R05.7", "compile-time scope/alias stacks are balanced")

    rep.rule("R05.8", "abnormal exit: the one place where generated code "
                      "ends an exception's propagation (tal:on-error) puts "
                      "the local variables back as they were on entry")

    rep.rule("R05.9", "expression-local binders (lambda, comprehensions) "
                      "open a copy of the enclosing scope and close it on "
                      "every exit: no other expression is affected")

    binders = ["visit_Define", "visit_Repeat"]
    for name in binders:
        func = repo.func(COMP + name)
        res = L.emission(repo, COMP + name)
        L.require_no_opaque(res.emission, func.qualname)
        rep.count("functions_interpreted")
        lin = L.Lin(res.emission)
        _bracket_rule(rep, func, lin)
        L.g_live(rep, "R05.2", func, res)
        for stack in ("self._scopes", "self._aliases"):
            L.g_pair_stack(rep, "R05.7", func, res, stack)
    rep.require_min("R05.1", 8, "define + repeat brackets")
    rep.require_min("R05.2", 2, "backup locals of define and repeat")

    _marker_rule(repo, rep)
    _abnormal_exit_rule(repo, rep)
    _per_name_rule(repo, rep)
    _restore_vs_global(repo, rep)
    # a variable is visible within the defining element only: the slot
    # content a caller supplies replaces the element *including* its
    # definitions (define-slot encloses define in the node nesting)
    from . import c01
    L.borrow(repo, rep, "R05.1", "C01", c01.order,
             ("order:define-slot><define>",))
    # names bound inside one expression (lambda parameters, comprehension
    # variables) must not change how any other expression's names are
    # looked up: the rewriter's scopes are copies, closed on every exit
    from .c04 import _binders
    _binders(repo, rep, rule="R05.9", handlers=False)
    _globals_rule(repo, rep)
    _reserved_rule(repo, rep)
    _nametransform_rule(repo, rep)
    _scope_rule(repo, rep)
    L.innermost_rule(repo, rep, "R05.7", ("chameleon.compiler.Compiler",),
                     only=("_scopes", "_aliases"))
    # a tal:define'd variable named 'error' is still itself after an
    # on-error element inside its element has handled a failure (C13 owns
    # the handler's shape)
    from . import c13 as _c13
    L.borrow(repo, rep, "R05.1", "C13", _c13.error_variable_scope,
             ("error-variable-scoped", "generator-consumed"), minimum=2)
    L.state_rule(repo, rep)


def brackets(repo, rep):
    """the R05.1 bracket rule for both binders, callable by neighbours"""
    for name in ("visit_Define", "visit_Repeat"):
        func = repo.func(COMP + name)
        res = L.emission(repo, COMP + name)
        _bracket_rule(rep, func, L.Lin(res.emission))


def _bracket_rule(rep, func, lin):
    site = func.qualname
    enters, leaves = L.brackets(lin)
    body = lin.index(L.is_child("node.node"))
    w = L.where(func)
    if body < 0:
        raise AnalysisError("%s: body emission (node.node) not found" % site)
    rep.check(bool(enters) and bool(leaves), "R05.1", site,
              "the emitter brackets local names with save/restore fragments",
              construct="bracket-present", where=w,
              detail="%d save / %d restore fragment(s)" % (len(enters),
                                                           len(leaves)))
    if not enters or not leaves:
        return
    for e in enters:
        rep.check(e["i"] < body, "R05.1", site,
                  "save of %s precedes the element body" % e["key"],
                  construct="save-before-body", where=w)
    for l in leaves:
        rep.check(l["i"] > body, "R05.1", site,
                  "restore of %s follows the element body" % l["key"],
                  construct="restore-after-body", where=w)
    # pairing under the same condition
    for e in enters:
        mates = [l for l in leaves if l["backup"] == e["backup"]
                 and l["key"] == e["key"]]
        rep.check(bool(mates), "R05.1", site,
                  "save fragment for %s has a restore on the same backup "
                  "local and key" % e["key"], construct="restore-missing",
                  where=w, detail="backup %s" % (e["backup"],))
        for l in mates:
            se, sl = L.cond_signature(e["conds"]), L.cond_signature(l["conds"])
            rep.check(se == sl, "R05.1", site,
                      "save and restore of %s are emitted under the same "
                      "compile-time condition" % e["key"],
                      construct="restore-condition", where=w,
                      detail="save under [%s], restore under [%s]" % (
                          L.conds_text(e["conds"]), L.conds_text(l["conds"])))
            rep.check(e["marker"] == l["marker"], "R05.1", site,
                      "the 'was undefined' marker stored by save is the one "
                      "restore tests", construct="marker-agree", where=w,
                      detail="%s vs %s" % (e["marker"], l["marker"]))
    for l in leaves:
        mates = [e for e in enters if l["backup"] == e["backup"]
                 and l["key"] == e["key"]]
        rep.check(bool(mates), "R05.1", site,
                  "restore fragment for %s has a save" % l["key"],
                  construct="save-missing", where=w)
    # the assignment itself sits between save and body
    assigns = [i for i in lin.all(lambda it: isinstance(it, (A.Child, A.Eval)))
               if i < body]
    if assigns:
        first_assign = min(assigns)
        rep.check(all(e["i"] < first_assign for e in enters) or
                  _interleaved(lin, enters, body),
                  "R05.1", site,
                  "each save precedes the assignment it protects",
                  construct="save-before-assign", where=w)
    # reverse order of restores w.r.t. the outer loop of the saves
    outer_e = _outer_loop(lin, enters)
    outer_l = _outer_loop(lin, leaves)
    if outer_e is not None and outer_l is not None and \
            A.show(outer_e.iter) == A.show(outer_l.iter) and \
            "assignments" in A.show(outer_e.iter):
        rep.check(outer_l.rev != outer_e.rev, "R05.1", site,
                  "restores run in the reverse order of the saves "
                  "(re-definitions of one name unwind correctly)",
                  construct="restore-order", where=w)


def _interleaved(lin, enters, body):
    """visit_Define: [save_i; assign_i] for each i -- every save precedes the
    next Child inside the same loop iteration."""
    for e in enters:
        nxt = lin.index(lambda it: isinstance(it, (A.Child, A.Eval)),
                        e["i"] + 1)
        if nxt < 0 or nxt > body:
            return False
    return True


def _outer_loop(lin, frs):
    """the outermost Loop node enclosing the first of ``frs``"""
    if not frs:
        return None
    loops = L.enclosing_loops(lin.root, frs[0]["frag"])
    return loops[0] if loops else None


def _marker_rule(repo, rep):
    """__marker must be a fresh object() defined once in the module preamble"""
    res = L.emission(repo, COMP + "visit_Module")
    ok = False
    for w in A.walk(res.emission):
        if isinstance(w, A.Frag) and L.frag_find(w, "__marker = object()"):
            ok = True
    rep.check(ok, "R05.1", COMP + "visit_Module",
              "the 'undefined' marker is a fresh object() no template value "
              "can be identical to", construct="marker-def")


def _tuple_elements(v):
    """the constant strings a compile-time value ranges over, per branch of
    the alternatives it depends on: -> {((test, bool), ...): [str, ...]} or
    None if not understood.  Understands tuples of constants, alternatives
    of them, slices with constant bounds and loop variables over those."""
    if isinstance(v, A.LoopVar):
        return _tuple_elements(v.iter)
    if isinstance(v, (A.Tup, A.Seq)):
        items = []
        for x in v.items:
            if isinstance(x, A.Const) and isinstance(x.value, str):
                items.append(x.value)
            else:
                return None
        return {(): items}
    if isinstance(v, A.Alt):
        a, b = _tuple_elements(v.a), _tuple_elements(v.b)
        if a is None or b is None:
            return None
        out = {}
        for k, vals in a.items():
            out[((v.test, True),) + k] = vals
        for k, vals in b.items():
            out[((v.test, False),) + k] = vals
        return out
    if isinstance(v, A.CallV) and v.name == "getitem" and len(v.args) == 2:
        base = _tuple_elements(v.args[0])
        sl = getattr(v.args[1], "node", None)
        if base is None or not isinstance(sl, ast.Slice):
            return None

        def bound(e):
            if e is None:
                return None
            try:
                return int(ast.literal_eval(e))
            except (ValueError, TypeError):
                raise AnalysisError("slice bound %s" % src(e))
        lo, hi, st = bound(sl.lower), bound(sl.upper), bound(sl.step)
        return {k: vals[lo:hi:st] for k, vals in base.items()}
    return None


def _repeat_globals_rule(repo, rep):
    """tal:repeat="global x ...": the loop variable is written to the
    render-wide context as well (per name), and only then"""
    func = repo.func(COMP + "visit_Repeat")
    res = L.emission(repo, func.qualname)
    lin = L.Lin(res.emission)
    site = func.qualname
    w = L.where(func)
    found = []
    for i, (it, conds, _) in enumerate(lin.rows):
        if isinstance(it, A.Frag):
            for node, b in L.frag_find(it, "_C[_K] = econtext[_K]"):
                cv = L.slot_value(it, b["_C"])
                found.append((i, it, cv, conds))
    rep.check(bool(found), "R05.3", site, "the variables of a repeat can be "
              "copied to another context (C[name] = econtext[name])",
              construct="repeat-global-write", where=w)
    for i, it, cv, conds in found:
        el = _tuple_elements(cv) if cv is not None else None
        if el is None:
            raise AnalysisError("visit_Repeat: the contexts the loop "
                                "variable is copied to are not understood: "
                                "%s" % A.show(cv, limit=8))
        glob = sorted({x for k, vals in el.items() for x in vals
                       if L.cond_holds([(t, b_) for t, b_ in k],
                                       "node.local", False)})
        loc = sorted({x for k, vals in el.items() for x in vals
                      if L.cond_holds([(t, b_) for t, b_ in k],
                                      "node.local", True)})
        rep.check(glob == ["rcontext"] and loc in ([], ["econtext"]),
                  "R05.3", site, "a repeat that is not local copies its "
                  "variables to rcontext (what a macro call merges back), a "
                  "local one copies nothing", construct="repeat-global-target",
                  where=w, detail="not local: %s; local: %s" % (glob, loc))
        rep.check(any(k == "loop" and "node.names" in str(t)
                      for k, t in conds), "R05.3", site, "every name of a "
                  "multi-name repeat is copied",
                  construct="repeat-global-all-names", where=w,
                  detail=L.conds_text(conds))


def repeat_first_context(repo, rep, rule="R05.3"):
    """whatever else a repeat writes to, the loop variable is assigned in
    the template's own scope (econtext) on every iteration: the first of the
    contexts, local or not"""
    func = repo.func(COMP + "visit_Repeat")
    alts = []
    for n in ast.walk(func.node):
        if isinstance(n, ast.Assign) and src(n.targets[0]) == "contexts":
            todo = [n.value]
            while todo:
                v = todo.pop()
                if isinstance(v, ast.IfExp):
                    todo += [v.body, v.orelse]
                else:
                    alts.append(v)
    ok = bool(alts) and all(
        isinstance(v, ast.Tuple) and v.elts and
        isinstance(v.elts[0], ast.Constant) and v.elts[0].value == "econtext"
        and len({e.value for e in v.elts if isinstance(e, ast.Constant)})
        == len(v.elts) for v in alts)
    rep.check(ok, rule, func.qualname, "the loop variable is assigned in "
              "econtext first, and each context once",
              construct="repeat-first-context", where=L.where(func),
              detail="; ".join(src(v) for v in alts))


def dict_attribute_sets(repo, rep, rule="R05.5"):
    """the name sets an attribute dictionary is filtered by are built by a
    bare 'set(...)': they are hoisted out of the render function (Static),
    where a <?python ?> block that assigns 'set' cannot rebind the name"""
    func = repo.func(COMP + "visit_DictAttributes")
    bare = []
    n = 0
    for a in ast.walk(func.node):
        if isinstance(a, ast.Call) and src(a.func) == "template" and a.args \
                and isinstance(a.args[0], ast.Constant) and \
                str(a.args[0].value).startswith("set("):
            n += 1
            par = getattr(a, "_parent", None)
            if not (isinstance(par, ast.Call) and src(par.func) == "Static"):
                bare.append(a)
    rep.check(n >= 2 and not bare, rule, func.qualname, "the name sets of "
              "an attribute dictionary are module-level constants of the "
              "compiled template (%d sets)" % n,
              construct="dict-attribute-sets-static",
              where=L.where(func, bare[0].lineno) if bare else L.where(func))


def _repeat_bracket_local(repo, rep):
    """only a LOCAL repeat takes its variables back when the element ends:
    the save / restore fragments of visit_Repeat are emitted under
    node.local (a 'global' repeat leaves its variables defined)"""
    func = repo.func(COMP + "visit_Repeat")
    res = L.emission(repo, func.qualname)
    lin = L.Lin(res.emission)
    enters, leaves = L.brackets(lin)
    ok = bool(enters) and bool(leaves) and all(
        L.polarity(x["conds"], "node.local") is True
        for x in enters + leaves)
    rep.check(ok, "R05.3", func.qualname, "the variables of a repeat are "
              "taken back at the end of the element only if the repeat is "
              "local", construct="repeat-bracket-local-only",
              where=L.where(func))
    # the two-layer scope: copy() relies on dict(self) seeing the LOCAL
    # layer only; a keys() / items() / values() / __len__ that covers the
    # root as well makes every copy swallow the globals -- the methods of
    # Scope are a reviewed set
    sc = repo.cls("chameleon.utils.Scope")
    reviewed = {"__contains__", "__getitem__", "__iter__", "copy", "get",
                "get_name", "set_global", "vars", "__init__"}
    extra = sorted(set(sc.methods) - reviewed)
    rep.check(not extra, "R05.6", sc.qualname, "Scope overrides no further "
              "dict method (a copy is made from the local layer: what dict() "
              "sees of a Scope must stay the local layer)",
              construct="scope-methods-reviewed", detail=str(extra))


def _globals_rule(repo, rep):
    _repeat_globals_rule(repo, rep)
    repeat_first_context(repo, rep)
    dict_attribute_sets(repo, rep)
    _repeat_bracket_local(repo, rep)
    func = repo.func(COMP + "visit_Assignment")
    res = L.emission(repo, COMP + "visit_Assignment")
    lin = L.Lin(res.emission)
    site = func.qualname
    w = L.where(func)
    ev = lin.index(lambda it: isinstance(it, A.Eval))
    glob = []
    for i, (it, conds, _) in enumerate(lin.rows):
        if isinstance(it, A.Frag):
            for node, b in L.frag_find(it, "rcontext[_K] = _V"):
                glob.append((i, it, b, conds))
    rep.check(bool(glob), "R05.3", site,
              "a definition can be written to the render-wide context "
              "(rcontext[name] = value)", construct="global-write", where=w)
    for i, it, b, conds in glob:
        pol = L.polarity(conds, "node.local")
        rep.check(pol is False, "R05.3", site,
                  "rcontext is written exactly when the definition is not "
                  "local", construct="global-condition", where=w,
                  detail="emitted under [%s]" % L.conds_text(conds))
        rep.check(any(k == "loop" for k, _ in conds), "R05.3", site,
                  "every name of a multi-name global definition is written",
                  construct="global-all-names", where=w)
        rep.check(ev >= 0 and i > ev, "R05.3", site,
                  "the global write follows the evaluation of the value",
                  construct="global-order", where=w)
        # per name: what is written for name k is k's own (unpacked) value,
        # i.e. what the local store put into econtext[k] -- not the whole
        # value of a multi-name definition
        v = b["_V"]
        same_key = isinstance(v, ast.Subscript) and \
            src(v.value) == "econtext" and isinstance(
                v.slice, ast.Name) and isinstance(b["_K"], ast.Name) and \
            v.slice.id == b["_K"].id
        st_i = lin.index(lambda x: isinstance(x, A.Py) and x.kind == "Assign"
                         and "econtext" in A.show(x.f.get("targets"),
                                                  limit=6))
        same_key = same_key and 0 <= st_i < i
        rep.check(same_key, "R05.3", site, "each name of a global definition "
                  "gets its own value in the render-wide context "
                  "(rcontext[k] = econtext[k], after the unpacking store)",
                  construct="global-per-name-value", where=w,
                  detail="writes %s" % src(v))
    # local store into econtext always
    stores = [i for i, (it, c, p) in enumerate(lin.rows)
              if isinstance(it, A.Py) and it.kind == "Subscript"
              and "econtext" in A.show(it.f.get("value"))
              and "store" in A.show(it.f.get("ctx", "")).lower()]
    rep.check(bool(stores), "R05.3", site,
              "every definition is stored in econtext", "local-store", where=w)

    for name in ("visit_UseInternalMacro", "visit_UseExternalMacro"):
        mo = merge_after_macro(repo, name)
        f = mo["func"]
        call, upd, bare = mo["call"], mo["upd"], mo["bare"]
        rep.check(call is not None, "R05.3", f.qualname,
                  "the macro is called with a copy of the variable scope "
                  "(its locals cannot reach the caller) and the shared "
                  "rcontext", construct="macro-copy-in", where=L.where(f))
        rep.check(upd is not None and call is not None and upd > call
                  and mo["top"] and mo["filter_ok"],
                  "R05.3", f.qualname,
                  "after the macro call the caller merges the global "
                  "definitions back: every global that is new or was "
                  "re-assigned by the macro (econtext.update(...))",
                  construct="macro-merge-out", where=L.where(f),
                  detail=mo["detail"])
        # ... but only what the macro defined: rcontext holds every global
        # of the rendering so far, and writing all of them over the caller's
        # scope replaces a local binding that shadows an earlier global --
        # inside the element it belongs to
        rep.check(upd is not None and not bare, "R05.3", f.qualname,
                  "the merge after a macro call is limited to the globals "
                  "the macro (re)defined; a caller's local that shadows an "
                  "older global stays visible until its element ends",
                  construct="macro-merge-overwrites-shadow",
                  where=L.where(f), detail="econtext.update(rcontext) "
                  "re-applies every global" if bare else "")
    _filler_merge(repo, rep)


def _filler_merge(repo, rep):
    # a slot filler runs on a copy of the macro's scope like a macro does
    # on its caller's: a global it defines must reach the rest of the macro
    # body the same way ("visible for the rest of the rendering")
    mo = merge_after_macro(repo, "visit_DefineSlot", FILLER_CALL)
    f = mo["func"]
    rep.check(mo["call"] is not None and mo["upd"] is not None and
              mo["upd"] > mo["call"] and mo["top"] and mo["filter_ok"]
              and not mo["bare"], "R05.3", f.qualname,
              "after a slot filler returns, the globals it (re)defined are "
              "merged into the macro's scope -- those only, in the branch "
              "that called it", construct="filler-merge-out",
              where=L.where(f), detail=mo["detail"] or
              "call=%s merge=%s" % (mo["call"], mo["upd"]))


MACRO_CALL = ("_F(__stream, _C, rcontext, __i18n_domain, "
              "__i18n_context, target_language)")
FILLER_CALL = "_F(__stream, _C, rcontext)"


def merge_after_macro(repo, name, call_pattern=MACRO_CALL):
    """How a macro-use emitter hands the macro's global definitions to the
    caller's scope.  -> dict(call, upd, bare, top, filter_ok, detail)"""
    f = repo.func(COMP + name)
    r = L.emission(repo, COMP + name)
    ln = L.Lin(r.emission)
    out = dict(func=f, call=None, upd=None, bare=False, top=False,
               filter_ok=False, detail="")
    snaps = {}
    ci_, ck_ = L.scoped_call(ln, call_pattern)
    if ci_ >= 0:
        out["call"] = ci_
    for i, (it, conds, path) in enumerate(ln.rows):
        if not isinstance(it, A.Frag):
            continue
        for node, b in L.frag_find(it, "_S = rcontext.copy()"):
            if isinstance(b["_S"], ast.Name):
                snaps[L.name_key(it, b["_S"])] = (
                    i, L.slot_value(it, b["_S"]))
        for node, b in L.frag_find(it, "econtext.update(_A)", "expr"):
            arg = b["_A"]
            if "rcontext" not in src(arg):
                continue
            out["upd"] = i
            ci = out["call"]
            same = ci is not None and ln.rows[ci][1] == conds and [
                (id(n), fld) for n, fld in ln.rows[ci][2]] == [
                (id(n), fld) for n, fld in path]
            out["top"] = (same or (not conds and not any(
                isinstance(n, A.Py) and n.kind in ("If", "While", "Try",
                                                   "ExceptHandler")
                for n, fld in path))) and any(
                    isinstance(st, ast.Expr) and st.value is node
                    for st in it.tree.body)
            if isinstance(arg, ast.Name):
                out["bare"] = True
                out["filter_ok"] = True
                continue
            # a comprehension over rcontext.items() keeping the entries
            # whose value object differs from the snapshot (new names and
            # re-assigned ones)
            ok = False
            detail = src(arg)[:120]
            if isinstance(arg, (ast.GeneratorExp, ast.ListComp,
                                ast.DictComp)) and \
                    len(arg.generators) == 1 and \
                    src(arg.generators[0].iter) == "rcontext.items()" and \
                    len(arg.generators[0].ifs) == 1:
                g = arg.generators[0]
                if isinstance(g.target, ast.Tuple) and len(g.target.elts) == 2:
                    k_, v_ = src(g.target.elts[0]), src(g.target.elts[1])
                    whole = "(%s, %s)" % (k_, v_)
                else:
                    k_, v_ = src(g.target) + "[0]", src(g.target) + "[1]"
                    whole = src(g.target)
                elt_ok = (src(arg.elt) in (whole, whole.strip("()"))
                          if not isinstance(arg, ast.DictComp) else
                          (src(arg.key), src(arg.value)) == (k_, v_))
                mt = L.match(L.pat("_S.get(_K, __marker) is not _V", "expr"),
                             g.ifs[0])
                if mt is not None and elt_ok and src(mt["_K"]) == k_ and \
                        src(mt["_V"]) == v_ and isinstance(mt["_S"], ast.Name):
                    sk = L.name_key(it, mt["_S"])
                    sn = snaps.get(sk)
                    if sn is not None and out["call"] is not None and \
                            sn[0] < out["call"] < i and \
                            A.per_node(sn[1])[0]:
                        ok = True
                    else:
                        detail += " (snapshot %s not taken per node before " \
                                  "the call)" % src(mt["_S"])
            out["filter_ok"] = ok
            out["detail"] = detail
    # every emitted call of the macro is followed by the merge: a second
    # way out of the emitter (a "nothing to merge" fast path) that emits
    # the call alone loses the callee's global definitions
    def ctrl(path):
        return [(id(n), fld) for n, fld in path
                if isinstance(n, A.Py) and n.kind in (
                    "If", "While", "Try", "ExceptHandler")]
    calls, upds = [], []
    for i, (it, conds, path) in enumerate(ln.rows):
        if not isinstance(it, A.Frag):
            continue
        if L.frag_find(it, call_pattern, "expr"):
            calls.append(i)
        if any("rcontext" in src(b["_A"]) for _, b in L.frag_find(
                it, "econtext.update(_A)", "expr")):
            upds.append(i)
    alone = []
    for i in calls:
        ci, pi = tuple(ln.rows[i][1]), ctrl(ln.rows[i][2])
        if not any(j >= i and tuple(ln.rows[j][1]) == ci[:len(ln.rows[j][1])]
                   and ctrl(ln.rows[j][2]) == pi[:len(ctrl(ln.rows[j][2]))]
                   for j in upds):
            alone.append(i)
    if alone:
        out["top"] = False
        out["detail"] = "the call is also emitted without the merge, " \
            "under %s" % (list(ln.rows[alone[0]][1]) or "no condition")
    return out


def _reserved_rule(repo, rep):
    """All emitters that bind user-chosen names into econtext."""
    sets = {}
    for name in ("visit_Assignment", "visit_Repeat"):
        f = repo.func(COMP + name)
        r = L.emission(repo, COMP + name)
        tests = set()
        for item, conds in A.flatten(r.trace):
            if isinstance(item, A.Raise) and "TranslationError" in A.show(
                    item.exc):
                per_name = any(k == "loop" and "node.names" in t
                               for k, t in conds)
                for k, t in conds:
                    if k == "if" and ("COMPILER_INTERNALS" in t or
                                      "startswith" in t):
                        # a guard outside the loop over the names covers
                        # one name only
                        tests.add(_norm_test(t) if per_name else
                                  _norm_test(t) + " (not for every name)")
        sets[name] = (f, tests)
    union = set()
    for f, t in sets.values():
        union |= t
    rep.check(len(union) >= 2, "R05.4", COMP + "visit_Assignment",
              "reserved names (compiler internals, double underscore) are "
              "rejected at compile time", construct="reserved-present",
              detail=str(sorted(union)))
    union = {t for t in union if not t.endswith("(not for every name)")} | \
        {"in-reserved-set", "double-underscore"}
    for name, (f, tests) in sets.items():
        for t in sorted(union):
            rep.check(t in tests, "R05.4", f.qualname,
                      "binder rejects names by the test '%s' like its "
                      "sibling" % t, construct=t, where=L.where(f),
                      detail="present tests: %s" % sorted(tests))
    # the table itself
    tab = repo.const("chameleon.compiler", "COMPILER_INTERNALS_OR_DISALLOWED")
    rep.check({"econtext", "rcontext"} <= set(tab), "R05.4",
              "chameleon.compiler.COMPILER_INTERNALS_OR_DISALLOWED",
              "the reserved set contains the render function's context "
              "parameters", construct="reserved-table", detail=str(tab))


def _norm_test(t):
    if " in COMPILER_INTERNALS_OR_DISALLOWED" in t and " not in " not in t:
        return "in-reserved-set"
    if "startswith('__')" in t or 'startswith("__")' in t:
        return "double-underscore"
    return t


def _capturable_helpers(repo, rep):
    """Names that the name rewriter leaves untouched resolve to Python
    locals of the generated function.  That is safe only for names a
    template cannot bind: every such name must be rejected by the binders.
    internals = COMPILER_INTERNALS_OR_DISALLOWED | Compiler.defaults (plus
    the '__' prefix); the binders reject COMPILER_INTERNALS_OR_DISALLOWED and
    the '__' prefix."""
    ci = repo.cls("chameleon.compiler.Compiler")
    init = ci.methods["__init__"]
    t = L.text(init.node)
    rep.check("internals = COMPILER_INTERNALS_OR_DISALLOWED | "
              "set(self.defaults)" in t, "R05.5", init.qualname,
              "the untouched names are the disallowed names plus the helper "
              "names of Compiler.defaults", construct="internals-source",
              where=L.where(init))
    dflt = ci.attrs.get("defaults")
    names = sorted(k.value for k in dflt.keys
                   if isinstance(k, ast.Constant)) if isinstance(
                       dflt, ast.Dict) else None
    if not names:
        raise AnalysisError("Compiler.defaults vanished")
    try:
        rejected = set(repo.const("chameleon.compiler",
                                  "COMPILER_INTERNALS_OR_DISALLOWED"))
    except Exception as exc:
        raise AnalysisError("cannot fold the disallowed names: %s" % exc)
    for nme in names:
        rep.check(nme in rejected or nme.startswith("__"), "R05.5",
                  "chameleon.compiler.Compiler.defaults",
                  "the helper local '%s' cannot be captured: a template "
                  "variable of that name is either rejected at compile time "
                  "or looked up in the template context" % nme,
                  construct="helper-capturable:" + nme,
                  detail="tal:define=\"%s 7\" is accepted, but ${%s} is "
                         "left as the bare Python name and shows the "
                         "engine's helper" % (nme, nme))


def _engine_lookups(repo, rep):
    """The converse: objects the generated code fetches from the *template
    variables* by a fixed name (getname('repeat')) are whatever a template
    bound to that name, unless the binders reject it."""
    import textwrap
    m = repo.modules["chameleon.compiler"]
    try:
        rejected = set(repo.const("chameleon.compiler",
                                  "COMPILER_INTERNALS_OR_DISALLOWED"))
    except Exception as exc:
        raise AnalysisError("cannot fold the disallowed names: %s" % exc)
    found = {}
    n_frag = 0
    for q, fn in sorted(repo.funcs.items()):
        if fn.module is not m:
            continue
        for c in ast.walk(fn.node):
            if not (isinstance(c, ast.Call) and src(c.func) == "template"
                    and c.args):
                continue
            try:
                text = repo.fold(c.args[0], m)
            except Exception:
                continue
            if not isinstance(text, str):
                continue
            try:
                tree = ast.parse(textwrap.dedent(text))
            except SyntaxError:
                try:
                    tree = ast.parse(textwrap.dedent(text), mode="eval")
                except SyntaxError:
                    continue
            n_frag += 1
            for x in ast.walk(tree):
                key = None
                if isinstance(x, ast.Call) and src(x.func) in (
                        "getname", "get", "econtext.get") and x.args and \
                        isinstance(x.args[0], ast.Constant) and \
                        isinstance(x.args[0].value, str):
                    key = x.args[0].value
                elif isinstance(x, ast.Subscript) and \
                        src(x.value) == "econtext" and isinstance(
                            x.ctx, ast.Load) and isinstance(
                                x.slice, ast.Constant) and isinstance(
                                    x.slice.value, str):
                    key = x.slice.value
                if key is not None:
                    found.setdefault(key, (fn, c.lineno))
    if n_frag < 40:
        raise AnalysisError("only %d code fragments found" % n_frag)
    for key, (fn, ln) in sorted(found.items()):
        rep.check(key.startswith("__") or key in rejected, "R05.5",
                  fn.qualname, "the engine object fetched from the template "
                  "variables under the fixed name '%s' cannot be replaced by "
                  "a template binding of that name (reserved prefix, or "
                  "rejected by the binders)" % key,
                  construct="engine-lookup-capturable:" + key,
                  where=L.where(fn, ln),
                  detail="tal:define=\"%s 5\" is accepted and the generated "
                         "code then calls getname('%s')" % (key, key))


def _nametransform_rule(repo, rep):
    _capturable_helpers(repo, rep)
    _engine_lookups(repo, rep)
    # a template variable named 'target_language' must not change what
    # OTHER expressions are translated into: compiler fragments emitted as
    # expression code bind the name to a node the rewriter leaves alone
    # (C10 owns the rule)
    from .c10 import rewriter_proof
    L.borrow(repo, rep, "R05.5", "C10", rewriter_proof,
             ("rewriter-proof", "rewriter-covers-engines"), minimum=4)
    f = repo.func("chameleon.compiler.NameTransform.__call__")
    site = f.qualname
    w = L.where(f)
    paths = P.enum_paths(f.node.body)
    rep.count("paths", len(paths))
    unchanged = []
    n_ctx = 0
    for p in paths:
        last = p[-1]
        if last[0] != "return":
            continue
        val = last[1]
        text = src(val)
        conds = [(src(e[1]), e[2]) for e in p if e[0] == "cond"]
        if isinstance(val, ast.Name) and val.id == "node":
            unchanged.append(conds)
            internal = any(("startswith('__')" in c and "internals" in c
                            and v) for c, v in conds)
            rep.check(internal, "R05.5", site,
                      "a name is left untouched only if it is internal "
                      "(double underscore or compiler internal)",
                      construct="unchanged-name", where=w,
                      detail=P.path_text(p))
        elif "store_econtext" in text:
            rep.check(any("Store" in c and v for c, v in conds), "R05.5",
                      site, "assignments inside expressions are stored in the "
                      "template context", construct="store", where=w)
        elif "load_econtext" in text:
            n_ctx += 1
            rep.ok("R05.5", site, "a plain name is looked up in the template "
                                  "context (getname)")
        elif "template(" in text:
            call = val
            kw = {k.arg: k.value for k in call.keywords}
            source = call.args[0].value if call.args and isinstance(
                call.args[0], ast.Constant) else ""
            m = L.find_all(L.pat("get(_K, _D)", "expr"),
                           ast.parse(source, mode="eval")) if source else []
            ok = False
            if m:
                b = m[0][1]
                kname = b["_K"].id if isinstance(b["_K"], ast.Name) else None
                dname = b["_D"].id if isinstance(b["_D"], ast.Name) else None
                kv, dv = kw.get(kname), kw.get(dname)
                ok = (kv is not None and "Constant(name)" in src(kv) and
                      dv is not None and "Builtin(name)" in src(dv))
            rep.check(ok, "R05.5", site,
                      "a builtin name is looked up in the template context "
                      "first, the Python builtin is only the default",
                      construct="builtin-order", where=w, detail=text)
            rep.check(any("self.builtins" in c and v for c, v in conds),
                      "R05.5", site, "the builtin fallback applies only to "
                      "names in the builtin set", construct="builtin-guard",
                      where=w)
        elif text.startswith("load("):
            rep.check(L.cond_holds(conds, "aliased is not None", True,
                                   contains=True), "R05.5", site,
                      "compile-time aliases are used only when defined",
                      construct="alias", where=w)
        else:
            rep.bad("R05.5", site, "every return of NameTransform is a "
                    "recognised rewriting", "unknown-return", text, w)
    rep.check(n_ctx >= 1, "R05.5", site,
              "the default rewriting is a context lookup",
              construct="default-lookup", where=w)
    # load_econtext really is getname(KEY)
    g = repo.func("chameleon.compiler.load_econtext")
    ok = any(isinstance(c, ast.Call) and c.args and
             isinstance(c.args[0], ast.Constant) and
             c.args[0].value.replace(" ", "") == "getname(KEY)"
             for c in ast.walk(g.node))
    rep.check(ok, "R05.5", g.qualname, "load_econtext emits getname(KEY)",
              construct="getname", where=L.where(g))
    # Context prologue binds getname/get to the *current* econtext
    r = L.emission(repo, COMP + "visit_Context")
    have = set()
    for wv in A.walk(r.emission):
        if isinstance(wv, A.Frag):
            if L.frag_find(wv, "getname = econtext.get_name"):
                have.add("getname")
            if L.frag_find(wv, "get = econtext.get"):
                have.add("get")
    rep.check(have == {"getname", "get"}, "R05.5", COMP + "visit_Context",
              "getname/get are bound to the current scope's accessors",
              construct="accessors", detail=str(sorted(have)))


def _scope_rule(repo, rep):
    ci = repo.cls("chameleon.utils.Scope")
    site = ci.qualname
    # get: local first, then root
    g = ci.methods.get("get")
    if g is None:
        raise AnalysisError("Scope.get vanished")
    order = []
    for n in ast.walk(g.node):
        if isinstance(n, ast.Call):
            t = src(n)
            if t.startswith("super().get("):
                order.append(("local", n.lineno, n.col_offset))
            elif "getattr(self, '_root'" in t or 'getattr(self, "_root"' in t:
                order.append(("root", n.lineno, n.col_offset))
    order.sort(key=lambda x: (x[1], x[2]))
    kinds = [k for k, _, _ in order]
    rep.check(kinds[:2] == ["local", "root"], "R05.6", g.qualname,
              "Scope.get consults the local layer before the shared root",
              construct="get-order", where=L.where(g), detail=str(kinds))
    paths = P.enum_paths(g.node.body)
    ok = True
    for p in paths:
        if p[-1][0] == "return" and src(p[-1][1]) == "default":
            conds = [(src(e[1]), e[2]) for e in p if e[0] == "cond"]
            if not L.cond_holds(conds, "value is not marker", False,
                                contains=True):
                ok = False
    rep.check(ok, "R05.6", g.qualname,
              "the default is returned only when neither layer has the key",
              construct="get-default", where=L.where(g))
    # copy shares the root, new local layer
    c = ci.methods.get("copy")
    text = L.text(c.node, body_only=True)
    rets_c = [r_ for r_ in ast.walk(c.node) if isinstance(r_, ast.Return)]
    new_c = {src(a_.targets[0]) for a_ in ast.walk(c.node)
             if isinstance(a_, ast.Assign) and src(a_.value) == "Scope(self)"}
    rep.check(bool(rets_c) and all(src(r_.value) in new_c for r_ in rets_c),
              "R05.6", c.qualname, "copy() returns the new layer (not the "
              "shared root: a macro would run in its caller's scope)",
              construct="copy-returns-new-layer", where=L.where(c))
    rep.check("Scope(self)" in text and
              ("getattr(self, '_root', self)" in text) and
              "inst._root = root" in text, "R05.6", c.qualname,
              "copy() makes a new local layer (Scope(self)) that shares the "
              "root of the original", construct="copy", where=L.where(c),
              detail=text)
    sgl = ci.methods.get("set_global")
    text = L.text(sgl.node, body_only=True)
    rep.check("getattr(self, '_root', self)" in text and
              "root[name] = value" in text, "R05.6", sgl.qualname,
              "set_global writes the shared root", construct="set_global",
              where=L.where(sgl), detail=text)
    gi = ci.methods.get("__getitem__")
    t = L.text(gi.node, body_only=True)
    rep.check("value = self.get(key, marker)" in t and
              "if value is marker: raise KeyError(key)" in t and
              "return value" in t, "R05.6", gi.qualname,
              "scope[key] goes through the layered lookup and raises "
              "KeyError only if neither layer has it", construct="getitem",
              where=L.where(gi), detail=t)
    co = ci.methods.get("__contains__")
    t = L.text(co.node, body_only=True)
    rep.check("return self.get(key, marker) is not marker" in t, "R05.6",
              co.qualname, "'key in scope' sees both layers",
              construct="contains", where=L.where(co), detail=t)
    it_ = ci.methods.get("__iter__")
    t = L.text(it_.node)
    rep.check("yield from super().__iter__()" in t and
              "for key in root:" in t and
              "if not super().__contains__(key): yield key" in t, "R05.6",
              it_.qualname, "iteration yields local names, then root names "
              "that are not shadowed", construct="iter", where=L.where(it_))
    # the root layer is walked when there IS one
    loops = [n for n in ast.walk(it_.node) if isinstance(n, ast.For)
             and src(n.iter) == "root"]
    okr = bool(loops)
    for lp in loops:
        gs = [(src(t_), v_) for t_, v_ in L.guards_of(lp, it_.node)
              if isinstance(t_, ast.expr)]
        if not L.cond_holds(gs, "root is not marker", True):
            okr = False
    rep.check(okr, "R05.6", it_.qualname, "the shared root is iterated "
              "exactly when the scope has one", construct="iter-root-guard",
              where=L.where(it_))
    # reading a scope changes nothing: only set_global / copy / the
    # constructor write, every other method calls no mutating method of a
    # dict and stores nothing (a lookup that pops would make a global
    # readable once)
    WRITERS = {"set_global", "copy", "__init__", "__setitem__", "set_local",
               "setLocal", "setGlobal", "update"}
    MUT = {"pop", "popitem", "clear", "update", "setdefault", "__setitem__",
           "__delitem__"}
    dirty = []
    for mn, mf in sorted(ci.methods.items()):
        if mn in WRITERS:
            continue
        for n in ast.walk(mf.node):
            if isinstance(n, ast.Call) and isinstance(
                    n.func, ast.Attribute) and n.func.attr in MUT:
                dirty.append("%s: %s" % (mn, src(n)[:50]))
            elif isinstance(n, (ast.Assign, ast.AugAssign, ast.Delete)):
                tg = n.targets if not isinstance(n, ast.AugAssign) \
                    else [n.target]
                for t_ in tg:
                    if isinstance(t_, ast.Subscript):
                        dirty.append("%s: %s" % (mn, src(t_)[:50]))
    rep.check(not dirty, "R05.6", site, "the reading methods of Scope "
              "(get, [], in, iteration, get_name ...) leave both layers "
              "unmodified", construct="readers-pure", detail="; ".join(dirty))
    gn = ci.methods.get("get_name")
    text = L.text(gn.node, body_only=True)
    rep.check("raise NameError(key)" in text and
              "self.get(key, marker)" in text, "R05.6", gn.qualname,
              "get_name raises NameError for an undefined name (a caught "
              "class of the pipe operator)", construct="get_name",
              where=L.where(gn), detail=text)


def _abnormal_exit_rule(repo, rep):
    """The save/restore brackets of R05.1 are straight-line code: a failure
    inside the body skips the restore.  That is harmless while the
    exception leaves the render function -- but tal:on-error catches it
    and rendering continues in the same scope.  Every emitter that emits an
    exception handler which does not re-raise must therefore restore the
    scope itself."""
    comp = repo.cls("chameleon.compiler.Compiler")
    n = 0
    for name, m in sorted(comp.methods.items()):
        if not name.startswith("visit_"):
            continue
        res = L.emission(repo, m.qualname)
        lin = L.Lin(res.emission)
        for i, (it, conds, path) in enumerate(lin.rows):
            if not (isinstance(it, A.Py) and it.kind == "Try"):
                continue
            # does the body contain user content (a child emission)?
            body_kids = [w for w in A.walk(it.f.get("body"))
                         if isinstance(w, A.Child)]
            if not body_kids:
                continue
            for h in A.items_of(it.f.get("handlers")):
                if not (isinstance(h, A.Py) and h.kind == "ExceptHandler"):
                    continue
                hitems = [w for w in A.walk(h.f.get("body"))
                          if isinstance(w, (A.Frag, A.Child, A.Py))]
                reraises = any(
                    (isinstance(w, A.Frag) and L.frag_find(w, "raise")) or
                    (isinstance(w, A.Py) and w.kind == "Raise")
                    for w in hitems)
                if reraises:
                    continue
                n += 1
                # the snapshot: a fragment before the try, same emitter
                snaps = [(j, w) for j, (w, c_, p_) in enumerate(lin.rows[:i])
                         if isinstance(w, A.Frag) and
                         L.frag_find(w, "_S = _D.copy(econtext)")]
                ok = False
                detail = "no 'X = dict.copy(econtext)' before the try"
                if snaps:
                    j, sf = snaps[-1]
                    b = L.frag_find(sf, "_S = _D.copy(econtext)")[0][1]
                    skey = L.name_key(sf, b["_S"])
                    dval = L.slot_value(sf, b["_D"])
                    per_node = skey[0] != "lit" and "id(node)" in str(skey)
                    is_dict = dval is not None and "dict" in A.show(dval)
                    # the leading code fragments of the handler, as one
                    # statement list (the restore may be emitted in pieces)
                    lead = []
                    for w in hitems:
                        if isinstance(w, A.Frag) and w.tree is not None:
                            lead.append(w)
                        else:
                            break
                    restored = False
                    bare_merge = False
                    pos = {}
                    k = 0
                    same = False
                    filt_ok = False
                    gsnaps = {}
                    for j2, (w2, c2_, p2_) in enumerate(lin.rows[:i]):
                        if isinstance(w2, A.Frag):
                            for node2, b2 in L.frag_find(
                                    w2, "_G = rcontext.copy()"):
                                if isinstance(b2["_G"], ast.Name):
                                    v2 = L.slot_value(w2, b2["_G"])
                                    if v2 is not None and A.per_node(v2)[0]:
                                        gsnaps[L.name_key(w2, b2["_G"])] = j2
                    for w in lead:
                        for st in w.tree.body:
                            k += 1
                            if not isinstance(st, ast.Expr):
                                continue
                            e = st.value
                            if L.match(L.pat("_D.clear(econtext)", "expr"),
                                       e) is not None:
                                pos.setdefault("clear", k)
                                continue
                            mu = L.match(L.pat("econtext.update(_A)",
                                               "expr"), e)
                            if mu is None:
                                continue
                            arg = mu["_A"]
                            if "rcontext" in src(arg):
                                pos.setdefault("globals", k)
                                if isinstance(arg, ast.Name):
                                    bare_merge = True
                                    filt_ok = True
                                else:
                                    for cmp_ in ast.walk(arg):
                                        mt = L.match(L.pat(
                                            "_S.get(_K, __marker) is not _V",
                                            "expr"), cmp_) if isinstance(
                                                cmp_, ast.Compare) else None
                                        if mt is not None and isinstance(
                                                mt["_S"], ast.Name) and \
                                                L.name_key(w, mt["_S"]) \
                                                in gsnaps:
                                            filt_ok = True
                            elif isinstance(arg, ast.Name) and \
                                    L.name_key(w, arg) == skey:
                                pos.setdefault("snapshot", k)
                                same = True
                    # order: clear, then the snapshot, then the globals on
                    # top (a global defined inside the failed element must
                    # survive the restore)
                    ordered = len(pos) == 3 and pos["clear"] < \
                        pos["snapshot"] < pos["globals"]
                    restored = same and ordered and filt_ok
                    ok = per_node and is_dict and restored
                    detail = "snapshot per node: %s, dict.copy: %s, handler " \
                             "starts with clear/update(snapshot)/update(" \
                             "rcontext): %s" % (per_node, is_dict, restored)
                rep.check(ok, "R05.8", m.qualname, "the handler that ends a "
                          "failure's propagation first restores the local "
                          "variables from a per-node snapshot taken before "
                          "the body, then re-applies the globals: bindings "
                          "of elements cut short by the failure are undone",
                          construct="handler-restores-scope",
                          where=L.where(m), detail=detail)
                rep.check(ok and not bare_merge, "R05.8", m.qualname,
                          "the globals re-applied by the handler are those "
                          "defined or re-assigned since the element was "
                          "entered (per-node snapshot of rcontext): a local "
                          "that shadows an older global is not replaced by "
                          "a handled failure",
                          construct="handler-merge-overwrites-shadow",
                          where=L.where(m))
    rep.require_min("R05.8", 1, "swallowing handlers around child content "
                                "(tal:on-error)")


def _restore_vs_global(repo, rep):
    """'global definitions stay visible for the rest of the rendering': the
    restore of a local definition of the same name, when the enclosing
    element ends, must not erase a global defined meanwhile.  At the top
    level the variable scope and the render-wide root are one dictionary, so
    'del econtext[name]' / 'econtext[name] = backup' is exactly that
    erasure unless the restore consults rcontext."""
    f = repo.func(COMP + "_leave_assignment")
    r = L.emission(repo, f.qualname)
    v = r.out if getattr(r, "is_gen", False) else r.value
    consults = any(isinstance(w, A.Frag) and w.tree is not None and any(
        isinstance(n, ast.Name) and n.id == "rcontext"
        for n in ast.walk(w.tree)) for w in A.walk(v))
    rep.check(consults, "R05.3", f.qualname, "the restore of a local "
              "definition keeps (or re-applies) a global definition of the "
              "same name made inside the element", construct="restore-"
              "erases-global", where=L.where(f),
              detail="<div tal:define=\"x 1\"><i tal:define=\"global x "
                     "2\"/></div>${x} : x is undefined after the div")


def _per_name_rule(repo, rep):
    """One define / repeat may bind several names: each needs a backup local
    of its own (per node AND per name), the same one on both sides; and the
    identity the backups are named after -- the names object of the node --
    must be a fresh object per element, so the statement parser may neither
    cache nor share its results."""
    keys = {}
    ordinal = {}
    for q in ("_enter_assignment", "_leave_assignment"):
        f = repo.func(COMP + q)
        r = L.emission(repo, f.qualname)
        v = r.out if getattr(r, "is_gen", False) else r.value
        loops = [w for w in A.walk(v) if isinstance(w, A.Loop)]
        ok = False
        detail = "no loop over the names"
        for lp in loops:
            for w in A.walk(lp.body):
                if isinstance(w, A.Frag) and "BACKUP" in w.slots:
                    ident = w.slots["BACKUP"]
                    txt = A.show(ident, limit=8)
                    okn, why = A.per_node(ident)
                    per_name = ("each(%s)" % A.show(lp.iter, limit=3)) in txt \
                        or "each(" in txt
                    ok = okn and per_name
                    keys[q] = txt
                    # ... and no two names of the list share one: the name
                    # is mangled ('a-b' and 'a_b' read the same), so it is
                    # preceded by its position in the list
                    pre = ident.prefix if isinstance(ident, A.Ident) else None
                    it_txt = A.show(lp.iter, limit=4)
                    ordinal[q] = isinstance(pre, A.Fmt) and \
                        isinstance(pre.fmt, str) and \
                        bool(re.match(r"^[A-Za-z]*%d_", pre.fmt)) and \
                        it_txt.startswith("enumerate(") and bool(pre.args) \
                        and A.show(pre.args[0], limit=6) == \
                        "each(%s)[0]" % it_txt
                    detail = "%s (per node: %s, per name: %s)" % (
                        txt, okn, per_name)
        rep.check(ok, "R05.2", f.qualname, "the backup local embeds the "
                  "node's identity and the variable's own name: several "
                  "names bound by one element do not share a backup",
                  construct="backup-per-name", where=L.where(f),
                  detail=detail)
    if ordinal and all(ordinal.values()) and len(ordinal) == 2:
        rep.check(True, "R05.2", COMP + "_enter_assignment", "two names of "
                  "one definition list never share a backup local: its name "
                  "leads with the position of the variable in the list "
                  "(tal:define=\"(a-b, a_b) ...\" mangles both names to "
                  "a_b)", construct="backup-name-injective",
                  detail=str(sorted(keys.values())[:1]))
    else:
        from . import c09
        L.borrow(repo, rep, "R05.2", "C09", c09._keys,
                 ("slot-key-injective",))
    rep.check(len(set(keys.values())) == 1 and len(keys) == 2, "R05.2",
              COMP + "_leave_assignment", "save and restore name the backup "
              "local by the same expression", construct="backup-same-name",
              detail=str(keys))
    identifiers_safe(repo, rep)
    # freshness of the identity source
    okf, detail, f = names_object_fresh(repo)
    rep.check(okf, "R05.2", f.qualname,
              "every call builds and returns a new result (no "
              "memoisation, no module-level table): the compiler names "
              "its backup locals after the identity of each element's "
              "own names object", construct="fresh-names-object",
              where=L.where(f), detail=detail)


def identifiers_safe(repo, rep, rule="R05.2"):
    """a variable name may contain '-' (tal.NAME); whatever goes into the
    name of a generated local has to be made identifier-safe"""
    n, bad = L.unsafe_identifier_prefixes(repo)
    if n < 10:
        raise AnalysisError("only %d identifier() call sites found" % n)
    seen = set()
    for fn, call, why in bad:
        if fn.qualname in seen:
            continue
        seen.add(fn.qualname)
        rep.bad(rule, fn.qualname, "the prefix of a generated identifier is "
                "identifier-safe: a constant, formatted with numbers only, "
                "or mangled (a variable named 'my-item' must not yield "
                "'__backup_my-item_...')",
                construct="identifier-safe:" + fn.name, detail=why,
                where=L.where(fn, call.lineno))
    rep.check(not bad, rule, "chameleon.compiler.identifier",
              "every generated identifier is a Python identifier whatever "
              "the template's variable names are (%d call sites)" % n,
              construct="identifier-safe", detail="; ".join(
                  "%s: %s" % (f_.name, w_) for f_, _, w_ in bad[:4]))


def names_object_fresh(repo):
    for q in ("chameleon.tal.parse_defines",):
        f = repo.func(q)
        mod = f.module
        module_names = set(mod.assigns) | set(mod.functions)
        deco = [src(d) for d in f.node.decorator_list]
        local_lists = {t.id for n in ast.walk(f.node)
                       if isinstance(n, ast.Assign)
                       and isinstance(n.value, (ast.List, ast.ListComp))
                       for t in n.targets if isinstance(t, ast.Name)}
        rets = [n for n in ast.walk(f.node) if isinstance(n, ast.Return)
                and n.value is not None]
        fresh = bool(rets) and all(
            isinstance(r_.value, ast.Name) and r_.value.id in local_lists
            or isinstance(r_.value, (ast.List, ast.ListComp))
            for r_ in rets)
        shared = []
        for n in ast.walk(f.node):
            if isinstance(n, ast.Subscript) and isinstance(
                    n.value, ast.Name) and n.value.id in mod.assigns and \
                    isinstance(mod.assigns[n.value.id][-1],
                               (ast.Dict, ast.List, ast.Call)):
                shared.append(src(n))
            if isinstance(n, (ast.Global, ast.Nonlocal)):
                shared.append(src(n))
        return (not deco and fresh and not shared,
                "decorators %s, shared %s, returns fresh list: %s" % (
                    deco, shared[:3], fresh), f)
