"""C02 -- inserted values are escaped and cannot change document structure."""
from __future__ import annotations

import ast

from .. import absint as A
from .. import lib as L
from .. import paths as P
from .. import rx
from ..core import AnalysisError, src

COMP = "chameleon.compiler."
PROG = "chameleon.zpt.program.MacroProgram."

BASE = {"&", "<", ">"}
ENTITY = {"&": "&amp;", "<": "&lt;", ">": "&gt;"}


def _keyword_case(repo, rep):
    """The escape set of tal:content / replace / on-error is chosen by
    comparing the captured keyword with 'text': the keyword must be captured
    in exactly that spelling (no IGNORECASE on the statement regex), or
    'Text x' would get the empty escape set."""
    import re as _re
    import re._parser as _rp
    rc = repo.const("chameleon.tal", "SUBST_RE")
    pat = rc.pattern if isinstance(rc.pattern, str) else \
        rc.pattern.decode("latin-1")
    try:
        flags = _rp.parse(pat, rc.flags).state.flags
    except Exception as exc:
        raise AnalysisError("cannot parse SUBST_RE: %s" % exc)
    rep.check(not (flags & _re.I), "R02.1", "chameleon.tal.SUBST_RE",
              "the text/structure keyword is matched case-sensitively, as "
              "the consumer compares it (key == 'text')",
              construct="keyword-case", detail=pat)
    # every site that builds a content node gets its keyword from
    # parse_substitution, which answers 'text' when none is written
    ps = repo.func("chameleon.tal.parse_substitution")
    tps = L.text(ps.node)
    rep.check("if not key: key = 'text'" in tps and
              "return (key, expression)" in tps, "R02.1", ps.qualname,
              "a substitution without keyword is 'text' for every caller "
              "(content, replace and on-error alike)",
              construct="keyword-default", where=L.where(ps))
    f = repo.func("chameleon.zpt.program.MacroProgram._make_content_node")
    cmp_ = [n for n in ast.walk(f.node) if isinstance(n, ast.Compare)
            and src(n.left) == "key"]
    rep.check(bool(cmp_) and all(
        len(c.ops) == 1 and isinstance(c.ops[0], ast.Eq) and
        isinstance(c.comparators[0], ast.Constant) and
        c.comparators[0].value == "text" for c in cmp_), "R02.1",
        f.qualname, "the escaping keyword is 'text': anything else is the "
        "explicit structure opt-out", construct="keyword-compare",
        where=L.where(f))


def _quote_never_empty(repo, rep, rule="R02.1"):
    """The escaping routine replaces the attribute's quote character by its
    entity: with an *empty* quote (a value written without quotes)
    str.replace('', '&#0;') puts the entity between all characters and
    nothing delimits the value.  Wherever a computed value goes into an
    attribute that has a value, the quote handed on must be non-empty."""
    f = repo.func("chameleon.zpt.program.MacroProgram."
                  "_create_attributes_nodes")
    v = L.emission(repo, f.qualname).value
    PFX = "each(enumerate(prepared))[1]"
    raw = PFX + "[2]"
    n = 0
    bad = []
    sites = []
    for w in A.walk(v):
        if isinstance(w, A.NodeV) and w.kind == "Attribute" and \
                len(w.args) > 2:
            sites.append(("Attribute.quote", w.args[2]))
        elif isinstance(w, A.NodeV) and w.kind in ("Substitution",) and \
                len(w.args) > 1 and isinstance(w.args[1], A.Tup):
            its = A.items_of(w.args[1])
            if len(its) == 4:
                sites.append(("escape-set quote", its[3]))
    for what, q in sites:
        n += 1
        t = A.show(q, limit=8)
        dq, sq = chr(34), chr(39)
        quotes = (sq + dq + sq, dq + sq + dq, repr(dq), repr(sq))
        # ... for both kinds of computed value: a tal:attributes entry
        # ([5] is not None) and ${...} in the static text
        guarded = isinstance(q, A.Alt) and ("not " + raw) in q.test and \
            A.show(q.a) in quotes and "[1][5] is not None" in q.test and \
            "'${' in" in q.test
        if t == raw or (raw in t and not guarded):
            bad.append("%s = %s" % (what, t[:80]))
    rep.check(n >= 2 and not bad, rule, f.qualname, "the quote character "
              "given to the escaping machinery for a computed attribute "
              "value is never the empty quote of an unquoted static value",
              construct="quote-never-empty", where=L.where(f),
              detail="; ".join(bad[:2]))


def _dict_keys_and_nesting(repo, rep):
    # (1) the *names* written by an attribute dictionary come from the
    # value too: they must be checked or escaped before they are appended
    f = repo.func(COMP + "Compiler.visit_DictAttributes")
    r = L.emission(repo, f.qualname)
    raw = False
    seen = False
    for w in A.walk(r.emission):
        if isinstance(w, A.Frag) and w.tree is not None:
            loops = [n for n in ast.walk(w.tree) if isinstance(n, ast.For)
                     and isinstance(n.target, ast.Tuple)]
            for lp in loops:
                key = src(lp.target.elts[0])
                for c in ast.walk(lp):
                    if isinstance(c, ast.Call) and src(c.func) == "__append":
                        seen = True
                        uses = [x for x in ast.walk(c)
                                if isinstance(x, ast.Name) and x.id == key]
                        checked = any(
                            isinstance(x, ast.Call) and any(
                                isinstance(y, ast.Name) and y.id == key
                                for y in ast.walk(x)) and
                            src(x.func) not in ("__append",)
                            for x in ast.walk(lp)
                            if isinstance(x, ast.Call) and
                            src(x.func) not in ("__append", "bool",
                                                "TARGET.items"))
                        if uses and not checked:
                            raw = True
    rep.check(seen and not raw, "R02.2", f.qualname, "the attribute names "
              "taken from a dictionary are validated or escaped before they "
              "are written (a key is part of the value: it may contain "
              "white space, quotes or '>')", construct="dict-key-raw",
              where=L.where(f))
    # (2) one escape per inserted value: an expression type that compiles
    # nested ${...} with the *escaping* engine it was given (string:) has
    # its parts escaped, and the caller's assign_text escapes the joined
    # result once more
    se = repo.func("chameleon.tales.StringExpr.__call__")
    passes_engine = any(isinstance(n, ast.Call) and len(n.args) == 2 and
                        isinstance(n.args[1], ast.Name) and
                        n.args[1].id == se.node.args.args[2].arg
                        for n in ast.walk(se.node))
    gc = repo.func(COMP + "ExpressionEngine.get_compiler")
    t = L.text(gc.node)
    outer_converts = "stmts = expression(target, engine)" in t and \
        "method(target, char_escape, *args)" in t
    rep.check(not (passes_engine and outer_converts), "R02.2", se.qualname,
              "nested ${...} of a string: expression are converted without "
              "escaping when the enclosing assign_text escapes the joined "
              "result (one escape per inserted value)",
              construct="nested-interpolation-escapes-twice",
              where=L.where(se))


def _content_total(repo, rep):
    _keyword_case(repo, rep)
    _dict_keys_and_nesting(repo, rep)
    _quote_never_empty(repo, rep)
    from .c01 import content_node_total
    okc, detail = content_node_total(repo)
    rep.check(okc, "R02.1", "chameleon.zpt.program.MacroProgram."
              "_make_content_node", "every tal:content / tal:replace / "
              "on-error expression goes through Content with the escape set "
              "of its keyword (no raw Text shortcut)",
              construct="content-total", detail=detail)


def run(repo, rep, tier):
    rep.explanation = (
        "A taint problem decided on the code itself.  (1) Sinks: every "
        "construction of a Substitution / Content / DictAttributes node in "
        "zpt/program.py is found by abstract interpretation and its escape "
        "set must be one of the allowed forms for that site.  (2) Routing: "
        "the emitters must send a non-empty escape set to __quote and append "
        "only the converted value.  (3) __quote itself is a fixed fragment "
        "pasted into every render function: all of its syntactic paths are "
        "enumerated and a taint lattice raw -> converted -> escaped{&,<,>,q} "
        "is run on the value parameter; every path that returns a string "
        "derived from the value passes replace('&'), replace('<'), "
        "replace('>') and replace(quote) in this order ('&' first).  "
        "(4) The pre-check regex's character class covers every character "
        "some path replaces.  All values x all sites are covered because "
        "the analysis looks at the code that handles them, not at samples.")
    rep.assumptions = [
        "str.replace / re.search semantics of CPython",
        "a value whose exact type is int or float has a harmless str()",
        "the result of the translation function is trusted like template "
        "text when it translates static template text (i18n:attributes)",
    ]
    rep.rule("R02.1", "sink table: escape set of every Substitution/Content/"
                      "DictAttributes construction is allowed for its site; "
                      "the escaped quote is the delimiter that is written")
    rep.rule("R02.2", "routing: non-empty escape set -> __quote, else "
                      "__convert; conversion after evaluation; only the "
                      "converted value is appended")
    rep.rule("R02.3", "all paths of the convert-and-escape routine escape "
                      "& < > and the quote, '&' first; only None, default, "
                      "exact int/float and __html__ bypass")
    rep.rule("R02.4", "the needs-escape pre-check covers every character "
                      "that is escaped")
    rep.rule("R02.5", "opt-outs are exactly: structure, CDATA, text mode")
    _sinks(repo, rep)
    _content_total(repo, rep)
    _routing(repo, rep)
    _quote_paths(repo, rep, tier)
    _entities(repo, rep)
    _precheck(repo, rep)
    # the opt-out "text mode" is a property of the template object: a shared
    # loader must not answer a request for a markup template with the text
    # template it built earlier for the same file (C14 owns the registry key)
    # an <?xml ...?> declaration is dissected like a tag (its ${...} values
    # are attribute values, escaped with their quote): identify() (C03)
    from . import c03 as _c03
    L.borrow(repo, rep, "R02.1", "C03", _c03.parser_details,
             ("identify-ends", "identify-kinds"), minimum=2)
    from . import c14
    L.borrow(repo, rep, "R02.5", "C14", c14._publish, ("registry-key",))
    # an unquoted attribute value that receives a computed value is quoted
    # (C09 owns the element details)
    from . import c09 as _c09
    L.borrow(repo, rep, "R02.1", "C09", _c09.element_details,
             ("quote-when-computed",))
    # the needs-escape pre-check is a regex search: its result is compared
    # with None (with anything else every value would take the escaping
    # path, and a character no entity exists for comes out as '&#0;')
    qf = None
    mod_ = repo.module("chameleon.compiler")
    fac_ = L.interp(repo)._factory(
        mod_.assigns["emit_func_convert_and_escape"][-1], mod_,
        "emit_func_convert_and_escape")
    if fac_ is None:
        raise AnalysisError("emit_func_convert_and_escape vanished")
    import textwrap as _tw
    qt = ast.parse(_tw.dedent(fac_.node[1]["source"]))
    pre = [n for n in ast.walk(qt) if isinstance(n, ast.Compare)
           and "needs_escape" in src(n.left)]
    rep.check(bool(pre) and all(
        len(c.ops) == 1 and isinstance(c.ops[0], (ast.IsNot, ast.Is))
        and isinstance(c.comparators[0], ast.Constant)
        and c.comparators[0].value is None for c in pre), "R02.4",
        "chameleon.compiler.emit_func_convert_and_escape", "the result of "
        "the needs-escape search is tested against None",
        construct="precheck-none", detail=str([src(c) for c in pre]))
    # ... and the module cache: the mode is part of the key (C15 owns it)
    from . import c15 as _c15
    L.borrow(repo, rep, "R02.5", "C15", _c15._coverage,
             ("unhashed:mode",), minimum=1)
    # a node's settings (its default marker, its escape set) reach the
    # engine that compiles its expression
    L.engine_fields_rule(repo, rep, "R02.2")
    # the text of an interpolated expression is compiled with the escape
    # set of its place, whether or not the text is a translation candidate
    # (C06 owns the interpolation loop)
    from . import c06 as _c06
    L.borrow(repo, rep, "R02.2", "C06", _c06._decode,
             ("decode-before-parse",))
    # a bytes value reaches the escaping step as text on every path: what
    # render() hands to the generated code as '__decode' is bytes.decode
    # itself or a function that returns a bytes.decode(...) result -- bytes
    # passed through would skip the escape (the pre-check cannot search them)
    pr = repo.func("chameleon.zpt.template.PageTemplate.render")
    dec_ok, dec_n = True, 0
    for n_ in ast.walk(pr.node):
        if isinstance(n_, ast.Assign) and src(n_.targets[0]) == "decode":
            dec_n += 1
            vals = [n_.value]
            while vals:
                v_ = vals.pop()
                if isinstance(v_, ast.IfExp):
                    vals += [v_.body, v_.orelse]
                elif src(v_) != "bytes.decode":
                    dec_ok = False
        if isinstance(n_, ast.FunctionDef) and n_.name == "decode":
            dec_n += 1
            rets = [r_ for r_ in ast.walk(n_) if isinstance(r_, ast.Return)]
            if not rets or not all(
                    isinstance(r_.value, ast.Call) and
                    src(r_.value.func) in ("bytes.decode", "inst.decode")
                    for r_ in rets):
                dec_ok = False
    rep.check(dec_ok and dec_n >= 2, "R02.2", pr.qualname, "the decoder "
              "handed to the generated code returns text on every path",
              construct="decode-returns-text", where=L.where(pr))
    L.state_rule(repo, rep)


# ---------------------------------------------------------------------------


def _escape_forms(v):
    """-> list of (conds_text, tuple-of-element-reprs or None)"""
    if isinstance(v, A.Tup):
        return [("", tuple(v.items))]
    if isinstance(v, A.Const) and v.value == ():
        return [("", ())]
    if isinstance(v, A.Alt):
        out = []
        for c, t in _escape_forms(v.a):
            out.append(((v.test + " " + c).strip(), t))
        for c, t in _escape_forms(v.b):
            out.append((("not(%s) " % v.test + c).strip(), t))
        return out
    return [("", None)]


def _chars(tup):
    chars, others = set(), []
    for it in tup:
        if isinstance(it, A.Const) and isinstance(it.value, str):
            chars.add(it.value)
        else:
            others.append(it)
    return chars, others


SINK_FIELDS = {
    "Substitution": ("value", "char_escape", "default", "default_marker",
                     "literal_false"),
    "Content": ("expression", "char_escape", "translate"),
    "DictAttributes": ("expression", "char_escape", "quote", "exclude",
                       "bool_names"),
    "Attribute": ("name", "expression", "quote", "eq", "space", "default",
                  "filters"),
}

# site -> allowed guard under which the escape set may be empty
OPTOUT = {
    "visit_text": ("self.escape", "text mode (escape=False)"),
    "visit_comment": ("self.escape", "text mode (escape=False)"),
    "visit_cdata": (None, "CDATA section"),
    "_make_content_node": ("key == 'text'", "structure keyword"),
}


def _sinks(repo, rep):
    n = 0
    optouts = []
    seen_lines = set()
    for fname in ("visit_text", "visit_comment", "visit_cdata",
                  "_make_content_node", "_create_attributes_nodes",
                  "visit_processing_instruction", "visit_default",
                  "visit_element"):
        func = repo.func(PROG + fname)
        res = L.emission(repo, PROG + fname)
        rep.count("functions_interpreted")
        for w in A.walk(res.value):
            if not (isinstance(w, A.NodeV) and w.kind in (
                    "Substitution", "Content", "DictAttributes")):
                continue
            if w.lineno in seen_lines:
                continue    # same construction reached through a helper
            seen_lines.add(w.lineno)
            n += 1
            site = func.qualname
            wh = L.where(func, w.lineno)
            ce = w.arg("char_escape", SINK_FIELDS[w.kind])
            if ce is None:
                rep.bad("R02.1", site, "%s node is constructed with an "
                        "escape set" % w.kind, "no-escape-set", where=wh)
                continue
            for cond, tup in _escape_forms(ce):
                what = "%s constructed in %s%s" % (
                    w.kind, fname, " when " + cond if cond else "")
                if tup is None:
                    rep.bad("R02.1", site, "escape set of %s is a literal "
                            "tuple" % what, "escape-not-literal",
                            A.show(ce), wh)
                    continue
                chars, others = _chars(tup)
                if not tup:
                    optouts.append((fname, cond, wh))
                    guard, why = OPTOUT.get(fname, ("<none>", ""))
                    if guard is None:
                        ok = True
                    else:
                        ok = cond.strip() == "not(%s)" % guard
                    rep.check(ok, "R02.5", site,
                              "an empty escape set in %s is produced only by "
                              "the documented opt-out (%s)" % (fname, why or
                                                               "none allowed"),
                              construct="optout:" + fname, where=wh,
                              detail="empty under [%s]" % cond)
                    continue
                rep.check(BASE <= chars, "R02.1", site,
                          "escape set of %s contains & < >" % what,
                          construct="base-chars:" + fname, where=wh,
                          detail=str(sorted(chars)))
                if fname == "_create_attributes_nodes":
                    _quote_identity(rep, func, res, w, chars, others, wh)
    rep.require_min("R02.1", 6, "text, comment, content, attribute "
                                "substitution (2) and dict attributes")
    rep.check(len(optouts) == 4, "R02.5", PROG + "*",
              "exactly four producers of an empty escape set exist (text "
              "mode in text and comments, CDATA, structure keyword)",
              construct="optout-census",
              detail=str([(f, c) for f, c, _ in optouts]))
    # StructureExpr is the fourth documented opt-out: wraps in Markup
    f = repo.func("chameleon.tales.StructureExpr.__call__")
    ci = repo.cls("chameleon.tales.StructureExpr")
    wc = ci.attrs.get("wrapper_class")
    rep.check(wc is not None and src(wc) == "Symbol(Markup)", "R02.5",
              ci.qualname, "structure: wraps its value in Markup (whose "
              "__html__ is the documented opt-out)", construct="structure-expr",
              detail=src(wc) if wc is not None else "missing")
    mk = repo.cls("chameleon.utils.Markup")
    rep.check("__html__" in mk.methods, "R02.5", mk.qualname,
              "Markup offers __html__", construct="markup-html")


def _quote_identity(rep, func, res, node, chars, others, wh):
    """In attribute context the escaped quote must be the delimiter."""
    site = func.qualname
    if node.kind == "DictAttributes":
        q = node.arg("quote", SINK_FIELDS["DictAttributes"])
        ok = isinstance(q, A.Const) and q.value in chars and \
            q.value in ('"', "'")
        rep.check(ok, "R02.1", site,
                  "dict attributes are written with a quote character that is "
                  "in their escape set", construct="dict-quote", where=wh,
                  detail="quote=%s escape=%s" % (A.show(q), sorted(chars)))
        return
    # Substitution in attribute context: the non-constant member of the escape
    # set must be the very value handed to nodes.Attribute as quote
    rep.check(len(others) == 1, "R02.1", site,
              "the attribute escape set contains the attribute's own quote",
              construct="attr-quote-present", where=wh,
              detail=A.show(A.Tup(others)))
    if len(others) != 1:
        return
    qv = others[0]
    attrs = [w for w in A.walk(res.value)
             if isinstance(w, A.NodeV) and w.kind == "Attribute"]
    ok = bool(attrs) and all(
        a.arg("quote", SINK_FIELDS["Attribute"]) is qv or
        A.show(a.arg("quote", SINK_FIELDS["Attribute"])) == A.show(qv)
        for a in attrs)
    rep.check(ok, "R02.1", site,
              "the quote that is escaped is the quote the attribute is "
              "written with (same definition)", construct="attr-quote-same",
              where=wh, detail="escaped %s; Attribute.quote %s" % (
                  A.show(qv), [A.show(a.arg("quote", SINK_FIELDS["Attribute"]))
                               for a in attrs][:2]))


# ---------------------------------------------------------------------------


def _routing(repo, rep):
    # visit_Content
    func = repo.func(COMP + "Compiler.visit_Content")
    res = L.emission(repo, COMP + "Compiler.visit_Content")
    lin = L.Lin(res.emission)
    site = func.qualname
    wh = L.where(func)
    ev = lin.index(lambda it: isinstance(it, A.Eval))
    q = c = ap = None
    for i, (it, conds, _) in enumerate(lin.rows):
        if not isinstance(it, A.Frag):
            continue
        for node, b in L.frag_find(it, "_N = __quote(_N, _Q, _E, _D, _M)"):
            q = (i, conds, it, b)
        for node, b in L.frag_find(it, "_N = __convert(_N)"):
            c = (i, conds, it, b)
        for node, b in L.frag_find(it, "if _N is not None: __append(_N)"):
            ap = (i, conds, it, b)
    rep.check(q is not None and L.polarity(q[1], "node.char_escape") is True,
              "R02.2", site, "content with a non-empty escape set is converted "
              "by the escaping routine (__quote)", construct="content-quote",
              where=wh, detail=L.conds_text(q[1]) if q else "no __quote call")
    rep.check(c is not None and L.polarity(c[1], "node.char_escape") is False,
              "R02.2", site, "only content with an empty escape set takes the "
              "non-escaping conversion (__convert)",
              construct="content-convert", where=wh,
              detail=L.conds_text(c[1]) if c else "no __convert call")
    # ... whatever else is set on the node (a translated value is escaped
    # like any other): the escape set is the only condition on the routing
    for row, what in ((q, "escaping"), (c, "non-escaping")):
        if row is None:
            continue
        others = [t for k, t in row[1] if k != "loop" and
                  "char_escape" not in t]
        rep.check(not others, "R02.2", site, "the %s conversion of content "
                  "depends on the escape set only (not on translation or "
                  "any other node field)" % what,
                  construct="content-routing-only-escape:" + what, where=wh,
                  detail="also conditioned on %s" % others)
    if q:
        # (... and on nothing at run time either: the call is a statement
        # of its fragment, not one arm of a test on the value's type -- a
        # fast path in front of it decides with its own idea of 'number')
        qnode = L.frag_find(q[2], "_N = __quote(_N, _Q, _E, _D, _M)")[0][0]
        rep.check(q[2].tree is not None and any(
            st is qnode for st in getattr(q[2].tree, "body", [])), "R02.2",
            site, "every value of escaped content goes through the escaping "
            "routine (no shortcut on the value's type in front of it)",
            construct="content-quote-unconditional", where=wh)
        qarg = q[3]["_Q"]
        rep.check(isinstance(qarg, ast.Constant) and qarg.value is None,
                  "R02.2", site, "element text is escaped without a quote "
                  "character", construct="content-quote-arg", where=wh)
    if q and c and ap:
        target = L.name_key(ap[2], ap[3]["_N"])
        ok = (ap[0] > q[0] and ap[0] > c[0] and ev >= 0 and q[0] > ev and
              target == L.name_key(q[2], q[3]["_N"]) ==
              L.name_key(c[2], c[3]["_N"]) and
              target == A.ident_key(lin.item(ev).target))
        rep.check(ok, "R02.2", site,
                  "evaluate -> convert -> append, all on the same generated "
                  "local, and the append is unconditional w.r.t. escaping",
                  construct="content-order", where=wh)
        rep.check(L.polarity(ap[1], "node.char_escape") is None, "R02.2", site,
                  "the only append of the content follows both conversions",
                  construct="content-append", where=wh)
    tr = [i for i, (it, _, _) in enumerate(lin.rows)
          if isinstance(it, A.Frag) and it.tree is not None and any(
              isinstance(n, ast.Call) and src(n.func) == "translate"
              for n in ast.walk(it.tree))]
    if q and c:
        rep.check(bool(tr) and all(i < min(q[0], c[0]) for i in tr),
                  "R02.2", site, "a translated content value is translated "
                  "*before* it is converted and escaped (what the "
                  "translation function returns is escaped like any value)",
                  construct="translate-before-escape", where=wh,
                  detail="translate at %s, conversion at %s" % (
                      tr, (q[0], c[0])))
    appends = [i for i, (it, _, _) in enumerate(lin.rows)
               if isinstance(it, A.Frag) and
               L.frag_find(it, "__append(_X)", "expr")]
    rep.check(len(appends) == 1, "R02.2", site,
              "visit_Content appends exactly once", construct="content-appends",
              where=wh, detail=str(len(appends)))

    # ExpressionTransform.visit_Substitution
    f = repo.func(COMP + "ExpressionTransform.visit_Substitution")
    r = L.emission(repo, f.qualname)
    v = r.value
    ok = isinstance(v, A.CallV) and v.name == "assign_text"
    parse = v.func if ok else None
    okp = isinstance(parse, A.CallV) and \
        A.show(parse.kwargs.get("char_escape", A.Const(None))) == \
        "node.char_escape"
    rep.check(ok, "R02.2", f.qualname, "a Substitution is compiled as text "
              "(assign_text), not as a raw value", construct="subst-text",
              where=L.where(f), detail=A.show(v, limit=2))
    rep.check(okp, "R02.2", f.qualname,
              "the node's escape set is handed to the expression engine",
              construct="subst-escape", where=L.where(f),
              detail=A.show(parse, limit=2))

    # ExpressionTransform.visit_Interpolation: engine built with the escape set
    f = repo.func(COMP + "ExpressionTransform.visit_Interpolation")
    r = L.emission(repo, f.qualname)
    ok = False
    for w in A.walk(r.value):
        if isinstance(w, A.Alt) and "Substitution" in w.test:
            eng = w.a
            if isinstance(eng, A.CallV) and "char_escape" in eng.kwargs and \
                    A.show(eng.kwargs["char_escape"]).endswith(
                        ".char_escape"):
                ok = True
    rep.check(ok, "R02.2", f.qualname,
              "${...} parts are compiled by an engine that carries the "
              "substitution's escape set", construct="interp-escape",
              where=L.where(f))
    # Interpolator: each part is assigned as text
    f = repo.func(COMP + "Interpolator.__call__")
    texts = [n for n in ast.walk(f.node) if isinstance(n, ast.Call) and
             isinstance(n.func, ast.Attribute) and
             n.func.attr in ("assign_text", "assign_value", "assign_bool")]
    rep.check(bool(texts) and all(n.func.attr == "assign_text"
                                  for n in texts), "R02.2", f.qualname,
              "every ${...} part is compiled with assign_text (never as a raw "
              "value)", construct="interp-assign", where=L.where(f),
              detail=str([n.func.attr for n in texts]))

    # ExpressionEngine.get_compiler: conversion appended after the expression
    f = repo.func(COMP + "ExpressionEngine.get_compiler")
    inner = [n for n in ast.walk(f.node) if isinstance(n, ast.FunctionDef)
             and n is not f.node]
    ok = False
    if inner:
        comp = inner[0]
        order = []
        for n in ast.walk(comp):
            if isinstance(n, ast.Call):
                t = src(n.func)
                if t == "expression":
                    order.append(("eval", n.lineno))
                elif t == "stmts.extend":
                    order.append(("extend", n.lineno))
                elif t == "getattr" and "_convert_" in src(n):
                    order.append(("method", n.lineno))
        order.sort(key=lambda x: x[1])
        kinds = [k for k, _ in order]
        ok = kinds[:1] == ["eval"] and "extend" in kinds and \
            kinds.index("extend") > kinds.index("eval")
    rep.check(ok, "R02.2", f.qualname,
              "conversion statements are appended after the statements that "
              "evaluate the expression", construct="convert-after-eval",
              where=L.where(f))

    # _convert_text
    f = repo.func(COMP + "ExpressionEngine._convert_text")
    r = L.emission(repo, f.qualname)
    v = r.value
    site = f.qualname
    wh = L.where(f)
    ok = L.decides_on(v, "not char_escape")
    rep.check(ok, "R02.2", site, "only an empty escape set is routed to the "
              "non-escaping conversion", construct="convert-text-guard",
              where=wh, detail=A.show(v, limit=1))
    if ok:
        fr = L.branch(v, "char_escape", True)
        frs = [w for w in A.walk(fr) if isinstance(w, A.Frag) and
               L.frag_find(w, "_T = __quote(_T, _Q, _E, _D, _M)")]
        rep.check(bool(frs), "R02.2", site,
                  "a non-empty escape set is routed to __quote",
                  construct="convert-text-quote", where=wh)
        for w in frs:
            node, b = L.frag_find(w, "_T = __quote(_T, _Q, _E, _D, _M)")[0]
            qv = L.slot_value(w, b["_Q"])
            evv = L.slot_value(w, b["_E"])
            qtxt = A.show(qv.f["value"]) if isinstance(qv, A.Py) else ""
            etxt = A.show(evv.f["value"], limit=8) if isinstance(
                evv, A.Py) else ""
            rep.check(bool(qtxt) and "char2entity" in etxt and qtxt in etxt,
                      "R02.2", site, "the quote entity passed to __quote is "
                      "char2entity of the very quote that is passed",
                      construct="quote-entity", where=wh,
                      detail="quote=%s entity=%s" % (qtxt[:80], etxt[:120]))
    # unknown characters in the escape set are refused
    raises = [n for n in ast.walk(f.node) if isinstance(n, ast.Raise)]
    rep.check(bool(raises), "R02.2", site, "an escape set with an unsupported "
              "character is refused at compile time",
              construct="unsupported-refused", where=wh)
    sup = repo.cls(COMP + "ExpressionEngine").attrs.get(
        "supported_char_escape_set")
    try:
        supv = set(repo.fold(sup, f.module))
    except Exception:
        supv = None
    rep.check(supv == BASE, "R02.2", COMP + "ExpressionEngine",
              "the supported base escape set is exactly & < >",
              construct="supported-set", detail=str(supv))

    # visit_DictAttributes
    f = repo.func(COMP + "Compiler.visit_DictAttributes")
    r = L.emission(repo, f.qualname)
    nfr = 0
    for w in A.walk(r.emission):
        if not isinstance(w, A.Frag) or w.tree is None:
            continue
        calls = L.frag_find(w, "__append(' ' + _K + '=' + _Q + "
                               "_F(_V, _Q, _E, None, None) + _Q)", "expr")
        if not calls:
            continue
        nfr += 1
        node, b = calls[0]
        fv = L.slot_value(w, b["_F"])
        qv = L.slot_value(w, b["_Q"])
        evv = L.slot_value(w, b["_E"])
        rep.check(fv is not None and A.show(fv).strip("'") == "__quote",
                  "R02.2", f.qualname, "dict attribute values go through the "
                  "escaping routine", construct="dict-quote-func",
                  where=L.where(f), detail=A.show(fv))
        qt = A.show(qv.f["value"]) if isinstance(qv, A.Py) else "?"
        et = A.show(evv.f["value"], limit=6) if isinstance(evv, A.Py) else "?"
        rep.check(qt == "node.quote" and "char2entity" in et and qt in et,
                  "R02.2", f.qualname, "dict attribute values are delimited "
                  "by, and escaped for, the node's quote",
                  construct="dict-quote-same", where=L.where(f),
                  detail="quote=%s entity=%s" % (qt, et))
        # the loop variable that is escaped is the dict value
        loops = [n for n in ast.walk(w.tree) if isinstance(n, ast.For)]
        ok = False
        for lp in loops:
            if isinstance(lp.target, ast.Tuple) and len(lp.target.elts) == 2 \
                    and src(lp.iter).endswith(".items()"):
                ok = isinstance(b["_V"], ast.Name) and \
                    b["_V"].id == src(lp.target.elts[1]) and \
                    isinstance(b["_K"], ast.Name) and \
                    b["_K"].id == src(lp.target.elts[0])
        rep.check(ok, "R02.2", f.qualname,
                  "the escaped operand is the dict value of the iteration",
                  construct="dict-operand", where=L.where(f))
    rep.check(nfr >= 1, "R02.2", f.qualname,
              "visit_DictAttributes writes name=quote+escaped(value)+quote",
              construct="dict-frag", where=L.where(f))

    # visit_Attribute: only the converted target is formatted between quotes
    f = repo.func(COMP + "Compiler.visit_Attribute")
    r = L.emission(repo, f.qualname)
    lin = L.Lin(r.emission)
    ev = lin.index(lambda it: isinstance(it, A.Eval))
    ok = False
    for i, (it, conds, _) in enumerate(lin.rows):
        if isinstance(it, A.Frag):
            for node, b in L.frag_find(it, "__append(_F % _T)", "expr"):
                tk = L.name_key(it, b["_T"])
                fmtv = L.slot_value(it, b["_F"])
                ft = A.show(fmtv, limit=12) if fmtv is not None else ""
                ok = ev >= 0 and i > ev and \
                    tk == A.ident_key(lin.item(ev).target) and \
                    ft.count("node.quote") == 2
    rep.check(ok, "R02.2", f.qualname,
              "a dynamic attribute writes quote + converted value + quote, "
              "the value being the target the expression engine converted",
              construct="attr-format", where=L.where(f))


# ---------------------------------------------------------------------------
# R02.3: path/taint analysis of the embedded escape routine


def quote_function(repo):
    """The FunctionDef (parsed from the embedded source) that visit_Macro
    binds to __quote, its parameter names and where it came from."""
    res = L.emission(repo, COMP + "Compiler.visit_Macro")
    for w in A.walk(res.emission):
        if isinstance(w, A.Frag) and w.tree is not None:
            fv = w.slots.get("func")
            if fv is not None and A.show(fv).strip("'") == "__quote":
                for n in w.tree.body:
                    if isinstance(n, ast.FunctionDef):
                        return n, w
    raise AnalysisError("no fragment is bound to __quote in visit_Macro")


def _val(node, st):
    """abstract value of an expression: nested tuples"""
    if node is None:
        return ("const", None)
    if isinstance(node, ast.Constant):
        return ("const", node.value)
    if isinstance(node, ast.Name):
        return st.get(node.id, ("name", node.id))
    if isinstance(node, ast.Call):
        if isinstance(node.func, ast.Attribute):
            recv = _val(node.func.value, st)
            return ("method", node.func.attr, recv,
                    tuple(_val(a, st) for a in node.args))
        fn = _val(node.func, st)
        return ("call", fn, tuple(_val(a, st) for a in node.args),
                tuple((k.arg, _val(k.value, st)) for k in node.keywords))
    if isinstance(node, ast.Compare):
        return ("cmp", src(node), tuple(
            _val(x, st) for x in [node.left] + node.comparators))
    return ("expr", src(node))


def _derives(v, root):
    if v == root:
        return True
    if isinstance(v, tuple):
        return any(_derives(x, root) for x in v if isinstance(x, tuple))
    return False


def _quote_paths(repo, rep, tier):
    fn, frag = quote_function(repo)
    params = [a.arg for a in fn.args.args]
    site = COMP + "emit_func_convert_and_escape(__quote)"
    if len(params) < 3:
        raise AnalysisError("__quote has %d parameters" % len(params))
    tgt, quote, qent = params[0], params[1], params[2]
    default = params[3] if len(params) > 3 else None
    marker = params[4] if len(params) > 4 else None
    paths = P.enum_paths(fn.body, unroll=1 if tier == "quick" else 3)
    rep.count("quote_paths", len(paths))
    root = ("param", tgt)
    classes = {}
    for p in paths:
        st = {a: ("param", a) for a in params}
        sanitized = []      # (char_value, repl_value, extra_guard_src)
        conds = []
        excepts = []
        ret = None
        retnode = None
        for ev in p:
            if ev[0] == "assign":
                st[ev[1]] = _val(ev[2], st)
            elif ev[0] == "sanitize":
                var, c, e, extra = ev[1], ev[2], ev[3], ev[4]
                if _derives(st.get(var, ("name", var)), root) or \
                        st.get(var) == root:
                    sanitized.append((_val(c, st), _val(e, st),
                                      [src(x) for x in (extra or [])]))
                    st[var] = ("sanitized", st.get(var), _val(c, st))
            elif ev[0] == "cond":
                conds.append((src(ev[1]), ev[2], _val(ev[1], st)))
            elif ev[0] == "except":
                excepts.append(ev[1])
            elif ev[0] == "return":
                ret = _val(ev[1], st) if ev[1] is not None else ("const", None)
                retnode = ev[1]
            elif ev[0] == "end":
                ret = ("const", None)
        kind, detail = _classify(ret, st, conds, excepts, sanitized, root,
                                 params, fn, retnode)
        classes.setdefault(kind, []).append((p, detail))
    rep.count("quote_return_classes", len(classes))
    allowed = {"none", "default", "number", "html", "escaped",
               "precheck-clean", "not-a-string"}
    for kind, lst in sorted(classes.items()):
        p, detail = lst[0]
        ob = "paths of __quote ending in class '%s' (%d path(s))" % (
            kind, len(lst))
        if kind in allowed:
            rep.ok("R02.3", site, ob)
        else:
            rep.bad("R02.3", site, "every path of __quote that returns a "
                    "string derived from the value has escaped & < > and the "
                    "quote, '&' first", construct=kind, detail="%s | path: %s"
                    % (detail, P.path_text(p, 30)),
                    where="src/chameleon/compiler.py:%d" % frag.lineno)
    for need in ("none", "default", "escaped"):
        rep.check(need in classes, "R02.3", site,
                  "__quote has a path of class '%s'" % need,
                  construct="class-missing:" + need)
    # first statement: None -> nothing
    first = fn.body[0]
    ok = isinstance(first, ast.If) and src(first.test) == "%s is None" % tgt \
        and len(first.body) == 1 and isinstance(first.body[0], ast.Return) \
        and first.body[0].value is None
    rep.check(ok, "R02.3", site, "the first test of __quote maps None to "
              "nothing", construct="none-first")
    # bytes are decoded before the escape block (path-wise: on every escaped
    # path through 'is encoded', decode precedes the first sanitizer)
    ok = True
    seen = 0
    for p, _ in classes.get("escaped", []):
        decoded = None
        first_san = None
        enc = False
        for i, ev in enumerate(p):
            if ev[0] == "cond" and "encoded" in src(ev[1]) and ev[2]:
                enc = True
            if ev[0] == "assign" and ev[1] == tgt and \
                    src(ev[2]).startswith("decode("):
                decoded = i
            if ev[0] == "sanitize" and first_san is None:
                first_san = i
        if enc:
            seen += 1
            if decoded is None or first_san is None or decoded > first_san:
                ok = False
    rep.check(ok and seen > 0, "R02.3", site,
              "byte strings are decoded before they are escaped",
              construct="decode-before-escape", detail="%d path(s)" % seen)
    # message objects: translate, then escape (falls through to escape block)
    ok = False
    for p, _ in classes.get("escaped", []):
        tr = [i for i, ev in enumerate(p) if ev[0] == "assign" and
              src(ev[2]).startswith("translate(")]
        sn = [i for i, ev in enumerate(p) if ev[0] == "sanitize"]
        if tr and sn and tr[0] < sn[0]:
            ok = True
    rep.check(ok, "R02.3", site, "objects that are neither str, number nor "
              "__html__ are offered to translate and the result is escaped",
              construct="translate-then-escape")


def _classify(ret, st, conds, excepts, sanitized, root, params, fn, retnode):
    tgt, quote, qent = params[0], params[1], params[2]
    default = params[3] if len(params) > 3 else None
    if ret == ("const", None):
        return "none", ""
    if default and ret == ("param", default):
        ok = L.cond_holds([(c, v) for c, v, _ in conds],
                          "%s is %s" % (tgt, params[4]), True) \
            if len(params) > 4 else False
        return ("default" if ok else "BAD-default-unguarded"), ""
    # str(target) for exact int/float
    if isinstance(retnode, ast.Call) and src(retnode.func) == "str" and \
            ret[0] == "call" and ret[2] == (root,):
        ok = any(v and _is_number_test(c) for c, v, _ in conds)
        return ("number" if ok else "BAD-str-of-non-number"), \
            "conds: %s" % [c for c, v, _ in conds if v]
    # __markup()
    if ret[0] == "call" and ret[1][0] == "call" and \
            ret[1][1] == ("name", "getattr") and not ret[2]:
        a = ret[1][2]
        if len(a) >= 2 and a[0] == root and a[1] == ("const", "__html__"):
            return "html", ""
    if not _derives(ret, root):
        return "BAD-unrelated-return", str(ret)[:200]
    # string route
    # 1. the regex pre-check said nothing needs escaping
    for c, v, val in conds:
        if not v and c == "escape" and _derives(val, root):
            return "precheck-clean", ""
    if "TypeError" in excepts:
        return "not-a-string", "regex search raised TypeError: not a str"
    if L.cond_holds([(c, v) for c, v, _ in conds], "%s is None" % tgt, True):
        return "none", ""
    chars = []
    for c, e, extra in sanitized:
        chars.append((c, e, extra))
    want = [("&", "&amp;"), ("<", "&lt;"), (">", "&gt;")]
    got = [(c[1], e[1]) for c, e, x in chars
           if c[0] == "const" and e[0] == "const"]
    if got[:3] != want:
        return "BAD-escape-sequence", "escapes on path: %s (need %s first)" % (
            got, want)
    if any(x for c, e, x in chars[:3]):
        return "BAD-escape-guarded", "extra guard on a base escape"
    qs = [(c, e, x) for c, e, x in chars if c == ("param", quote)]
    if len(qs) != 1 or qs[0][1] != ("param", qent):
        return "BAD-quote-escape", "quote escapes: %s" % (qs,)
    if [g.replace(" ", "") for g in qs[0][2]] not in (
            [], ["%sisnotNone" % quote]):
        return "BAD-quote-guard", str(qs[0][2])
    if chars.index(qs[0]) < 3:
        return "BAD-quote-before-amp", ""
    return "escaped", ""


def _is_number_test(c):
    t = c.replace(" ", "")
    return t in ("__ttisintor__ttisfloat", "__ttisfloator__ttisint")


# ---------------------------------------------------------------------------


def _entities(repo, rep):
    """the quote entity: char2entity maps a character to a reference to
    that very character"""
    f = repo.func("chameleon.utils.char2entity")
    t = L.text(f.node, body_only=True)
    rep.check("cp = ord(c)" in t and
              "name = htmlentitydefs.codepoint2name.get(cp)" in t and
              "return '&%s;' % name if name is not None else '&#%d;' % cp"
              in t, "R02.2", f.qualname, "char2entity(c) is the named "
              "entity of c's code point if one exists, else the decimal "
              "reference of that code point", construct="char2entity",
              where=L.where(f), detail=t)
    mk = repo.cls("chameleon.utils.Markup")
    h = mk.methods.get("__html__")
    rep.check(h is not None and src(h.node.body[-1]) == "return str(self)",
              "R02.5", mk.qualname, "Markup.__html__ returns its own text "
              "(the structure opt-out adds nothing)", construct="markup-text",
              where=L.where(h) if h else "")


def _precheck(repo, rep):
    res = L.emission(repo, COMP + "Compiler.visit_Module")
    pattern = None
    for w in A.walk(res.emission):
        if isinstance(w, A.Frag):
            for node, b in L.frag_find(
                    w, "g_re_needs_escape = re.compile(_P).search"):
                if isinstance(b["_P"], ast.Constant):
                    pattern = b["_P"].value
    site = COMP + "Compiler.visit_Module(g_re_needs_escape)"
    rep.check(pattern is not None, "R02.4", site,
              "the module preamble defines the needs-escape pre-check as the "
              "search method of a compiled regex", construct="precheck-def")
    if pattern is None:
        return
    cs = rx.char_class_of_single_set(rx.parse(pattern))
    rep.check(cs is not None, "R02.4", site,
              "the pre-check is a single character class (no anchors, no "
              "sequence)", construct="precheck-shape", detail=pattern)
    if cs is None:
        return
    # quotes _convert_text can choose + dict attribute quote
    f = repo.func(COMP + "ExpressionEngine._convert_text")
    quotes = set()
    for n in ast.walk(f.node):
        if isinstance(n, ast.For) and isinstance(n.iter, ast.Tuple):
            for e in n.iter.elts:
                if isinstance(e, ast.Constant) and isinstance(e.value, str):
                    quotes.add(e.value)
    need = set(BASE) | {q for q in quotes if q}
    for ch in sorted(need):
        rep.check(ch in cs, "R02.4", site,
                  "the pre-check character class contains %r (a character "
                  "the routine escapes)" % ch, construct="precheck:" + ch,
                  detail="class = %r" % cs)
    # macro prologue binds the local alias used by __quote
    res = L.emission(repo, COMP + "Compiler.visit_Macro")
    ok = any(isinstance(w, A.Frag) and
             L.frag_find(w, "__re_needs_escape = g_re_needs_escape")
             for w in A.walk(res.emission))
    rep.check(ok, "R02.4", COMP + "Compiler.visit_Macro",
              "__quote's pre-check is the module-level regex",
              construct="precheck-alias")
    if "" in quotes:
        rep.note("advisory D20 (outside the statement, which speaks of quoted "
                 "attributes): an unquoted attribute with ${} is escaped with "
                 "quote '' -> target.replace('', '&#0;') garbles the value")
