"""C18 -- template-language markup never leaks and is independent of prefix
spelling."""
from __future__ import annotations

import ast

from .. import absint as A
from .. import lib as L
from .. import paths as P
from ..core import AnalysisError, NotConst, src

PROG = "chameleon.zpt.program."
MP = PROG + "MacroProgram."
PARSER = "chameleon.parser."

LANG = {"TAL", "METAL", "I18N", "META"}


def run(repo, rep, tier):
    rep.explanation = (
        "Whether a language attribute reaches the output is decided in "
        "tal.prepare_attributes from the namespace every static attribute "
        "records for itself when parser.unpack_attributes resolves its "
        "prefix (G-WHO-WRITES: nobody else writes that field; it is written "
        "for every attribute, on every path of the one loop, with the value "
        "the namespaced mapping is keyed by).  Where a positional pairing "
        "(zip) of the attribute list with the namespaced mapping is used "
        "instead, the pairing is proved aligned (G-ZIP: no function between "
        "the common origin and the zip changes one collection but not the "
        "other, and the mapping cannot lose entries).  Lookups keyed by "
        "template text need a guard (G-KEYED).  The namespace stack of the "
        "tag parser must be popped once per index entry that an end tag "
        "discards (G-PAIR over all paths of visit_end_tag).  The drop tables "
        "and the element-omission tests are compared with the four language "
        "namespaces.")
    rep.assumptions = [
        "equality of outputs across prefix spellings is not computed",
    ]
    rep.rule("R18.1", "every static attribute carries its own resolved "
                      "namespace (or: G-ZIP, collections paired by position "
                      "stay aligned between their origin and the zip)")
    rep.rule("R18.2", "G-KEYED: lookups keyed by template text are guarded; "
                      "only language prefixes are converted from data-*")
    rep.rule("R18.3", "G-PAIR: one namespace map is popped per start-tag "
                      "index entry an end tag discards")
    rep.rule("R18.4", "tables: drop set = the four language namespaces; "
                      "element omission, validation and xmlns dropping agree "
                      "with it")
    _zip(repo, rep)
    _keyed(repo, rep)
    _nsstack(repo, rep)
    _tables(repo, rep)
    nt_, glued_ = L.glued_words(repo, ('chameleon.tal', 'chameleon.metal', 'chameleon.i18n', 'chameleon.zpt.program'))
    rep.check(nt_ >= 1 and not glued_, "R18.4", "chameleon.tal", "every entry of "
              "the statement whitelists and namespace tables is one string literal (no "
              "two names glued together by a missing comma)",
              construct="table-entry-glued", detail="; ".join(
                  "%s:%d %s" % (g[0].relpath, g[1], g[2])
                  for g in glued_[:3]) or "%d word tables" % nt_)
    # one namespace map per implicitly closed start tag (C03 owns the count)
    from . import c03 as _c03
    L.borrow(repo, rep, "R18.3", "C03", _c03.parser_details,
             ("unclosed-counts-one",))
    L.option_defaults_rule(repo, rep, "R18.2", ("enable_data_attributes", "restricted_namespace"))
    cd_ = repo.func("chameleon.zpt.program.convert_data_attributes")
    prm = [x.arg for x in cd_.node.args.args]
    nsp = prm[2] if len(prm) > 2 else None
    muts = [src(n)[:40] for n in ast.walk(cd_.node)
            if isinstance(n, ast.Call) and isinstance(n.func, ast.Attribute)
            and src(n.func.value) == nsp and n.func.attr in (
                "pop", "popitem", "clear", "update", "setdefault")]
    muts += [src(t_)[:40] for n in ast.walk(cd_.node)
             if isinstance(n, (ast.Assign, ast.Delete)) for t_ in n.targets
             if isinstance(t_, ast.Subscript) and src(t_.value) == nsp]
    rep.check(nsp is not None and not muts, "R18.2", cd_.qualname, "the "
              "prefix map of the element is only read (it is the map the "
              "children inherit)", construct="prefix-map-read-only",
              where=L.where(cd_), detail=str(muts))
    from . import c11 as _c11
    L.borrow(repo, rep, "R18.2", "C11", _c11._algebra,
             ("delegates:split",))
    un = repo.func("chameleon.parser.update_namespace")
    stores = [src(a_.targets[0]) for a_ in ast.walk(un.node)
              if isinstance(a_, ast.Assign) and isinstance(
                  a_.targets[0], ast.Subscript)
              and src(a_.targets[0].value) == "namespace"]
    tests_ = [src(L._CanonIf._pos(n_.test)[0]).replace(" ", "")
              for n_ in ast.walk(un.node) if isinstance(n_, ast.If)]
    rep.check("namespace[None]" in stores and any(
        "name[6:]" in s_ for s_ in stores) and
        any(t_ in ("name=='xmlns'", "'xmlns'==name") for t_ in tests_) and
        "name.startswith('xmlns:')" in tests_, "R18.3", un.qualname, "a "
        "default declaration (xmlns=...) and a prefixed one (xmlns:p=...) "
        "are both entered in the element's prefix map",
        construct="declarations-recorded", where=L.where(un),
        detail=str(stores))
    cd2 = repo.func("chameleon.zpt.program.convert_data_attributes")
    skips = [n for n in ast.walk(cd2.node) if isinstance(n, ast.If)
             and "'-'" in src(n.test) and "name" in src(n.test)]
    rep.check(bool(skips) and all(
        any(isinstance(x, ast.Continue) for x in n.body) for n in skips),
        "R18.2", cd2.qualname, "a data attribute without a second hyphen "
        "(data-role) is left alone: the loop moves on",
        construct="data-name-without-prefix-skipped", where=L.where(cd2))
    L.whitelist_rule(repo, rep, "R18.2", None)
    L.state_rule(repo, rep)


def _param_effects(f, params):
    """per parameter: ('remove'|'insert'|'setitem', lineno) events"""
    ev = {p: [] for p in params}
    for n in ast.walk(f.node):
        if isinstance(n, ast.Call) and isinstance(n.func, ast.Attribute) and \
                isinstance(n.func.value, ast.Name) and \
                n.func.value.id in ev:
            a = n.func.attr
            if a in ("pop", "remove", "clear", "popitem"):
                ev[n.func.value.id].append(("remove", n.lineno))
            elif a in ("append", "insert", "extend"):
                ev[n.func.value.id].append(("insert", n.lineno))
        elif isinstance(n, ast.Delete):
            for t in n.targets:
                if isinstance(t, ast.Subscript) and \
                        isinstance(t.value, ast.Name) and t.value.id in ev:
                    ev[t.value.id].append(("remove", n.lineno))
        elif isinstance(n, ast.Assign):
            for t in n.targets:
                if isinstance(t, ast.Subscript) and \
                        isinstance(t.value, ast.Name) and t.value.id in ev:
                    ev[t.value.id].append(("setitem", n.lineno))
    return ev


def _removal_indices(rep, g):
    """Inside a loop over a snapshot ``list(enumerate(L))`` that removes
    entries from L itself, positions shift by the number of removals so far:
    L is indexed with ``i - d`` (d counted up once per removal), while a
    snapshot taken before the loop (``keys = list(M)``) is indexed with the
    unshifted ``i``.  Mixing the two up removes the wrong partner."""
    loops = [n for n in ast.walk(g.node) if isinstance(n, ast.For)
             and isinstance(n.target, ast.Tuple) and len(n.target.elts) == 2
             and isinstance(n.target.elts[0], ast.Name)
             and "enumerate(" in src(n.iter)]
    for lp in loops:
        idx = lp.target.elts[0].id
        live = None
        m = [c for c in ast.walk(lp.iter) if isinstance(c, ast.Call)
             and src(c.func) == "enumerate" and c.args]
        if m and isinstance(m[0].args[0], ast.Name):
            live = m[0].args[0].id
        snapshot_iter = src(lp.iter).startswith("list(")
        # snapshots: names assigned list(...) before the loop, never mutated
        snaps = set()
        for n in ast.walk(g.node):
            if isinstance(n, ast.Assign) and n.lineno < lp.lineno and \
                    isinstance(n.targets[0], ast.Name) and \
                    isinstance(n.value, ast.Call) and \
                    src(n.value.func) in ("list", "tuple"):
                snaps.add(n.targets[0].id)
        counters = {n.target.id for n in ast.walk(lp)
                    if isinstance(n, ast.AugAssign) and
                    isinstance(n.target, ast.Name) and
                    isinstance(n.op, ast.Add) and src(n.value) == "1"}
        for c in ast.walk(lp):
            # L.pop(<index>)
            if isinstance(c, ast.Call) and isinstance(
                    c.func, ast.Attribute) and c.func.attr == "pop" and \
                    isinstance(c.func.value, ast.Name) and \
                    c.func.value.id == live and c.args:
                t = src(c.args[0]).replace(" ", "")
                ok = snapshot_iter and any(t == "%s-%s" % (idx, d)
                                           for d in counters)
                rep.check(ok, "R18.1", g.qualname, "the list that shrinks "
                          "while its snapshot is walked is indexed by "
                          "(position - removals so far)",
                          construct="removal-index:" + live,
                          where=L.where(g, c.lineno), detail=src(c))
            # snapshot[<index>]
            if isinstance(c, ast.Subscript) and isinstance(
                    c.value, ast.Name) and c.value.id in snaps and \
                    c.value.id != live and not isinstance(c.slice, ast.Slice):
                t = src(c.slice).replace(" ", "")
                rep.check(t == idx, "R18.1", g.qualname, "a snapshot taken "
                          "before the loop is indexed by the unshifted "
                          "position of the attribute",
                          construct="snapshot-index:" + c.value.id,
                          where=L.where(g, c.lineno), detail=src(c))


def _own_namespace(repo, rep, pa):
    """The drop set is computed from a field every attribute carries itself
    (no pairing with a second collection that could fall out of step)."""
    comps = [n for n in ast.walk(pa.node) if isinstance(
        n, (ast.SetComp, ast.ListComp, ast.GeneratorExp))
        and n.generators[0].ifs and "drop_ns" in src(n.generators[0].ifs[0])]
    params = [a.arg for a in pa.node.args.args]
    ok = len(comps) == 1 and src(comps[0].generators[0].iter) == params[0] \
        and isinstance(comps[0].generators[0].target, ast.Name)
    rep.check(ok, "R18.1", pa.qualname, "the drop set is computed by one "
              "pass over the static attribute list itself",
              construct="zip-present", where=L.where(pa),
              detail=str([src(c.generators[0].iter) for c in comps]))
    if not ok:
        return
    var = comps[0].generators[0].target.id
    test = comps[0].generators[0].ifs[0]
    fields = {n.slice.value for n in ast.walk(test)
              if isinstance(n, ast.Subscript) and src(n.value) == var
              and isinstance(n.slice, ast.Constant)}
    t = src(test)
    okt = False
    for form in ("_A['namespace'] in drop_ns or (_A['namespace'] == XMLNS_NS"
                 " and _A['value'] in drop_ns)",
                 "_A['namespace'] in drop_ns or (_A['value'] in drop_ns and "
                 "_A['namespace'] == XMLNS_NS)",
                 "(_A['namespace'] == XMLNS_NS and _A['value'] in drop_ns) "
                 "or _A['namespace'] in drop_ns"):
        b_ = L.match(L.pat(form, "expr"), test)
        if b_ is not None and src(b_["_A"]) == var:
            okt = True
    rep.check(okt,
              "R18.4", pa.qualname, "an attribute is dropped iff its "
              "namespace is a language namespace, or it is an xmlns "
              "declaration of one", construct="drop-test", where=L.where(pa),
              detail=t)
    loop = [n for n in pa.node.body if isinstance(n, ast.For)
            and src(n.iter) == params[0]]
    ok = bool(loop) and any(isinstance(x, ast.If) and
                            src(x.test) == "name in drop" and
                            isinstance(x.body[0], ast.Continue)
                            for x in loop[0].body)
    rep.check(ok, "R18.4", pa.qualname, "dropped names never enter the "
              "prepared attribute list", construct="drop-applied",
              where=L.where(pa))
    # the field is recorded for every attribute, by the function that
    # resolves the prefixes, with the namespace the mapping is keyed by
    ua = repo.func(PARSER + "unpack_attributes")
    loops = [n for n in ua.node.body if isinstance(n, ast.For)]
    rec = key = None
    if len(loops) == 1:
        for st in loops[0].body:
            if isinstance(st, ast.Assign) and isinstance(
                    st.targets[0], ast.Subscript) and isinstance(
                        st.targets[0].slice, ast.Constant) and \
                    st.targets[0].slice.value == "namespace":
                rec = st
            if isinstance(st, ast.Assign) and \
                    src(st.targets[0]).startswith("namespaced["):
                key = st
    lv = None
    if len(loops) == 1:
        tg = loops[0].target
        if isinstance(tg, ast.Tuple) and "enumerate(" in src(loops[0].iter):
            lv = src(tg.elts[1])
        else:
            lv = src(tg)
    ok = rec is not None and key is not None and \
        src(rec.targets[0].value) == lv and \
        isinstance(key.targets[0].slice, ast.Tuple) and \
        src(key.targets[0].slice.elts[0]) == src(rec.value) and \
        not any(isinstance(n, (ast.Continue, ast.Break))
                for n in ast.walk(loops[0]))
    rep.check(ok, "R18.1", ua.qualname, "every attribute of the tag records "
              "its own resolved namespace (top level of the one loop, no "
              "early exit), the one its mapping key is built from: two "
              "attributes that share an expanded name (lang / xml:lang on an "
              "element without a namespace) still know theirs",
              construct="origin-aligned", where=L.where(ua))
    # an unprefixed 'xmlns' attribute is a namespace declaration whatever
    # namespace the element has: on every path of the loop body that takes an
    # attribute name without a colon, the name 'xmlns' is told apart and
    # recorded in the xmlns namespace -- prepare_attributes drops a
    # declaration by that field (attribute['namespace'] == XMLNS_NS)
    if len(loops) == 1 and rec is not None:
        nsvar = src(rec.value)
        xmlns_c = None
        try:
            xmlns_c = repo.module("chameleon.namespaces").const("XMLNS_NS")
        except (NotConst, KeyError, AttributeError):
            pass
        n_paths = 0
        bad = []
        for path in P.enum_paths(loops[0].body, unroll=1):
            conds = [(src(ev[1]), ev[2]) for ev in path if ev[0] == "cond"]
            if any(ev[0] == "raise" for ev in path):
                continue
            if L.cond_holds(conds, "':' in name", True):
                continue
            n_paths += 1
            val = None
            for ev in path:
                if ev[0] == "assign" and ev[1] == nsvar:
                    val = ev[2]
                if ev[0] == "assign" and ev[1] == src(rec.targets[0]):
                    break
            vt = src(val) if val is not None else None
            is_x = vt is not None and (
                vt.endswith("XMLNS_NS") or
                (isinstance(val, ast.Constant) and val.value == xmlns_c))
            if L.cond_holds(conds, "name == 'xmlns'", True):
                if not is_x:
                    bad.append("xmlns recorded as %s" % vt)
            elif L.cond_holds(conds, "name == 'xmlns'", False):
                if is_x:
                    bad.append("another name recorded as xmlns")
            else:
                bad.append("unprefixed names not told apart (recorded as %s)"
                           % vt)
        rep.check(n_paths >= 2 and not bad, "R18.1", ua.qualname,
                  "an unprefixed xmlns attribute is recorded in the xmlns "
                  "namespace on any element (a default declaration of a "
                  "template language on <x:div xmlns:x=... xmlns=TAL> is "
                  "dropped like any other declaration of it)",
                  construct="default-declaration-resolved",
                  where=L.where(ua), detail="; ".join(bad) or
                  "%d unprefixed paths" % n_paths)
    # nobody else writes that field
    writers = []
    for q, fn in sorted(repo.funcs.items()):
        if fn is ua:
            continue
        for n in ast.walk(fn.node):
            if isinstance(n, (ast.Assign, ast.AugAssign)):
                for tg in (n.targets if isinstance(n, ast.Assign)
                           else [n.target]):
                    if isinstance(tg, ast.Subscript) and isinstance(
                            tg.slice, ast.Constant) and \
                            tg.slice.value == "namespace" and \
                            "attr" in src(tg.value):
                        writers.append((fn, n.lineno))
    rep.check(not writers, "R18.1", ua.qualname, "the recorded namespace of "
              "an attribute is written by the prefix resolution only",
              construct="zip-partner-collapses", where=L.where(ua),
              detail=str([(f_.qualname, l_) for f_, l_ in writers]))
    # the functions that take attributes out before prepare_attributes
    ve = repo.func(MP + "visit_element")
    calls = [n for n in ast.walk(ve.node) if isinstance(n, ast.Call)
             and src(n.func).endswith("prepare_attributes")]
    if len(calls) != 1:
        raise AnalysisError("call of prepare_attributes not found")
    va = src(calls[0].args[0])
    oa = [src(n.value) for n in ast.walk(ve.node) if isinstance(n, ast.Assign)
          and src(n.targets[0]) == va]
    rep.check("start['attrs']" in oa, "R18.1", ve.qualname, "the attribute "
              "list handed over is the parsed tag's", construct="zip-origin",
              where=L.where(ve), detail=str(oa))
    g = repo.func(PROG + "convert_data_attributes")
    gp = [a.arg for a in g.node.args.args]
    eff = _param_effects(g, gp)
    rem = {p_: [e for e in eff[p_] if e[0] == "remove"] for p_ in gp}
    rep.check(bool(rem.get("attrs")) and bool(rem.get("ns_attrs")), "R18.1",
              g.qualname, "a converted data-* attribute leaves the static "
              "list and its stale entry leaves the mapping",
              construct="unpaired-removal:" + g.name, where=L.where(g))
    _removal_indices(rep, g)
    # the stale mapping entry is addressed by the attribute's own key
    pops = [n for n in ast.walk(g.node) if isinstance(n, ast.Call)
            and src(n.func) == "ns_attrs.pop" and n.args]
    okk = len(pops) == 1 and isinstance(pops[0].args[0], ast.Tuple) and \
        [src(e) for e in pops[0].args[0].elts] == ["attr['namespace']",
                                                   "attr['name']"]
    rep.check(okk, "R18.1", g.qualname, "the stale entry is the one keyed by "
              "the attribute's own (namespace, name)",
              construct="snapshot-index:keys", where=L.where(g),
              detail=str([src(p_) for p_ in pops]))


def _zip(repo, rep):
    pa = repo.func("chameleon.tal.prepare_attributes")
    zips = [n for n in ast.walk(pa.node) if isinstance(n, ast.Call)
            and src(n.func) == "zip" and len(n.args) == 2]
    if not zips:
        return _own_namespace(repo, rep, pa)
    rep.check(len(zips) == 1, "R18.1", pa.qualname, "the drop set pairs the "
              "static attributes with the namespaced ones by position",
              construct="zip-present", where=L.where(pa),
              detail=str([src(z) for z in zips]))
    if len(zips) != 1:
        return
    params = [a.arg for a in pa.node.args.args]

    def origin_params(arg):
        """the parameters a zip argument is (derived from): itself, or for a
        local every parameter its definitions are computed from"""
        if src(arg) in params:
            return [src(arg)]
        found = []
        if isinstance(arg, ast.Name):
            for n in ast.walk(pa.node):
                if isinstance(n, ast.Assign) and any(
                        src(t) == arg.id for t in n.targets):
                    for x in ast.walk(n.value):
                        if isinstance(x, ast.Name) and x.id in params and \
                                x.id not in found:
                            found.append(x.id)
        else:
            for x in ast.walk(arg):
                if isinstance(x, ast.Name) and x.id in params and \
                        x.id not in found:
                    found.append(x.id)
        return found
    oa_, ob_ = [origin_params(a) for a in zips[0].args]
    cands = [(a, b) for a in oa_ for b in ob_ if a != b and
             {a, b} <= {params[0], params[3]}]
    if not cands:
        # both sides come from the attribute list itself
        return _own_namespace(repo, rep, pa)
    za, zb = cands[0]
    ia, ib = params.index(za), params.index(zb)
    # no mutation of either before the zip inside prepare_attributes
    eff = _param_effects(pa, [za, zb])
    zl = zips[0].lineno
    early = [(p, e) for p in (za, zb) for e in eff[p] if e[1] < zl]
    rep.check(not early, "R18.1", pa.qualname, "neither collection is changed "
              "before the pairing", construct="mutated-before-zip",
              where=L.where(pa), detail=str(early))
    # the call site and what is handed over
    ve = repo.func(MP + "visit_element")
    calls = [n for n in ast.walk(ve.node) if isinstance(n, ast.Call)
             and src(n.func).endswith("prepare_attributes")]
    if len(calls) != 1:
        raise AnalysisError("call of prepare_attributes not found")
    c = calls[0]
    va, vb = src(c.args[ia]), src(c.args[ib])
    # origins
    origin = {}
    for n in ast.walk(ve.node):
        if isinstance(n, ast.Assign) and isinstance(n.targets[0], ast.Name):
            origin.setdefault(n.targets[0].id, []).append(n)
    oa = [src(x.value) for x in origin.get(va, [])]
    ob = [src(x.value) for x in origin.get(vb, [])]
    rep.check("start['attrs']" in oa and "start['ns_attrs']" in ob, "R18.1",
              ve.qualname, "both collections come from the same parsed tag "
              "(attrs / ns_attrs)", construct="zip-origin", where=L.where(ve),
              detail="%s <- %s ; %s <- %s" % (va, oa, vb, ob))
    # unpack_attributes builds ns_attrs by one pass over attrs, in order
    ua = repo.func(PARSER + "unpack_attributes")
    loops = [n for n in ua.node.body if isinstance(n, ast.For)]
    ok = len(loops) == 1 and "attributes" in src(loops[0].iter) and \
        sum(1 for n in ast.walk(loops[0]) if isinstance(n, ast.Assign)
            and src(n.targets[0]).startswith("namespaced[")) == 1 and \
        not any(isinstance(n, (ast.Continue, ast.Break))
                for n in ast.walk(loops[0]))
    rep.check(ok, "R18.1", ua.qualname, "the namespaced mapping gets exactly "
              "one entry per static attribute, in the same order",
              construct="origin-aligned", where=L.where(ua))
    # ... "one entry per attribute" also needs the entries not to collapse:
    # the partner of the attribute *list* is a mapping keyed by (namespace,
    # local name); two attributes with the same expanded name (two prefixes
    # bound to one URI, or an attribute written twice) share a key, the
    # mapping is then shorter than the list and the zip pairs every later
    # attribute with the wrong partner
    created = [n for n in ast.walk(ua.node) if isinstance(n, ast.Assign)
               and src(n.targets[0]) == "namespaced"]
    is_map = bool(created) and isinstance(created[0].value, (ast.Call,
                                                              ast.Dict)) \
        and src(created[0].value).split("(")[0] in ("OrderedDict", "dict",
                                                     "{}")
    keys = [n.targets[0].slice for n in ast.walk(ua.node)
            if isinstance(n, ast.Assign) and isinstance(
                n.targets[0], ast.Subscript) and
            src(n.targets[0].value) == "namespaced"]
    positional = all(any(isinstance(x, ast.Name) and x.id == "index"
                         for x in ast.walk(k)) for k in keys) if keys else False
    rep.check((not is_map) or positional, "R18.1", ua.qualname, "the "
              "collection that is zipped with the attribute list cannot "
              "lose entries (a list, or a mapping whose key contains the "
              "attribute's position)", construct="zip-partner-collapses",
              where=L.where(ua),
              detail="namespaced[ns, name] = value: attributes with equal "
                     "expanded names share one entry")
    # every call between the origin and prepare_attributes that receives one
    # of the two collections
    n_checked = 0
    for n in ast.walk(ve.node):
        if not (isinstance(n, ast.Call) and n.lineno < c.lineno and n is not c):
            continue
        argnames = [src(a) for a in n.args]
        if va not in argnames and vb not in argnames:
            continue
        r = repo.resolve_attr(ve.module, n.func) if isinstance(
            n.func, (ast.Name, ast.Attribute)) else None
        if not r or r[0] != "func":
            if src(n.func) in ("list", "tuple", "len"):
                continue
            if src(n.func).startswith("self."):
                m = repo.method(ve.cls, n.func.attr)
                if m is None:
                    continue
                r = ("func", m)
            else:
                continue
        g = r[1]
        gparams = [a.arg for a in g.node.args.args]
        if gparams and gparams[0] == "self":
            gparams = gparams[1:]
        mapping = {}
        for i, an in enumerate(argnames):
            if an in (va, vb) and i < len(gparams):
                mapping[gparams[i]] = an
        eff = _param_effects(g, list(mapping))
        rem = {mapping[p]: [e for e in eff[p] if e[0] == "remove"]
               for p in mapping}
        n_checked += 1
        ra, rb = rem.get(va, []), rem.get(vb, [])
        ok = (not ra and not rb) or (bool(ra) and bool(rb))
        rep.check(ok, "R18.1", g.qualname,
                  "%s removes entries from the static attribute list and "
                  "from the namespaced mapping together (or from neither): "
                  "the positional pairing survives" % g.name,
                  construct="unpaired-removal:" + g.name, where=L.where(g),
                  detail="removals from %s: %s; from %s: %s" % (
                      va, [l for _, l in ra], vb, [l for _, l in rb]))
        if ra and rb:
            # the removals happen together (same block) and the mapping's
            # stale key is the one at the attribute's position
            same = any(abs(x[1] - y[1]) <= 6 for x in ra for y in rb)
            rep.check(same, "R18.1", g.qualname, "both removals happen in "
                      "the same step", construct="removal-step:" + g.name,
                      where=L.where(g))
            _removal_indices(rep, g)
    rep.check(n_checked >= 2, "R18.1", ve.qualname, "the functions that "
              "receive the paired collections before the zip were analysed",
              construct="zip-callees", detail=str(n_checked))
    # the drop test itself
    comp = getattr(zips[0], "_parent", None)
    while comp is not None and not isinstance(comp, (ast.SetComp,
                                                     ast.ListComp,
                                                     ast.GeneratorExp)):
        comp = getattr(comp, "_parent", None)
    ok = False
    if comp is not None and comp.generators[0].ifs:
        t = src(comp.generators[0].ifs[0])
        ok = "ns in drop_ns" in t and "ns == XMLNS_NS" in t and \
            "attribute['value'] in drop_ns" in t
    rep.check(ok, "R18.4", pa.qualname, "an attribute is dropped iff its "
              "namespace is a language namespace, or it is an xmlns "
              "declaration of one", construct="drop-test", where=L.where(pa))
    loop = [n for n in pa.node.body if isinstance(n, ast.For)
            and src(n.iter) == za]
    ok = bool(loop) and any(isinstance(x, ast.If) and
                            src(x.test) == "name in drop" and
                            isinstance(x.body[0], ast.Continue)
                            for x in loop[0].body)
    rep.check(ok, "R18.4", pa.qualname, "dropped names never enter the "
              "prepared attribute list", construct="drop-applied",
              where=L.where(pa))


def _keyed(repo, rep):
    f = repo.func(PROG + "convert_data_attributes")
    site = f.qualname
    wh = L.where(f)
    params = [a.arg for a in f.node.args.args]
    nsmap = params[2] if len(params) > 2 else "namespaces"
    raw = [n for n in ast.walk(f.node) if isinstance(n, ast.Subscript)
           and isinstance(n.ctx, ast.Load) and src(n.value) == nsmap]
    rep.check(not raw, "R18.2", site, "the prefix taken from a data-* "
              "attribute name is looked up with a guard (an unknown prefix "
              "must not raise)", construct="unguarded:%s[...]" % nsmap,
              where=wh, detail=str([src(r) for r in raw]))
    # only language namespaces are converted
    paths = P.enum_paths(f.node.body, unroll=1)
    rep.count("paths", len(paths))
    ok = True
    n = 0
    for p in paths:
        stores = [e for e in p if e[0] == "assign" and
                  e[1].startswith(params[0] + "[")]
        if not stores:
            continue
        n += 1
        conds = [(src(e[1]), e[2]) for e in p if e[0] == "cond"]
        import re as _re
        lang = any(LANG <= set(_re.findall(r"[A-Z0-9_]+", c)) and
                   (("not in" in c and not v) or
                    (" in " in c and "not in" not in c and v))
                   for c, v in conds)
        if not lang:
            ok = False
    rep.check(ok and n >= 1, "R18.2", site, "a data-<prefix>-<name> attribute "
              "becomes a statement only if <prefix> is bound to the TAL, "
              "METAL, I18N or META namespace; every other data-* attribute "
              "is left alone", construct="language-only", where=wh)
    rep.check(any("startswith('data-')" in src(e[1]) for p in paths
                  for e in p if e[0] == "cond"), "R18.2", site,
              "only names starting with data- are considered",
              construct="data-prefix", where=wh)
    ve = repo.func(MP + "visit_element")
    guard = [n for n in ast.walk(ve.node) if isinstance(n, ast.If)
             and src(n.test) == "self.enable_data_attributes"]
    ok = bool(guard) and any(
        isinstance(c, ast.Call) and src(c.func) == "convert_data_attributes"
        for c in ast.walk(guard[0]))
    rep.check(ok, "R18.2", ve.qualname, "data attributes are converted only "
              "when the option is enabled", construct="option-guard",
              where=L.where(ve))
    # a statement written as data attribute is an ordinary statement from
    # then on: the conversion runs before the statements' values are
    # entity-decoded and validated, with the namespace map of *this* tag
    conv = [n for n in ast.walk(ve.node) if isinstance(n, ast.Call)
            and src(n.func) == "convert_data_attributes"]
    dec = [n for n in ast.walk(ve.node) if isinstance(n, ast.Assign)
           and "decode_htmlentities(" in src(n.value)
           and src(n.targets[0]).startswith("ns[")]
    val = [n for n in ast.walk(ve.node) if isinstance(n, ast.Call)
           and src(n.func) == "validate_attributes"]
    ok = len(conv) == 1 and bool(dec) and bool(val) and \
        conv[0].lineno < min(d.lineno for d in dec) and \
        conv[0].lineno < min(v.lineno for v in val)
    rep.check(ok, "R18.2", ve.qualname, "data-<prefix>-<name> attributes are "
              "converted first: the decoding of character entities and the "
              "validation see them like statements written with a prefix",
              construct="convert-first", where=L.where(ve))
    # the statement name is everything after the second hyphen: several
    # statements have a hyphen of their own (omit-tag, on-error, fill-slot,
    # define-macro ...), so the name is split off with a bounded split
    cd = repo.func(PROG + "convert_data_attributes")
    splits = [n for n in ast.walk(cd.node) if isinstance(n, ast.Call)
              and isinstance(n.func, ast.Attribute)
              and n.func.attr in ("split", "partition", "rsplit",
                                  "rpartition")
              and n.args and isinstance(n.args[0], ast.Constant)
              and n.args[0].value == "-"]
    okb = bool(splits)
    for n in splits:
        if n.func.attr in ("rsplit", "rpartition"):
            okb = False     # cuts at the LAST hyphen
            continue
        if n.func.attr == "partition":
            continue
        bound = n.args[1] if len(n.args) > 1 else next(
            (k.value for k in n.keywords if k.arg == "maxsplit"), None)
        stripped = "[5:]" in src(n.func.value).replace(" ", "") or any(
            isinstance(a_, ast.Assign) and
            src(a_.targets[0]) == src(n.func.value) and
            "[5:]" in src(a_.value).replace(" ", "")
            for a_ in ast.walk(cd.node))
        want = 1 if stripped else 2
        if not (isinstance(bound, ast.Constant) and bound.value == want):
            okb = False
    rep.check(okb, "R18.2", cd.qualname, "the name of a data-<prefix>-<name> "
              "attribute is split at the hyphen after the prefix only: "
              "statement names that contain a hyphen (omit-tag, on-error, "
              "define-macro, fill-slot ...) stay whole",
              construct="data-name-keeps-hyphens", where=L.where(cd),
              detail="; ".join(src(n) for n in splits))
    arg3 = src(conv[0].args[2]) if conv and len(conv[0].args) > 2 else ""
    pt = repo.func(PARSER + "parse_tag")
    stores_map = any(isinstance(n, ast.Assign) and
                     src(n.targets[0]) == "node['ns_map']" and
                     src(n.value) == pt.node.args.args[1].arg
                     for n in ast.walk(pt.node))
    rep.check(arg3 == "start['ns_map']" and stores_map, "R18.2", ve.qualname,
              "the prefix of a data attribute is resolved with the namespace "
              "map in force at its tag (declarations on ancestors and on "
              "the tag itself), which the parser stores on the tag",
              construct="data-prefix-map", where=L.where(ve),
              detail="third argument %s; parse_tag stores ns_map: %s" % (
                  arg3, stores_map))
    # an element *of* a language namespace carries its xmlns / xml:
    # attributes under that namespace: every statement table admits them
    for modname in ("chameleon.tal", "chameleon.metal", "chameleon.i18n"):
        wl = repo.const(modname, "WHITELIST")
        rep.check({"xmlns", "xml"} <= set(wl), "R18.4", modname +
                  ".WHITELIST", "xmlns / xml: attributes on an element of "
                  "the %s namespace are not rejected as unknown statements"
                  % modname.rsplit(".", 1)[-1], construct="whitelist-xmlns:" +
                  modname.rsplit(".", 1)[-1])
    # unpack_attributes: the prefix lookup is guarded (KeyError handled)
    ua = repo.func(PARSER + "unpack_attributes")
    subs = [n for n in ast.walk(ua.node) if isinstance(n, ast.Subscript)
            and src(n) == "namespace[prefix]"]
    ok = bool(subs)
    for s_ in subs:
        p = getattr(s_, "_parent", None)
        inside = False
        while p is not None:
            if isinstance(p, ast.Try) and any(
                    h.type is not None and src(h.type) == "KeyError"
                    for h in p.handlers):
                inside = True
            p = getattr(p, "_parent", None)
        ok = ok and inside
    rep.check(ok, "R18.2", ua.qualname, "attribute prefix resolution handles "
              "an unknown prefix explicitly", construct="prefix-guard",
              where=L.where(ua))


def _nsstack(repo, rep):
    ci = repo.cls(PARSER + "ElementParser")
    st = ci.methods["visit_start_tag"]
    text = L.text(st.node, body_only=True)
    ok = text.count("self.namespaces.append(") == 1 and \
        text.count("self.index.append(") == 1
    rep.check(ok, "R18.3", st.qualname, "a start tag pushes exactly one "
              "namespace map and one index entry", construct="start-push",
              where=L.where(st))
    rep.check("self.namespaces[-1].copy()" in text, "R18.3", st.qualname,
              "the new map inherits the bindings in scope",
              construct="start-inherit", where=L.where(st))
    et = ci.methods["visit_empty_tag"]
    text = L.text(et.node, body_only=True)
    rep.check("self.namespaces.append" not in text and
              "self.index.append" not in text and
              "self.namespaces[-1].copy()" in text, "R18.3", et.qualname,
              "an empty tag pushes nothing (its bindings end with it)",
              construct="empty-tag", where=L.where(et))
    en = ci.methods["visit_end_tag"]
    site = en.qualname
    wh = L.where(en)
    paths = P.enum_paths(en.node.body, unroll=3)
    rep.count("paths", len(paths))
    bad = None
    nok = 0
    for p in paths:
        if p[-1][0] != "return":
            continue
        idx = ns = 0
        counted = {}
        for ev in p:
            for call, _ in P.calls_on_path([ev]):
                t = src(call)
                if t == "self.index.pop()":
                    idx += 1
                elif t == "self.namespaces.pop()":
                    ns += 1
            if ev[0] == "aug" and ev[2] == "Add":
                counted[ev[1]] = counted.get(ev[1], 0) + 1
            if ev[0] == "delete":
                for tg in ev[1]:
                    t = src(tg)
                    if t.startswith("self.namespaces[-") and t.endswith(":]"):
                        var = t[len("self.namespaces[-"):-2]
                        conds = [src(e[1]) for e in p if e[0] == "cond"
                                 and e[2]]
                        # del self.namespaces[-k:] removes k maps (k > 0)
                        ns += counted.get(var, 0)
        # feasibility: a bare-name test of a counter incremented on the path
        feasible = True
        seen = {}
        for ev in p:
            if ev[0] == "assign" and isinstance(ev[2], ast.Constant) and \
                    ev[2].value == 0:
                seen[ev[1]] = 0
            elif ev[0] == "aug" and ev[2] == "Add" and ev[1] in seen:
                seen[ev[1]] += 1
            elif ev[0] == "cond" and isinstance(ev[1], ast.Name) and \
                    ev[1].id in seen:
                if (seen[ev[1].id] > 0) != ev[2]:
                    feasible = False
        if not feasible:
            continue
        nok += 1
        if idx != ns and bad is None:
            bad = (idx, ns, P.path_text(p, 16))
    rep.check(bad is None and nok >= 2, "R18.3", site,
              "on every path that closes an element the number of namespace "
              "maps removed equals the number of start-tag index entries "
              "discarded (unclosed children included)",
              construct="pops-unbalanced", where=wh,
              detail="index pops %s vs namespace pops %s on path: %s" % bad
              if bad else "%d paths" % nok)
    raises = [p for p in paths if p[-1][0] == "raise"]
    rep.check(any("Unexpected end tag" in src(p[-1][1]) for p in raises
                  if p[-1][1] is not None), "R18.3", site,
              "an end tag without its start tag is a ParseError",
              construct="unexpected-end", where=wh)


def _implied(test, truth):
    """atoms (text, truth) that hold when ``test`` evaluates to ``truth``"""
    if isinstance(test, ast.BoolOp):
        if isinstance(test.op, ast.And) == truth:
            out = []
            for v in test.values:
                out.extend(_implied(v, truth))
            return out
        return []
    if isinstance(test, ast.UnaryOp) and isinstance(test.op, ast.Not):
        return _implied(test.operand, not truth)
    if isinstance(test, ast.Compare) and len(test.ops) == 1 and \
            isinstance(test.ops[0], ast.NotIn):
        return [("%s in %s" % (src(test.left), src(test.comparators[0])),
                 not truth)]
    return [(src(test), truth)]


def _element_omission(repo, ve):
    """Walk what visit_element returns, keeping track of whether the branch
    taken establishes "start['namespace'] in self.DROP_NS" as false.
    -> (lines of Element nodes reached without it, number of Element nodes)"""
    res = L.emission(repo, ve.qualname)
    atom = "start['namespace'] in self.DROP_NS"
    memo = set()
    bad, count = [], [0]

    def known(test_text, truth):
        try:
            t = ast.parse(test_text, mode="eval").body
        except SyntaxError:
            return None
        t = L.inline_locals(ve.node, t)
        for text, tr in _implied(t, truth):
            if text.replace('"', "'") == atom:
                return not tr
        return None

    def rec(v, ok):
        if (id(v), ok) in memo:
            return
        memo.add((id(v), ok))
        if isinstance(v, A.Alt):
            for branch, truth in ((v.a, True), (v.b, False)):
                k = known(v.test, truth)
                rec(branch, ok if k is None else k)
            return
        if isinstance(v, A.NodeV) and v.kind == "Element":
            count[0] += 1
            if not ok:
                bad.append(getattr(v, "lineno", 0))
        for _, k in v.kids():
            rec(k, ok)
    rec(res.value, False)
    return sorted(set(bad)), count[0]


def _tables(repo, rep):
    mp = repo.cls(MP[:-1])
    drop = mp.attrs.get("DROP_NS")
    names = [src(e) for e in drop.elts] if isinstance(drop, ast.Tuple) else []
    rep.check(set(names) == LANG and len(names) == 4, "R18.4",
              mp.qualname + ".DROP_NS", "the drop set is exactly the TAL, "
              "METAL, I18N and META namespaces", construct="drop-ns",
              detail=str(names))
    dn = mp.attrs.get("DEFAULT_NAMESPACES")
    ok = isinstance(dn, ast.Dict)
    table = {}
    if ok:
        for k, v in zip(dn.keys, dn.values):
            table[k.value] = src(v)
    rep.check(table == {"xmlns": "XMLNS_NS", "xml": "XML_NS", "tal": "TAL",
                        "metal": "METAL", "i18n": "I18N", "meta": "META"},
              "R18.4", mp.qualname + ".DEFAULT_NAMESPACES",
              "the default prefixes are bound to the language namespaces",
              construct="default-namespaces", detail=str(table))
    uris = {}
    for k in ("TAL_NS", "METAL_NS", "I18N_NS", "META_NS", "XMLNS_NS",
              "XML_NS"):
        uris[k] = repo.const("chameleon.namespaces", k)
    rep.check(len(set(uris.values())) == len(uris), "R18.4",
              "chameleon.namespaces", "the namespace URIs are distinct",
              construct="uris-distinct")
    ve = repo.func(MP + "visit_element")
    unguarded, n_el = _element_omission(repo, ve)
    rep.check(n_el >= 2 and not unguarded, "R18.4", ve.qualname,
              "every Element node the element is built into (the element "
              "itself and its on-error fallback) is built only where the "
              "element's namespace is known not to be in the drop set -- "
              "whatever tal:omit-tag says", construct="element-omission",
              where=L.where(ve, unguarded[0] if unguarded else None),
              detail="Element nodes: %d; reached without the test at "
                     "line(s) %s" % (n_el, unguarded))
    calls = [src(n) for n in ast.walk(ve.node) if isinstance(n, ast.Call)
             and src(n.func) == "validate_attributes"]
    rep.check(sorted(calls) == sorted([
        "validate_attributes(ns, TAL, tal.WHITELIST)",
        "validate_attributes(ns, METAL, metal.WHITELIST)",
        "validate_attributes(ns, I18N, i18n.WHITELIST)"]), "R18.4",
        ve.qualname, "unknown names in the TAL, METAL and I18N namespaces "
        "are rejected", construct="validation", where=L.where(ve),
        detail=str(calls))
    c = [n for n in ast.walk(ve.node) if isinstance(n, ast.Call)
         and src(n.func).endswith("prepare_attributes")]
    rep.check(bool(c) and src(c[0].args[-1]) == "self.DROP_NS", "R18.4",
              ve.qualname, "the attribute merge receives the drop set",
              construct="drop-passed", where=L.where(ve))
    # parse_tag: element namespace by prefix; update_namespace first
    pt = repo.func(PARSER + "parse_tag")
    order = [src(n.func) for n in ast.walk(pt.node) if isinstance(n, ast.Call)
             and src(n.func) in ("update_namespace", "unpack_attributes",
                                 "namespace.get")]
    lines = {src(n.func): n.lineno for n in ast.walk(pt.node)
             if isinstance(n, ast.Call)}
    ok = lines.get("update_namespace", 99) < lines.get("namespace.get", 0) \
        < lines.get("unpack_attributes", 0)
    rep.check(ok, "R18.4", pt.qualname, "xmlns declarations of a tag take "
              "effect before its own name and attributes are resolved "
              "(declaration order inside the tag does not matter)",
              construct="declare-first", where=L.where(pt))
