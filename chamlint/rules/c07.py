"""C07 -- attribute rendering: static, dynamic, default, None, boolean, dict."""
from __future__ import annotations

import ast

from .. import absint as A
from .. import lib as L
from .. import paths as P
from ..core import AnalysisError, src

COMP = "chameleon.compiler."
PROG = "chameleon.zpt.program.MacroProgram."
PREP = "chameleon.tal.prepare_attributes"


def run(repo, rep, tier):
    rep.explanation = (
        "Attribute rendering is decided in three places whose code is "
        "analysed for all elements at once: (1) tal.prepare_attributes "
        "merges static, dynamic and i18n attributes into one ordered list "
        "with a case-folded name->index map -- path rules check that every "
        "recorded index is the index of the element just stored, that both "
        "sides of every lookup are case-folded, that a dynamic value "
        "replaces the static entry in place and new names are appended; "
        "(2) MacroProgram._create_attributes_nodes chooses a node kind per "
        "entry -- abstract interpretation yields every (condition, node) leaf "
        "and the conditions are checked against the table static/"
        "interpolated/boolean/dict/substitution; (3) the emitters write an "
        "attribute only if its value is not None and not overridden, and "
        "emit_bool maps marker->default, true->name, false->nothing.")
    rep.assumptions = [
        "list.insert(len(l), x) appends; dict semantics",
        "concrete override outcomes for concrete dictionaries are not "
        "computed",
    ]
    rep.rule("R07.1", "G-INDEXMAP: a recorded index is the index of the "
                      "entry just stored, on every path")
    rep.rule("R07.2", "attribute names are case-folded at every store into "
                      "and every lookup of the name->index map")
    rep.rule("R07.3", "node choice table of _create_attributes_nodes")
    rep.rule("R07.4", "emission: written only if not None and not "
                      "overridden; emit_bool; boolean dict entries")
    rep.rule("R07.5", "HTML boolean defaults only outside XML mode and only "
                      "without an explicit set")
    rep.rule("R07.6", "merge order: static attributes keep their position, "
                      "a dynamic value replaces in place, new names are "
                      "appended in statement order")
    _prepare(repo, rep)
    _choice(repo, rep)
    _emission(repo, rep)
    _default_paths(repo, rep)
    _defaults(repo, rep)
    _value_fields(repo, rep)
    # the expression of a dynamic attribute is entity-decoded ONCE: the
    # statement value is decoded as a whole where the element is visited;
    # the node builder must not decode the parts again (and its three
    # branches -- dictionary, boolean, substitution -- must agree)
    ve_ = repo.func("chameleon.zpt.program.MacroProgram.visit_element")
    upstream = any(isinstance(n, ast.Assign) and
                   src(n.targets[0]).startswith("ns[") and
                   "decode_htmlentities(" in src(n.value)
                   for n in ast.walk(ve_.node))
    cn_ = repo.func("chameleon.zpt.program.MacroProgram."
                    "_create_attributes_nodes")
    again = [n for n in ast.walk(cn_.node) if isinstance(n, ast.Call)
             and src(n.func) == "decode_htmlentities"]
    rep.check(upstream and not again, "R07.3", cn_.qualname, "the "
              "expression text of a tal:attributes entry reaches the engine "
              "entity-decoded exactly once (decoded with the whole statement "
              "value, not again per entry): '&amp;amp;' is '&amp;' for the "
              "expression, as in tal:content", construct="decoded-once",
              where=L.where(cn_, again[0].lineno) if again else L.where(cn_),
              detail="statement values decoded upstream: %s; decoded again "
                     "at %s" % (upstream, [n.lineno for n in again]))
    # 'the static text if it is default': for a static value that holds
    # ${...} the original markup is the interpolated text, not its source
    defs_ = [n for n in ast.walk(cn_.node) if isinstance(n, ast.Assign)
             and src(n.targets[0]) == "default"
             and "ast.Constant(text)" in src(n.value)]
    plain_only = bool(defs_)
    for n in defs_:
        gs = [(src(P._cond(t_, True, None)[1]),
               P._cond(t_, True, None)[2] == v_)
              for t_, v_ in L.guards_of(n, cn_.node)
              if not isinstance(t_, ast.ExceptHandler)]
        if not L.cond_holds(gs, "'${' in text", False):
            plain_only = False
    rep.check(plain_only, "R07.3", cn_.qualname, "the default of a dynamic "
              "attribute is the static text only where that text holds no "
              "${...} (else 'default' would write the expression's source "
              "instead of its value)", construct="default-interpolated",
              where=L.where(cn_, defs_[0].lineno) if defs_ else L.where(cn_))
    # the ';' of every entity the decoder recognises is protected by the
    # splitter: the body classes and lengths of tal.ENTITY_RE cover those of
    # utils.entity_re (&frac12; &sup2; &#x3C; have digits in their bodies)
    from .. import rx
    def bodies(mod, name):
        rc = repo.const(mod, name)
        pat = rc.pattern if isinstance(rc.pattern, str) else \
            rc.pattern.decode("latin-1")
        tree = rx.parse(pat, rc.flags)
        out = []
        def walk(items):
            for op, av in items:
                if op is rx.C.BRANCH:
                    alts = [list(a) for a in av[1]]
                    if all(len(a) == 1 and a[0][0] in (
                            rx.C.MAX_REPEAT, rx.C.MIN_REPEAT) for a in alts):
                        for a in alts:
                            out.append((rx.all_chars(a[0][1][2]),
                                        a[0][1][0], a[0][1][1]))
                    for a in av[1]:
                        walk(a)
                elif op is rx.C.SUBPATTERN:
                    walk(av[3])
                elif op in (rx.C.MAX_REPEAT, rx.C.MIN_REPEAT):
                    walk(av[2])
        walk(tree)
        return out
    dec_b = bodies("chameleon.utils", "entity_re")
    spl_b = bodies("chameleon.tal", "ENTITY_RE")
    uncovered = [d for d in dec_b if not any(
        d[0] <= s_[0] and s_[1] <= d[1] and d[2] <= s_[2] for s_ in spl_b)]
    rep.check(bool(dec_b) and bool(spl_b) and not uncovered, "R07.6",
              "chameleon.tal.ENTITY_RE", "every entity body the decoder "
              "accepts (character class and length of each alternative of "
              "utils.entity_re) is accepted by the pattern that protects "
              "its ';' from the statement splitter",
              construct="entity-protect-covers-decode",
              detail="decoder %s, splitter %s" % (dec_b, spl_b))
    # the table of HTML boolean attributes is a list of single words
    nt, glued = L.glued_words(repo, ("chameleon.zpt.template",
                                     "chameleon.zpt.program"))
    if nt < 1:
        raise AnalysisError("no word table found in zpt/template.py")
    rep.check(not glued, "R07.5", "chameleon.zpt.template", "every entry of "
              "a word table (BOOLEAN_HTML_ATTRIBUTES ...) is one string "
              "literal: no two names are glued together by a missing comma",
              construct="table-entry-glued",
              where="%s:%d" % (glued[0][0].relpath, glued[0][1]) if glued
              else "", detail="; ".join(g[2] for g in glued[:3]))
    # a translated attribute (i18n:attributes) whose value is None is still
    # dropped: the value is not handed to the translation function first
    from .c10 import translate_skips_none
    translate_skips_none(repo, rep, rule="R07.4")
    # 'the escaped dynamic value': every path of the routine that converts
    # and escapes an attribute value, for every value class (C02 owns the
    # path analysis)
    from . import c02
    L.borrow(repo, rep, "R07.4", "C02", lambda r, p: c02._quote_paths(
        r, p, tier), ("BAD", "class-missing"), minimum=3)
    # tal:attributes entries are cut out of the statement value by the part
    # splitter and the entry pattern (C01 owns the statement patterns)
    # what the tag dissection records as name and value (C03 owns it)
    from . import c03 as _c03
    L.borrow(repo, rep, "R07.1", "C03",
             lambda r_, p_: _c03.parser_details(r_, p_, slash=True),
             ("slash-not-before-gt", "tag-space"))
    from . import c01 as _c01
    L.borrow(repo, rep, "R07.1", "C01", _c01.statement_patterns,
             ("statement-space", "statement-expression-width",
              "split-parts-steps"), minimum=3)
    L.option_defaults_rule(repo, rep, "R07.5", ("boolean_attributes",))
    L.option_forwarded_rule(repo, rep, "R07.5", ("default_marker",))
    L.engine_fields_rule(repo, rep, "R07.4")
    # (C09 owns the element details)
    from . import c09 as _c09
    L.borrow(repo, rep, "R07.4", "C09", _c09.element_details,
             ("quote-when-computed", "decode-which", "multipart-complete"))
    ee = repo.func("chameleon.compiler.ExpressionEngine.__init__")
    a_ = ee.node.args
    names_ = [x.arg for x in a_.args]
    dflt_ = dict(zip(names_[len(names_) - len(a_.defaults):], a_.defaults))
    dflt_.update({k.arg: d for k, d in zip(a_.kwonlyargs, a_.kw_defaults)
                  if d is not None})
    lf = dflt_.get("literal_false")
    rep.check(isinstance(lf, ast.Constant) and lf.value is True, "R07.4",
              ee.qualname, "a false value is written literally unless the "
              "engine is told otherwise (boolean attributes say so "
              "explicitly): the default of literal_false is True",
              construct="literal-false-default", where=L.where(ee),
              detail=src(lf) if lf is not None else "missing")
    # generated identifiers: mangle() replaces every character that is not a
    # word character (an attribute 'xml:lang' or 'data-a.b' gives a local)
    from .. import rx as _rx
    rm = repo.const("chameleon.compiler", "RE_MANGLE")
    items = list(_rx.parse(rm.pattern, rm.flags))
    okm = len(items) == 1
    if okm:
        replaced = _rx.all_chars(items)
        kept_bad = [ch for ch in ":.-+ /\\'\"<>[]" if ch not in replaced]
        okm = not kept_bad and not any(
            ch in replaced for ch in "azAZ09_")
    rep.check(okm, "R07.4", "chameleon.compiler.RE_MANGLE", "the mangling "
              "pattern replaces exactly the characters that are not word "
              "characters", construct="mangle-class", detail=rm.pattern)
    # HTML boolean defaults depend on the document type, which for a
    # document announced by a meta element is read from the match (C17)
    from . import c17 as _c17
    L.borrow(repo, rep, "R07.5", "C17", _c17._meta_group_roles,
             ("meta-group-roles",))
    # a static attribute keeps its place when data-* statements leave the
    # attribute list (C18 owns the conversion); what decides the boolean
    # set is part of the cache key (C15 owns the key)
    from . import c18 as _c18
    L.borrow(repo, rep, "R07.1", "C18", _c18._keyed,
             ("data-prefix", "language-only"), minimum=2)
    from . import c15 as _c15
    L.borrow(repo, rep, "R07.5", "C15", _c15._coverage,
             ("lossy-hash", "none-distinct"), minimum=0)
    L.state_rule(repo, rep)


# ---------------------------------------------------------------------------


def _stmts_with_parents(fnode):
    """(stmt, enclosing block list, index) for every statement"""
    out = []

    def rec(block):
        for i, st in enumerate(block):
            out.append((st, block, i))
            for fld in ("body", "orelse", "finalbody"):
                sub = getattr(st, fld, None)
                if isinstance(sub, list) and sub and isinstance(
                        sub[0], ast.stmt):
                    rec(sub)
            for h in getattr(st, "handlers", []) or []:
                rec(h.body)
    rec(fnode.body)
    return out


def _single_exit(repo, rep):
    """every element's attributes go through the whole merge: the function
    has one exit, its end (an early exit 'for the trivial case' skips the
    case-insensitive merge of the statement's own entries)"""
    f = repo.func("chameleon.tal.prepare_attributes")
    rets = [r_ for r_ in ast.walk(f.node) if isinstance(r_, ast.Return)]
    rep.check(len(rets) == 1 and f.node.body and rets[0] is f.node.body[-1],
              "R07.1", f.qualname, "the attribute merge has a single exit, "
              "after all of its steps (%d return statement(s))" % len(rets),
              construct="merge-single-exit", where=L.where(
                  f, rets[0].lineno if rets else None))


def _prepare(repo, rep):
    _single_exit(repo, rep)
    f = repo.func(PREP)
    site = f.qualname
    # identify the list and the map
    lists, maps = set(), set()
    for n in ast.walk(f.node):
        if isinstance(n, ast.Assign) and isinstance(n.targets[0], ast.Name):
            if isinstance(n.value, ast.List) and not n.value.elts:
                lists.add(n.targets[0].id)
            if isinstance(n.value, ast.Dict) and not n.value.keys:
                maps.add(n.targets[0].id)
    if not lists or not maps:
        raise AnalysisError("prepare_attributes: list/map not found")
    stmts = _stmts_with_parents(f.node)
    # R07.1 every store into the map
    nstores = 0
    for st, block, i in stmts:
        if not (isinstance(st, ast.Assign) and
                isinstance(st.targets[0], ast.Subscript) and
                isinstance(st.targets[0].value, ast.Name) and
                st.targets[0].value.id in maps):
            continue
        nstores += 1
        mp = st.targets[0].value.id
        key = st.targets[0].slice
        val = st.value
        wh = L.where(f, st.lineno)
        # R07.2 key folded
        rep.check(isinstance(key, ast.Call) and
                  isinstance(key.func, ast.Attribute) and
                  key.func.attr == "lower" or
                  _is_lowered_name(f.node, key), "R07.2", site,
                  "the name is case-folded when it is recorded (line %d)"
                  % st.lineno, construct="store-key:%s" % src(key), where=wh,
                  detail=src(key))
        pass
    # R07.1 the recorded index is the position of the entry stored on the
    # same pass through the loop body (symbolic list length per path)
    loops = [s for s, _, _ in stmts if isinstance(s, ast.For)
             and getattr(s, "_parent", None) is f.node]
    in_loop = set()
    for loop in loops:
        for n in ast.walk(loop):
            in_loop.add(id(n))
        paths = P.enum_paths(loop.body)
        rep.count("paths", len(paths))
        probs, nst = [], 0
        for p in paths:
            res = _interp(p, lists, maps)
            if res is None:
                continue
            writes, stores, bad = res
            nst += len(stores)
            probs.extend(bad)
            for key, val, line in stores:
                if not any(pos == val for pos, _ in writes):
                    probs.append(
                        "line %d records %s while the entry of this pass "
                        "is stored at %s" % (line, _show(val), ", ".join(
                            _show(pos) for pos, _ in writes) or "nothing"))
            pc = [(src(e[1]), e[2]) for e in p if e[0] == "cond"]
            for pos, line in writes:
                if pos[0] == "n" and not stores and not (
                        L.cond_holds(pc, "name is not None", False) or
                        L.cond_holds(pc, "name is None", True)):
                    probs.append("line %d adds an entry whose index is "
                                 "not recorded" % line)
        if nst or probs:
            rep.check(not probs, "R07.1", site,
                      "the name map records, for every entry added in the "
                      "loop over %s, the position that entry is stored at"
                      % src(loop.iter),
                      construct="index:for %s" % src(loop.iter),
                      where=L.where(f, loop.lineno),
                      detail="; ".join(sorted(set(probs)))[:300])
    for st, block, i in stmts:
        tgt = None
        if isinstance(st, ast.Assign) and \
                isinstance(st.targets[0], ast.Subscript) and \
                isinstance(st.targets[0].value, ast.Name) and \
                st.targets[0].value.id in maps:
            tgt = st
        if isinstance(st, ast.Expr) and isinstance(st.value, ast.Call) and \
                isinstance(st.value.func, ast.Attribute) and \
                st.value.func.attr in ("setdefault", "update") and \
                src(st.value.func.value) in maps:
            tgt = st
        if tgt is not None and id(tgt) not in in_loop:
            rep.check(False, "R07.1", site, "a store into the name map "
                      "outside the three merge loops is not followed",
                      construct="index:top", where=L.where(f, st.lineno),
                      detail=src(st)[:80])
    rep.require_min("R07.1", 3, "static, dynamic and i18n recorders")
    # R07.2 lookups
    nlook = 0
    for n in ast.walk(f.node):
        key = None
        if isinstance(n, ast.Call) and isinstance(n.func, ast.Attribute) and \
                n.func.attr == "get" and isinstance(n.func.value, ast.Name) \
                and n.func.value.id in maps:
            key = n.args[0]
        elif isinstance(n, ast.Compare) and len(n.ops) == 1 and \
                isinstance(n.ops[0], (ast.In, ast.NotIn)) and \
                isinstance(n.comparators[0], ast.Name) and \
                n.comparators[0].id in maps:
            key = n.left
        elif isinstance(n, ast.Subscript) and isinstance(n.ctx, ast.Load) \
                and isinstance(n.value, ast.Name) and n.value.id in maps:
            key = n.slice
        if key is None:
            continue
        nlook += 1
        rep.check(isinstance(key, ast.Call) and
                  isinstance(key.func, ast.Attribute) and
                  key.func.attr == "lower" or _is_lowered_name(f.node, key),
                  "R07.2", site, "the name is case-folded when it is looked "
                  "up (line %d)" % n.lineno,
                  construct="lookup-key:%s" % src(key),
                  where=L.where(f, n.lineno), detail=src(key))
    rep.check(nlook >= 2, "R07.2", site, "lookups of the name map were found",
              construct="lookups-found", detail=str(nlook))

    # R07.6 merge order
    lst = sorted(lists)[0] if len(lists) == 1 else "attributes"
    text = " ".join(src(s) for s, _, _ in stmts)
    # static loop: append in written order, skipping dropped names
    static_loops = [s for s, _, _ in stmts if isinstance(s, ast.For)
                    and src(s.iter) == "attrs"]
    ok = len(static_loops) == 1 and any(
        isinstance(c, ast.Call) and src(c.func) == lst + ".append"
        for c in ast.walk(static_loops[0]))
    rep.check(ok, "R07.6", site, "static attributes are appended in written "
              "order", construct="static-order", where=L.where(f))
    i18n_loops = [s for s, _, _ in stmts if isinstance(s, ast.For)
                  and src(s.iter) == "i18n_attributes"]
    dl = [s for s, _, _ in stmts if isinstance(s, ast.For)
          and src(s.iter) == "dyn_attributes"]
    rep.check(len(i18n_loops) == 1 and len(dl) == 1 and
              i18n_loops[0].lineno > dl[0].lineno, "R07.6", site,
              "names that only i18n:attributes mentions are added after the "
              "tal:attributes entries were merged (statement names keep "
              "their order; a name that tal:attributes supplies is not "
              "pre-empted with its own name as text)",
              construct="i18n-names-last", where=L.where(f))
    dyn_loops = [s for s, _, _ in stmts if isinstance(s, ast.For)
                 and src(s.iter) == "dyn_attributes"]
    ok = False
    detail = ""
    if len(dyn_loops) == 1:
        paths = P.enum_paths(dyn_loops[0].body)
        rep.count("paths", len(paths))
        ok = True
        for p in paths:
            res = _interp(p, lists, maps)
            if res is None:
                continue
            writes, _, bad = res
            kinds = sorted({pos[0] for pos, _ in writes})
            # one entry per statement: either over the entry the name map
            # points at, or at the end
            if len(writes) != 1 or bad or kinds[0] not in ("idx", "n") or (
                    kinds[0] == "n" and writes[0][0] != ("n", 0)):
                ok = False
                detail = "a pass stores %s%s" % (
                    ", ".join(_show(pos) for pos, _ in writes) or "nothing",
                    "; " + bad[0] if bad else "")
    rep.check(ok, "R07.6", site, "a dynamic value for an existing name "
              "replaces that entry in place (at most once per name); a new "
              "name is inserted at the end", construct="dynamic-merge",
              where=L.where(f), detail=detail)
    # the static text/quote/space/eq survive the replacement; the merged
    # entry is (name, text, quote, space, eq, expr)
    keep, shape, nfound = True, True, 0
    tg = dyn_loops[0].target if len(dyn_loops) == 1 else None
    tnames = [x.id for x in getattr(tg, "elts", []) if isinstance(x, ast.Name)]
    if len(tnames) != 2:
        tnames = ["name", "expr"]
    for p in (paths if len(dyn_loops) == 1 else []):
        res = _interp(p, lists, maps)
        if res is None:
            continue
        for pos, line in res[0]:
            v = _interp.values.get(line)
            if not (v and v[0] == "tuple" and len(v[1]) == 6 and
                    v[1][0] == ("var", tnames[0]) and
                    v[1][5] == ("var", tnames[1])):
                shape = False
                continue
            if pos[0] == "idx":
                nfound += 1
                if [x for x in v[1][1:5]] != [
                        ("field", pos, k) for k in (1, 2, 3, 4)]:
                    keep = False
    rep.check(keep and nfound > 0, "R07.6", site, "the replaced entry keeps "
              "the static text (default), quote, spacing and '='",
              construct="keep-lexical", where=L.where(f))
    rep.check(shape, "R07.6", site, "the merged entry is (name, text, quote, "
              "space, eq, expr)", construct="merged-tuple", where=L.where(f))
    # duplicates inside one tal:attributes are rejected by parse_attributes
    pa = repo.func("chameleon.tal.parse_attributes")
    t2 = L.text(pa.node)
    rep.check("if name in seen:" in t2 and "raise LanguageError" in t2 and
              "seen.add(name)" in t2, "R07.6", pa.qualname,
              "a name may occur once in a tal:attributes list",
              construct="duplicates", where=L.where(pa))


def _show(v):
    if v[0] == "n":
        return "len%+d" % v[1] if v[1] else "len"
    return "%s(%s)" % v[:2]


def _interp(path, lists, maps):
    """Walk one path through a merge-loop body with the list length kept
    symbolically (n + k, n = length when the pass starts).  Returns
    (writes [(position, line)], stores [(key, value, line)], problems)."""
    ln = [0]
    env = {}
    writes, stores, bad = [], [], []
    values = _interp.values = {}

    def ev(e):
        t = src(e)
        for lst in lists:
            if t == "len(%s)" % lst:
                return ("n", ln[0])
            if t == "len(%s) - 1" % lst:
                return ("n", ln[0] - 1)
            if t in (lst + ".__setitem__", lst + ".insert", lst + ".append"):
                return ("method", t.split(".")[1])
        if isinstance(e, ast.Name):
            return env.get(e.id, ("var", e.id))
        if isinstance(e, ast.IfExp):
            # index = map.get(key) if name else None
            a, b = ev(e.body), ev(e.orelse)
            if b == ("const", "None"):
                return a
            if a == ("const", "None"):
                return b
            return ("expr", t)
        if isinstance(e, ast.Constant):
            return ("const", repr(e.value))
        if isinstance(e, ast.Tuple):
            return ("tuple", tuple(ev(x) for x in e.elts))
        if isinstance(e, ast.Call) and isinstance(e.func, ast.Attribute) \
                and e.func.attr == "get" and src(e.func.value) in maps \
                and len(e.args) == 1:
            return ("idx", src(e.args[0]))
        if isinstance(e, ast.Subscript) and src(e.value) in maps:
            return ("idx", src(e.slice))
        return ("expr", t)

    def write(kind, args, line):
        values[line] = ev(args[-1]) if args else None
        if kind == "append":
            writes.append((("n", ln[0]), line))
            ln[0] += 1
        elif kind == "insert":
            pos = ev(args[0])
            if pos != ("n", ln[0]):
                bad.append("line %d inserts at %s, which shifts the entries "
                           "recorded earlier" % (line, _show(pos)))
            writes.append((pos, line))
            ln[0] += 1
        elif kind == "__setitem__":
            pos = ev(args[0])
            if pos[0] != "idx":
                bad.append("line %d overwrites position %s, which is not "
                           "an index taken from the name map" % (
                               line, _show(pos)))
            writes.append((pos, line))

    for e in path:
        if e[0] == "cond":
            t = e[1]
            if isinstance(t, ast.Compare) and len(t.ops) == 1 and \
                    isinstance(t.ops[0], (ast.Is, ast.IsNot)) and \
                    isinstance(t.left, ast.Name) and \
                    src(t.comparators[0]) == "None":
                v = env.get(t.left.id)
                is_none = e[2] == isinstance(t.ops[0], ast.Is)
                if v is not None and v[0] in ("const", "n") and \
                        (v == ("const", "None")) != is_none:
                    return None     # infeasible
        elif e[0] == "assign":
            tgt, val, st = e[1], e[2], e[3]
            tnode = None
            for t_ in getattr(st, "targets", []):
                if src(t_) == tgt:
                    tnode = t_
            if isinstance(tnode, ast.Subscript) and src(tnode.value) in lists:
                write("__setitem__", [tnode.slice, val], st.lineno)
            elif isinstance(tnode, ast.Subscript) and \
                    src(tnode.value) in maps:
                stores.append((src(tnode.slice), ev(val), st.lineno))
            elif isinstance(tnode, ast.Name):
                env[tnode.id] = ev(val)
            elif isinstance(tnode, (ast.Tuple, ast.List)):
                from_entry = isinstance(val, ast.Subscript) and \
                    src(val.value) in lists
                for k, x in enumerate(tnode.elts):
                    if isinstance(x, ast.Name):
                        env[x.id] = ("field", ev(val.slice), k) \
                            if from_entry else ("var", x.id)
        elif e[0] == "aug":
            if e[1] in lists:
                bad.append("line %d extends the list" % e[-1].lineno)
            env[e[1]] = ("expr", "aug")
        elif e[0] == "expr" and isinstance(e[1], ast.Call):
            c = e[1]
            fn = src(c.func)
            kind = None
            if isinstance(c.func, ast.Name):
                m_ = env.get(c.func.id)
                if m_ and m_[0] == "method":
                    kind = m_[1]
            elif isinstance(c.func, ast.Attribute) and \
                    src(c.func.value) in lists:
                kind = c.func.attr
                if kind not in ("append", "insert", "__setitem__"):
                    bad.append("line %d: %s changes the list in a way that "
                               "is not followed" % (c.lineno, fn))
                    kind = None
            elif isinstance(c.func, ast.Attribute) and \
                    src(c.func.value) in maps:
                if c.func.attr == "setdefault" and len(c.args) == 2:
                    stores.append((src(c.args[0]), ev(c.args[1]), c.lineno))
                elif c.func.attr not in ("get",):
                    bad.append("line %d: %s changes the name map in a way "
                               "that is not followed" % (c.lineno, fn))
            if kind:
                write(kind, c.args, c.lineno)
    return writes, stores, bad


def _is_lowered_name(fnode, key):
    """key is a local assigned from ``X.lower()``"""
    if not isinstance(key, ast.Name):
        return False
    for n in ast.walk(fnode):
        if isinstance(n, ast.Assign) and src(n.targets[0]) == key.id:
            v = n.value
            if isinstance(v, ast.Call) and isinstance(v.func, ast.Attribute) \
                    and v.func.attr == "lower":
                return True
    return False


def _branch_name(fnode, st):
    p = getattr(st, "_parent", None)
    names = []
    while p is not None and p is not fnode:
        if isinstance(p, ast.For):
            names.append("for " + src(p.iter))
        p = getattr(p, "_parent", None)
    return "/".join(reversed(names)) or "top"


def _index_ok(f, st, block, i, val, lists):
    v = src(val)
    for lst in lists:
        if v == "len(%s) - 1" % lst:
            # the closest preceding statement that touches the list, in this
            # block, must be an append to it
            for j in range(i - 1, -1, -1):
                prev = block[j]
                t = src(prev)
                if lst in t:
                    if isinstance(prev, ast.Expr) and \
                            t.startswith(lst + ".append("):
                        return True, ""
                    return False, "preceded by '%s', not by %s.append" % (
                        t[:60], lst)
            return False, ("no %s.append(...) precedes in the same block: "
                           "len(%s) - 1 is the index of an older entry" % (
                               lst, lst))
        if v == "len(%s)" % lst or isinstance(val, ast.Name):
            # index variable: must be the position the entry is then
            # inserted at, with no mutation of the list in between
            name = val.id if isinstance(val, ast.Name) else None
            fn = f.node
            if name is None:
                return False, "index expression %s is not followed" % v
            assigned = [n for n in ast.walk(fn) if isinstance(n, ast.Assign)
                        and src(n.targets[0]) == name]
            if not any(src(a.value) == "len(%s)" % lst for a in assigned):
                continue
            uses = [n for n in ast.walk(fn) if isinstance(n, ast.Call)
                    and n.args and src(n.args[0]) == name
                    and src(n.func) in ("add", lst + ".insert")]
            if uses and all(u.lineno > st.lineno for u in uses):
                return True, ""
            return False, "index variable %s is not the insert position" % name
    return False, "unrecognised index expression %s" % v


# ---------------------------------------------------------------------------


def leaves(v, conds=()):
    if isinstance(v, A.Alt):
        yield from leaves(v.a, conds + ((v.test, True),))
        yield from leaves(v.b, conds + ((v.test, False),))
    else:
        yield conds, v


def holds(conds, fragment, value=True):
    """some condition whose text contains ``fragment`` has the given truth
    (polarity-normalised: 'x is not None' true == 'x is None' false)"""
    return L.cond_holds(conds, fragment, value, contains=True)


def _dict_vs_in_place(repo, rep):
    """'later sources override earlier ones': an attribute dictionary must
    not emit a name that a *later* statement sets.  The dictionary node
    excludes the names that follow it in the merged list (names[i:]) -- but
    prepare_attributes puts a named statement that targets an existing
    static attribute at the static attribute's position, which may be
    *before* the dictionary.  Position in the merged list is then not
    statement order, and the later statement is neither excluded by the
    dictionary nor able to override it."""
    pa = repo.func("chameleon.tal.prepare_attributes")
    in_place = any(isinstance(n, ast.Assign) and
                   src(n.value).endswith(".__setitem__")
                   for n in ast.walk(pa.node))
    f = repo.func(PROG + "_create_attributes_nodes")
    v = L.emission(repo, f.qualname).value
    positional = False
    for w in A.walk(v):
        if isinstance(w, A.NodeV) and w.kind == "DictAttributes":
            ex = w.arg("exclude", ("expression", "char_escape", "quote",
                                   "exclude", "bool_names"))
            if any(isinstance(x, A.CallV) and x.name == "getitem" and
                   len(x.args) == 2 and isinstance(x.args[1], A.Sym) and
                   x.args[1].text.replace(" ", "") == "i:"
                   for x in A.walk(ex)):
                positional = True
    rep.check(not (in_place and positional), "R07.6", f.qualname,
              "what a dictionary entry excludes is every name set by a later "
              "statement -- also one that was merged into an earlier "
              "(static) position", construct="dict-exclude-misses-in-place",
              where=L.where(f), detail="exclusion by position in the merged "
              "list (names[i:]) while prepare_attributes replaces static "
              "attributes in place")


def _ancestors(n):
    a = getattr(n, "_parent", None)
    while a is not None:
        yield a
        a = getattr(a, "_parent", None)


def _split_on_written_text(repo, rep):
    """';' separates the entries of tal:attributes unless it ends a character
    entity -- a rule about the text *as written*.  visit_element decodes the
    entities of every tal:/metal: attribute value first; a literal
    ampersand written &amp; then looks like the start of an entity and the
    next ';' is taken for its end."""
    ve = repo.func(PROG + "visit_element")
    dec = [n for n in ast.walk(ve.node) if isinstance(n, ast.Assign)
           and "decode_htmlentities(" in src(n.value)
           and src(n.targets[0]).startswith("ns[")]
    parse = [n for n in ast.walk(ve.node) if isinstance(n, ast.Call)
             and src(n.func).endswith("parse_attributes")]
    sp = repo.func("chameleon.tal.split_parts")
    protects = any(isinstance(n, ast.Name) and n.id == "ENTITY_RE"
                   for n in ast.walk(sp.node))
    if not parse:
        raise AnalysisError("visit_element: parse_attributes call vanished")
    early = [d for d in dec if d.lineno < min(p.lineno for p in parse)]
    # ... unless the statements made of parts are left out of the early
    # decoding (a 'continue' under a membership test that covers
    # 'attributes') and decoded part by part after the split
    def covers_attributes(test):
        for x in ast.walk(test):
            if isinstance(x, ast.Constant) and x.value == "attributes":
                return True
            if isinstance(x, (ast.Name, ast.Attribute)):
                nm = src(x).split(".")[-1]
                for mod in ("chameleon.tal", "chameleon.zpt.program"):
                    try:
                        val = repo.const(mod, nm)
                    except Exception:
                        continue
                    if isinstance(val, (set, frozenset, tuple, list)) and \
                            "attributes" in val:
                        return True
        return False
    skipped = []
    for d in early:
        a = getattr(d, "_parent", None)
        while a is not None and not isinstance(a, ast.For):
            a = getattr(a, "_parent", None)
        if a is None:
            continue
        for x in ast.walk(a):
            if isinstance(x, ast.If) and x.lineno < d.lineno and any(
                    isinstance(y, ast.Continue) for y in x.body) and \
                    covers_attributes(x.test):
                skipped.append(d)
    pa_ = repo.func("chameleon.tal.parse_attributes")
    late = [n for n in ast.walk(pa_.node) if isinstance(n, ast.Call)
            and src(n.func) == "decode_htmlentities"
            and any(isinstance(l_, ast.For) and "split_parts(" in src(l_.iter)
                    for l_, _ in [(g, 0) for g in _ancestors(n)])]
    if skipped and len(skipped) == len(early) and late:
        early = []
    rep.check(not (early and protects), "R07.6", ve.qualname,
              "the entries of tal:attributes are split on the text as "
              "written (entity protection of ';' and entity decoding do not "
              "both happen before the split)",
              construct="split-after-decode", where=L.where(
                  ve, early[0].lineno if early else None),
              detail="%s runs before tal.parse_attributes, and split_parts "
                     "protects ';' after '&name'" % (
                         src(early[0])[:60] if early else ""))


def _history_and_undoubling(repo, rep):
    # the HTML boolean defaults depend on the document type found in *this*
    # body: write() decides it without consulting what an earlier body left
    # on the instance
    w = repo.func("chameleon.template.BaseTemplate.write")
    stale = [src(n) for n in ast.walk(w.node)
             if isinstance(n, ast.Attribute) and isinstance(n.ctx, ast.Load)
             and src(n.value) == "self"
             and n.attr in ("content_type", "content_encoding", "__dict__")]
    rep.check(not stale, "R07.5", w.qualname, "write() derives the content "
              "type from the new body (or the class default) alone",
              construct="write-history-free", where=L.where(w),
              detail=str(stale))
    # ';;' stands for one ';' inside an entry: every expression taken from
    # a split clause is un-doubled exactly once, on every branch
    from .c11 import _chains
    sp = repo.func("chameleon.tal.split_parts")
    central = [n for n in ast.walk(sp.node) if isinstance(n, ast.Call)
               and isinstance(n.func, ast.Attribute)
               and n.func.attr == "replace" and len(n.args) == 2
               and [getattr(a, "value", None) for a in n.args] == [";;", ";"]]
    for q in ("chameleon.tal.parse_attributes", "chameleon.tal.parse_defines"):
        f = repo.func(q)
        outs = [c.args[-1] for c in ast.walk(f.node)
                if isinstance(c, ast.Call) and isinstance(
                    c.func, ast.Attribute) and c.func.attr == "append"
                and c.args and isinstance(c.args[-1], ast.Tuple)]
        bad = []
        for tup in outs:
            e = tup.elts[-1]        # the expression of the entry
            for ch in _chains(f.node, e, tup.lineno + 1):
                own = sum(1 for x in ch if x == "method:replace")
                viasplit = "call:split_parts" in ch
                total = own + (1 if (viasplit and central) else 0)
                if viasplit and total != 1:
                    bad.append("%s: %s" % (src(e), " <- ".join(ch)[:90]))
        rep.check(bool(outs) and not bad, "R07.6", f.qualname, "every "
                  "expression cut out of the clause has its ';;' un-doubled "
                  "exactly once, whichever branch produced it",
                  construct="undoubled-once:" + f.name, where=L.where(f),
                  detail="; ".join(bad[:2]))


def _delimited(repo, rep):
    """A computed value is written as name="value": the quote is never the
    empty quote of an unquoted static value (shared with C02), and a static
    attribute written without '=value' gets an '=' when a computed value
    goes into it."""
    from .c02 import _quote_never_empty
    _quote_never_empty(repo, rep, rule="R07.4")
    f = repo.func(PROG + "_create_attributes_nodes")
    v = L.emission(repo, f.qualname).value
    raw = "each(enumerate(prepared))[1][4]"
    bad = []
    n = 0
    for w in A.walk(v):
        if isinstance(w, A.NodeV) and w.kind == "Attribute" and \
                len(w.args) > 3:
            n += 1
            t = A.show(w.args[3], limit=8)
            if t == raw:
                bad.append(t)
    rep.check(n >= 1 and not bad, "R07.4", f.qualname, "a value-less static "
              "attribute that receives a computed value is written with "
              "'=' (and quotes)", construct="valueless-gets-eq",
              where=L.where(f), detail="eq is passed on as written: %s"
              % bad[:1])


def _choice(repo, rep):
    _delimited(repo, rep)
    _dict_vs_in_place(repo, rep)
    _split_on_written_text(repo, rep)
    _history_and_undoubling(repo, rep)
    f = repo.func(PROG + "_create_attributes_nodes")
    res = L.emission(repo, f.qualname)
    site = f.qualname
    wh = L.where(f)
    attrs = [w for w in A.walk(res.value)
             if isinstance(w, A.NodeV) and w.kind == "Attribute"]
    if not attrs:
        raise AnalysisError("no Attribute construction found")
    FIELDS = ("name", "expression", "quote", "eq", "space", "default",
              "filters")
    a = attrs[0]
    PFX = "each(enumerate(prepared))[1]"
    name_t, text_t, expr_t = PFX + "[0]", PFX + "[1]", PFX + "[5]"
    value = a.arg("expression", FIELDS)
    n = 0
    kinds = set()
    for conds, leaf in leaves(value):
        # unwrap Translate(msgid, value)
        inner = leaf
        if isinstance(inner, A.NodeV) and inner.kind == "Translate":
            continue  # the translate wrapper's operand is enumerated as well
        n += 1
        k = inner.kind if isinstance(inner, (A.NodeV, A.Py)) else type(
            inner).__name__
        interp = holds(conds, "'${' in " + text_t, True)
        has_expr = holds(conds, expr_t + " is not None", True)
        no_expr = holds(conds, expr_t + " is not None", False) or \
            holds(conds, expr_t + " is None", True)
        if isinstance(inner, A.Py) and inner.kind == "Constant":
            kinds.add("static")
            rep.check(not interp and not has_expr and
                      A.show(inner.f.get("value")) == text_t, "R07.3", site,
                      "a static attribute (no expression, no ${) is the "
                      "constant of its source text", construct="static",
                      where=wh, detail=str(conds))
        elif k == "Interpolation" or (k == "Replace"):
            kinds.add("interpolation")
            sub = [w for w in A.walk(inner) if isinstance(w, A.NodeV)
                   and w.kind == "Substitution"]
            # ... only when it is *established* that no statement targets
            # the attribute (a tal:attributes entry beats ${} in the text)
            rep.check(interp and no_expr and not has_expr and bool(sub) and
                      A.show(sub[0].args[0]) == text_t, "R07.3", site,
                      "a static attribute containing ${ becomes an "
                      "Interpolation of its text", construct="interpolation",
                      where=wh, detail=str(conds))
            if k == "Replace":
                rep.check(holds(conds, "boolean", True), "R07.3", site,
                          "Replace (value -> name) only for boolean "
                          "attributes", construct="replace-bool", where=wh)
        elif k == "DictAttributes":
            kinds.add("dict")
            rep.check(has_expr and holds(conds, name_t + " is None", True),
                      "R07.3", site, "a nameless dynamic entry is a "
                      "DictAttributes node", construct="dict", where=wh,
                      detail=str(conds))
            ex = inner.arg("exclude", ("expression", "char_escape", "quote",
                                       "exclude", "bool_names"))
            et = A.show(ex, limit=8)
            sl = [w for w in A.walk(ex) if isinstance(w, A.CallV)
                  and w.name == "getitem" and len(w.args) == 2
                  and isinstance(w.args[1], A.Sym)
                  and w.args[1].text.replace(" ", "") == "i:"
                  and "prepared" in A.show(w.args[0], limit=6)]
            rep.check(bool(sl) and "filter" in et,
                "R07.3", site, "a dict entry excludes the names that follow "
                "it (later sources win) -- names[i:]",
                construct="dict-exclude", where=wh, detail=et[:120])
            # ... spelled as the named entries are emitted: the generated
            # test compares the dict's keys with these names as written
            loops = [w for w in A.walk(ex) if isinstance(w, A.Loop)]
            elems = [A.show(x, limit=6) for lp in loops
                     for x in A.items_of(lp.body)] if loops else []
            rep.check(elems == ["getitem(each(prepared), 0)"], "R07.3", site,
                      "the excluded names are the entries' names as written "
                      "(the same spelling the named Attribute nodes are "
                      "emitted with)", construct="dict-exclude-spelling",
                      where=wh, detail=str(elems))
            bn = inner.arg("bool_names", ("expression", "char_escape",
                                          "quote", "exclude", "bool_names"))
            rep.check("boolean_attributes" in A.show(bn), "R07.3", site,
                      "a dict entry knows the boolean attribute names",
                      construct="dict-bool", where=wh)
        elif k == "Boolean":
            kinds.add("boolean")
            rep.check(has_expr and holds(conds, name_t +
                                         " in self.boolean_attributes", True),
                      "R07.3", site, "a named dynamic entry is Boolean iff "
                      "its name is a boolean attribute", construct="boolean",
                      where=wh, detail=str(conds))
            sv = inner.arg("s", ("value", "s", "default", "default_marker"))
            rep.check(A.show(sv) == name_t, "R07.3", site,
                      "a true boolean attribute renders its own name",
                      construct="boolean-name", where=wh, detail=A.show(sv))
        elif k == "Substitution":
            kinds.add("substitution")
            rep.check(has_expr and
                      holds(conds, name_t + " in self.boolean_attributes",
                            False) and
                      holds(conds, name_t + " is None", False) and
                      expr_t in A.show(inner.args[0], limit=4), "R07.3", site,
                      "any other named dynamic entry is a Substitution of "
                      "its expression", construct="substitution", where=wh,
                      detail=str(conds))
        else:
            rep.bad("R07.3", site, "every attribute value is one of static/"
                    "interpolation/dict/boolean/substitution",
                    "unknown-kind:" + k, A.show(inner, limit=2)[:100], wh)
    for need in ("static", "interpolation", "dict", "boolean",
                 "substitution"):
        rep.check(need in kinds, "R07.3", site,
                  "the node table has a '%s' row" % need,
                  construct="row:" + need, where=wh)
    # default: the static text or nothing
    d = a.arg("default", FIELDS)
    ok = True
    for conds, leaf in leaves(d):
        t = A.show(leaf)
        if t not in ("None", "Py.Constant(value=%s)" % text_t):
            ok = False
        if t != "None" and not holds(conds, text_t + " is not None", True):
            ok = False
    if not any(A.show(leaf) != "None" for _, leaf in leaves(d)):
        ok = False
    rep.check(ok, "R07.3", site, "the default of a dynamic attribute is its "
              "static text, or nothing if there is none", construct="default",
              where=wh, detail=A.show(d, limit=3)[:140])
    # non-constant values get a 'default' alias
    defs = [w for w in A.walk(res.value) if isinstance(w, A.NodeV)
            and w.kind == "Define" and any(x is a2 for a2 in attrs
                                           for x in A.walk(w))]
    rep.check(bool(defs) and "default_marker" in A.show(defs[0].args[0],
                                                        limit=5), "R07.3",
              site, "dynamic attributes are evaluated with 'default' bound to "
              "the default marker", construct="default-alias", where=wh)
    # filters: each dict expression is registered in every open filter list
    text = L.text(f.node)
    rep.check("for fs in filtering: fs.append(expression)" in text and
              "filtering.append([])" in text, "R07.3", site,
              "a dict entry suppresses every earlier attribute it names "
              "(registered in all open filter lists, a new list is opened "
              "for later attributes)", construct="filter-chain", where=wh)
    fl = a.arg("filters", FIELDS)
    rep.check("`-1`" in A.show(fl, limit=3), "R07.3", site,
              "an attribute carries the filter list open at its position",
              construct="filter-current", where=wh, detail=A.show(fl,
                                                                  limit=2)[:80])


# ---------------------------------------------------------------------------


def _emission(repo, rep):
    f = repo.func(COMP + "Compiler.visit_Attribute")
    res = L.emission(repo, f.qualname)
    site = f.qualname
    wh = L.where(f)
    lin = L.Lin(res.emission)
    dyn = stat = None
    for i, (it, conds, _) in enumerate(lin.rows):
        if not isinstance(it, A.Frag):
            continue
        for node, b in L.frag_find(it, "if _C: __append(_F % _T)"):
            dyn = (i, it, b, conds)
        for node, b in L.frag_find(it, "if _C: __append(_S)"):
            if not L.frag_find(it, "if _C: __append(_F % _T)"):
                stat = (i, it, b, conds)
    rep.check(dyn is not None, "R07.4", site, "a dynamic attribute is written "
              "under a condition", construct="dynamic-guard", where=wh)
    if dyn:
        i, it, b, conds = dyn
        cv = L.slot_value(it, b["_C"])
        alts = list(leaves(cv)) if cv is not None else []
        ok = bool(alts)
        for c2, leaf in alts:
            t = A.show(leaf, limit=6)
            if "is not None" not in t:
                ok = False
            if holds(c2, "node.filters", True) and \
                    ("not in" not in t or "And" not in t):
                ok = False
        rep.check(ok, "R07.4", site, "a dynamic attribute is written only if "
                  "its value is not None and, when later dict sources exist, "
                  "none of them supplies the name",
                  construct="dynamic-condition", where=wh,
                  detail=A.show(cv, limit=3)[:160])
    rep.check(stat is not None and L.polarity(stat[3], "node.filters") is True,
              "R07.4", site, "a static attribute that a later dict source may "
              "override is written under the filter test",
              construct="static-filtered", where=wh)
    plain = [i for i, (it, c, _) in enumerate(lin.rows)
             if isinstance(it, A.Internal) and it.kind == "EmitText"]
    rep.check(bool(plain) and all(
        L.polarity(lin.conds(i), "node.filters") is False for i in plain),
        "R07.4", site, "a static attribute without filters is emitted "
        "verbatim", construct="static-plain", where=wh)
    # chain membership test
    ok = False
    for w in A.walk(res.emission):
        if isinstance(w, A.Frag) and w.mode == "eval" and \
                L.frag_find(w, "_N not in _C", "expr"):
            nv = w.slots.get("NAME")
            cv = w.slots.get("CHAIN")
            if nv is not None and "node.name" in A.show(nv) and \
                    cv is not None and "__chain" in A.show(cv, limit=4) and \
                    "node.filters" in A.show(cv, limit=6):
                ok = True
    rep.check(ok, "R07.4", site, "the filter test is 'name not in "
              "chain(<cached dict values of node.filters>)'",
              construct="filter-test", where=wh)

    # emit_bool
    mod = repo.module("chameleon.compiler")
    ip = L.interp(repo)
    fac = ip._factory(mod.assigns["emit_bool"][-1], mod, "emit_bool") \
        if "emit_bool" in mod.assigns else None
    if fac is None:
        raise AnalysisError("emit_bool vanished")
    fd = fac.node[1]
    import textwrap
    tree = ast.parse(textwrap.dedent(fd["source"]))
    paths = P.enum_paths(tree.body)
    got = {}
    for p in paths:
        conds = tuple((src(e[1]), e[2]) for e in p if e[0] == "cond")
        asg = [(e[1], src(e[2])) for e in p if e[0] == "assign"]
        got[conds] = asg
    want = {
        (("target is default_marker", True),): [("target", "default")],
        (("target is default_marker", False), ("target", True)):
            [("target", "s")],
        (("target is default_marker", False), ("target", False)):
            [("target", "None")],
    }
    rep.check(got == want, "R07.4", COMP + "emit_bool",
              "boolean conversion: marker -> default, true -> name, false -> "
              "None (nothing)", construct="emit-bool", detail=str(got))
    cb = repo.func(COMP + "ExpressionEngine._convert_bool")
    r = L.emission(repo, cb.qualname)
    fr = [w for w in A.walk(r.value) if isinstance(w, A.Frag)
          and w.factory == "emit_bool"]
    ok = bool(fr) and "_default_marker" in A.show(
        fr[0].slots.get("default_marker")) and "_default" in A.show(
        fr[0].slots.get("default")) and "Constant" in A.show(
        fr[0].slots.get("s"))
    rep.check(ok, "R07.4", cb.qualname, "the boolean conversion receives the "
              "name, the default and the marker", construct="bool-args",
              where=L.where(cb))
    # the structure conversion recognises the marker too (an attribute
    # value 'structure: default', a string: expression that is the marker)
    cs = repo.func(COMP + "ExpressionEngine._convert_structure")
    ec = [c for c in ast.walk(cs.node) if isinstance(c, ast.Call)
          and src(c.func) == "emit_convert"]
    rep.check(bool(ec) and all(any(
        k.arg == "default_marker" and src(k.value) == "self._default_marker"
        for k in c.keywords) for c in ec), "R07.4", cs.qualname,
        "the inline conversion receives the engine's default marker",
        construct="structure-marker", where=L.where(cs))
    # an attribute written without a value has the empty quote: the text
    # conversion supports it (it is one of the quotes looked for, and the
    # entity is computed for a character, never for the empty string)
    ct = repo.func(COMP + "ExpressionEngine._convert_text")
    loops = [n for n in ast.walk(ct.node) if isinstance(n, ast.For)
             and isinstance(n.iter, (ast.Tuple, ast.List))
             and all(isinstance(e, ast.Constant) for e in n.iter.elts)]
    quotes = {e.value for n in loops for e in n.iter.elts}
    ents = [c for c in ast.walk(ct.node) if isinstance(c, ast.Call)
            and src(c.func) == "char2entity" and c.args]
    ok_e = bool(ents)
    for c in ents:
        a = c.args[0]
        if not (isinstance(a, ast.BoolOp) and isinstance(a.op, ast.Or) and
                isinstance(a.values[-1], ast.Constant) and
                isinstance(a.values[-1].value, str) and
                len(a.values[-1].value) == 1):
            ok_e = False
    rep.check({'"', "'", ""} <= quotes and ok_e, "R07.4", ct.qualname,
              "the quotes the text conversion supports include the empty "
              "one of a minimised attribute, and the quote entity is that "
              "of a character", construct="empty-quote-supported",
              where=L.where(ct), detail="quotes looked for: %s" % sorted(
                  quotes))
    # dict attributes: boolean names inside the loop
    da = repo.func(COMP + "Compiler.visit_DictAttributes")
    r = L.emission(repo, da.qualname)
    okb = okn = False
    for w in A.walk(r.emission):
        if isinstance(w, A.Frag) and w.tree is not None:
            if L.frag_find(w, "if _N in _B:\n    if not bool(_V): continue\n"
                              "    _V = _N"):
                okb = True
            for node, b in L.frag_find(
                    w, "if _N not in _E and _V is not None:\n    _X") + \
                    L.frag_find(
                        w, "if _V is not None and _N not in _E:\n    _X"):
                # the key is compared as written: _N is the loop's own key
                # variable, not a transformation of it
                loop = getattr(node, "_parent", None)
                loop = [x for x in ast.walk(w.tree)
                        if isinstance(x, ast.For) and any(
                            y is node for y in ast.walk(x))]
                keys = {src(x.target.elts[0]) for x in loop
                        if isinstance(x.target, ast.Tuple)}
                if isinstance(b["_N"], ast.Name) and b["_N"].id in keys:
                    okn = True
    rep.check(okb, "R07.4", da.qualname, "a boolean name in an attribute "
              "dictionary renders name=\"name\" for true values and is "
              "skipped for false ones", construct="dict-bool", where=L.where(
                  da))
    rep.check(okn, "R07.4", da.qualname, "a dict entry is written only if "
              "its value is not None and no later source names it",
              construct="dict-guard", where=L.where(da))


def _default_paths(repo, rep):
    """'default' keeps the static text exactly as written: in the
    convert-and-escape routine the marker path returns the default
    untouched (no conversion, no escaping)."""
    from .c02 import quote_function
    fn, frag = quote_function(repo)
    params = [a.arg for a in fn.args.args]
    site = COMP + "emit_func_convert_and_escape(__quote)"
    if len(params) < 5:
        raise AnalysisError("__quote: unexpected parameters %s" % params)
    tgt, dflt, marker = params[0], params[3], params[4]
    paths = P.enum_paths(fn.body)
    n = 0
    ok = True
    detail = ""
    for p in paths:
        took = [e for e in p if e[0] == "cond" and
                src(e[1]).replace(" ", "") == "%sis%s" % (tgt, marker)
                and e[2]]
        if not took:
            continue
        n += 1
        last = p[-1]
        direct = last[0] == "return" and last[1] is not None and \
            src(last[1]) == dflt
        touched = [e for e in p if e[0] in ("assign", "sanitize")
                   and (e[1] == dflt or (e[0] == "assign" and e[1] == tgt
                                         and dflt in src(e[2])))]
        if not direct or touched:
            ok = False
            detail = P.path_text(p, 14)
    rep.check(ok and n >= 1, "R07.4", site, "a value that is the default "
              "marker yields the static default exactly as written (returned "
              "untouched, not converted or escaped again)",
              construct="default-untouched", detail=detail or
              ("no path tests '%s is %s'" % (tgt, marker) if n == 0 else ""))
    # None before marker: None is nothing even if the marker were None
    first = fn.body[0]
    rep.check(isinstance(first, ast.If) and src(first.test) ==
              "%s is None" % tgt, "R07.4", site, "None is tested first "
              "(None drops the attribute)", construct="none-first")


def _defaults(repo, rep):
    f = repo.func("chameleon.zpt.template.PageTemplate.parse")
    site = f.qualname
    ok = False
    for n in ast.walk(f.node):
        if isinstance(n, ast.If) and \
                src(n.test) == "self.content_type != 'text/xml'":
            for m in ast.walk(n):
                if isinstance(m, ast.If) and \
                        src(m.test) == "boolean_attributes is None" and \
                        any(src(s) == "boolean_attributes = "
                            "BOOLEAN_HTML_ATTRIBUTES" for s in m.body):
                    ok = True
    rep.check(ok, "R07.5", site, "the HTML boolean attribute set is the "
              "default only outside XML mode and only when no explicit set "
              "was given", construct="html-defaults", where=L.where(f))
    # ... and a set that was given applies in XML mode too: on every path
    # through parse() the first value of the local is the option
    okx = True
    npaths = 0
    for pth in P.enum_paths(f.node.body):
        asg = [e for e in pth if e[0] == "assign"
               and e[1] == "boolean_attributes"]
        if not any(e[0] == "return" for e in pth):
            continue
        npaths += 1
        if not asg or src(asg[0][2]) != "self.boolean_attributes":
            okx = False
    rep.check(okx and npaths >= 2, "R07.5", site, "the configured set of "
              "boolean attributes is read on every path, whatever the "
              "document type (XML documents have no default set, not no "
              "set)", construct="explicit-set-any-mode", where=L.where(f))
    tab = repo.const("chameleon.zpt.template", "BOOLEAN_HTML_ATTRIBUTES")
    # (the list the source cites: XHTML 1.0, appendix C.10 -- the boolean
    # attributes of HTML 4; more names are fine, fewer are not)
    c10 = {"compact", "nowrap", "ismap", "declare", "noshade", "checked",
           "disabled", "readonly", "multiple", "selected", "noresize",
           "defer"}
    rep.check(c10 <= set(tab) and all(x == x.lower() for x in tab),
              "R07.5", "chameleon.zpt.template.BOOLEAN_HTML_ATTRIBUTES",
              "the default set contains the boolean attributes of HTML "
              "(XHTML 1.0 C.10), lower case", construct="html-table",
              detail="missing: %s" % sorted(c10 - set(tab)))
    call = [n for n in ast.walk(f.node) if isinstance(n, ast.Call)
            and src(n.func) == "MacroProgram"]
    ok = bool(call) and any(k.arg == "boolean_attributes" and
                            "boolean_attributes" in src(k.value)
                            for k in call[0].keywords)
    rep.check(ok, "R07.5", site, "the chosen set is passed to the program",
              construct="passed", where=L.where(f))


def _value_fields(repo, rep):
    """'the static attribute ... otherwise the dynamic value': what the tag
    dissection records as the value of an attribute is the WHOLE value --
    the value groups of the attribute pattern are greedy, unbounded
    repetitions (a lazy or bounded one records a prefix; the rest of the
    value survives as loose text behind whatever replaces the attribute)."""
    from .. import rx
    import re as _re
    C = rx.C
    rc = repo.const("chameleon.parser", "match_single_attribute")
    pat = rc.pattern if isinstance(rc.pattern, str) else \
        rc.pattern.decode("latin-1")
    try:
        gi = _re.compile(pat, rc.flags).groupindex
    except _re.error as exc:
        raise AnalysisError("attribute regex does not compile: %s" % exc)
    tree = rx.parse(pat, rc.flags)
    n = 0
    for gname in sorted(gi):
        if "value" not in gname:
            continue
        loc = rx.locate_group(tree, gi[gname])
        if loc is None:
            raise AnalysisError("group %s not found" % gname)
        body = list(loc[0])
        reps = [it for it in body if it[0] in (C.MAX_REPEAT, C.MIN_REPEAT)]
        if not reps and all(it[0] in (C.ASSERT, C.ASSERT_NOT, C.AT)
                            for it in body):
            continue            # an empty marker group (value-less attribute)
        n += 1
        # what follows the group in its own sequence: a lazy repetition is
        # whole only if a delimiter it cannot skip comes right behind it
        seq, idx = loc[1][-1]
        nxt = seq[idx + 1] if idx + 1 < len(seq) else None
        delimited = nxt is not None and nxt[0] in (C.GROUPREF, C.LITERAL)
        ok = len(body) == 1 and len(reps) == 1 and \
            reps[0][1][1] >= 65535 and (
                reps[0][0] is C.MAX_REPEAT or delimited)
        rep.check(ok, "R07.1", "chameleon.parser.match_single_attribute",
                  "the value group '%s' is one greedy, unbounded repetition: "
                  "the recorded value is the whole value" % gname,
                  construct="value-greedy:" + gname,
                  detail="%s" % [(str(it[0]), it[1][0], it[1][1])
                                 for it in reps])
    if n < 2:
        raise AnalysisError("value groups of the attribute pattern vanished")
