"""C04 -- expressions follow TALES semantics and are evaluated exactly once,
in order."""
from __future__ import annotations

import ast

from .. import absint as A
from .. import lib as L
from .. import paths as P
from ..core import AnalysisError, NotConst, src

TALES = "chameleon.tales."
COMP = "chameleon.compiler."
PROG = "chameleon.zpt.program.MacroProgram."

CAUGHT = {"AttributeError", "NameError", "LookupError", "TypeError",
          "ValueError"}
TYPES = {"python": "PythonExpr", "string": "StringExpr", "not": "NotExpr",
         "exists": "ExistsExpr", "import": "ImportExpr",
         "structure": "StructureExpr"}


def run(repo, rep, tier):
    rep.explanation = (
        "TALES semantics are fixed by a few tables and by the shape of the "
        "code that each expression type emits.  The tables (prefix -> "
        "expression class, default type, the exception tuple of the pipe "
        "operator) are constant-folded and compared with the property's "
        "lists.  TalesExpr.__call__ is interpreted abstractly: alternatives "
        "must nest right-associatively as try/except over exactly that "
        "tuple, the last one unguarded.  Name and attribute lookup orders "
        "are checked path by path.  'Exactly once' is decided as a linearity "
        "property of node construction: a Value/Negate object used in two or "
        "more constructor positions must be listed in a Cache node enclosing "
        "all uses; and the expression transformer must consult its cache "
        "before evaluating.  Binding constructs of Python expressions must "
        "have scope-aware handlers in the name rewriter (exhaustiveness).")
    rep.assumptions = [
        "Python try/except semantics; getattr/__getitem__ protocol",
        "which alternative of a concrete pipe wins for concrete values is "
        "value-level and not decided",
    ]
    rep.rule("R04.1", "tables: prefix -> expression class, default type, "
                      "exception tuple of the pipe operator")
    rep.rule("R04.2", "pipe skeleton: right-nested try/except over the "
                      "exception tuple, last alternative unguarded, no bare "
                      "handler, no finally")
    rep.rule("R04.3", "lookup order: template variables before builtins; "
                      "attribute access falls back to item access and "
                      "re-raises the original AttributeError")
    rep.rule("R04.4", "G-LINEAR: a value used in >= 2 positions is cached "
                      "around all uses; the transformer consults the cache "
                      "before evaluating")
    rep.rule("R04.5", "every emitter evaluates only expressions of its own "
                      "node, and the prefix wrappers evaluate their operand "
                      "once")
    rep.rule("R04.6", "binding constructs inside expressions have scope-"
                      "aware handlers in the name rewriter")
    rep.rule("R04.7", "string: / import: helpers: the $name grammar, one "
                      "parse+assign per ${...} occurrence, dotted-name "
                      "resolution descends by getattr")
    _tables(repo, rep)
    from . import c01
    L.borrow(repo, rep, "R04.4", "C01", c01.order, ("kind:case",))
    _string_and_import(repo, rep)
    tales_details(repo, rep)
    _pipe(repo, rep)
    _lookup(repo, rep)
    _linear(repo, rep)
    _own_exprs(repo, rep)
    _binders(repo, rep)
    rewriter_total(repo, rep)
    # string: expressions find their ${...} with the interpolator's
    # patterns (a substitution may span lines): C06 owns the loop rules
    from . import c06
    L.borrow(repo, rep, "R04.7", "C06", lambda r, p: c06._loop(r, p),
             ("regex:",), minimum=2)
    # a node's settings (its default marker, its escape set) reach the
    # engine that compiles its expression
    L.engine_fields_rule(repo, rep, "R04.1")
    from . import c20 as _c20
    L.borrow(repo, rep, "R04.1", "C20", _c20._lone_value,
             ("python-line-ends",))
    # a statement written in the data-* spelling is the same expression
    # (C18 owns the conversion: it runs before the values are decoded)
    from . import c18 as _c18
    L.borrow(repo, rep, "R04.1", "C18", _c18._keyed, ("convert-first",))
    # "expressions in parts that are not rendered are never evaluated": a
    # taken case cancels the switch before its body runs (C01 owns the
    # emitter skeletons)
    from . import c01 as _c01
    L.borrow(repo, rep, "R04.4", "C01", _c01._skeletons, ("cancel-order",))
    L.state_rule(repo, rep)


def _names_tuple(node):
    if isinstance(node, (ast.Tuple, ast.List, ast.Set)):
        return [src(e) for e in node.elts]
    return None


def _tables(repo, rep):
    pt = repo.cls("chameleon.zpt.template.PageTemplate")
    et = pt.attrs.get("expression_types")
    site = pt.qualname + ".expression_types"
    if not isinstance(et, ast.Dict):
        raise AnalysisError("PageTemplate.expression_types is not a dict")
    table = {}
    for k, v in zip(et.keys, et.values):
        if isinstance(k, ast.Constant):
            table[k.value] = src(v)
    for prefix, cls in TYPES.items():
        rep.check(table.get(prefix) == cls, "R04.1", site,
                  "prefix '%s:' is compiled by %s" % (prefix, cls),
                  construct="type:" + prefix, detail=str(table.get(prefix)))
    de = pt.attrs.get("default_expression")
    rep.check(isinstance(de, ast.Constant) and de.value == "python", "R04.1",
              pt.qualname, "the default expression type is python",
              construct="default-type", detail=src(de) if de is not None
              else "missing")
    ep = repo.func("chameleon.zpt.template.PageTemplate.expression_parser")
    text = L.text(ep.node, body_only=True)
    rep.check("ExpressionParser(self.expression_types, "
              "self.default_expression)" in text, "R04.1", ep.qualname,
              "the parser is built from these two tables",
              construct="parser-tables", where=L.where(ep))
    te = repo.cls(TALES + "TalesExpr")
    ex = _names_tuple(te.attrs.get("exceptions"))
    rep.check(ex is not None and set(ex) == CAUGHT and len(ex) == len(CAUGHT),
              "R04.1", te.qualname + ".exceptions",
              "the pipe operator falls through on exactly AttributeError, "
              "NameError, LookupError, TypeError, ValueError",
              construct="pipe-exceptions", detail=str(ex))
    # subclasses must not override the tuple
    for sub in repo.subclasses(te):
        rep.check("exceptions" not in sub.attrs, "R04.1", sub.qualname,
                  "%s inherits the pipe exception tuple" % sub.name,
                  construct="override:" + sub.name)
    xe = repo.cls(TALES + "ExistsExpr")
    ex2 = _names_tuple(xe.attrs.get("exceptions"))
    # (documented in reference.rst: AttributeError, LookupError, TypeError,
    # NameError -- KeyError is a LookupError)
    rep.check(ex2 is not None and set(ex2) <= CAUGHT and
              {"AttributeError", "LookupError", "TypeError",
               "NameError"} <= set(ex2) and
              "Exception" not in ex2 and "BaseException" not in ex2,
              "R04.1", xe.qualname + ".exceptions",
              "exists: swallows the documented lookup-type exceptions "
              "(AttributeError, LookupError, TypeError, NameError) and "
              "lookup-type exceptions only",
              construct="exists-exceptions", detail=str(ex2))
    # the prefix pattern: optional white space, a lower-case word, ':'
    mp = repo.module("chameleon.tales").assigns.get("match_prefix")
    pat = None
    if mp and isinstance(mp[-1], ast.Attribute) and \
            mp[-1].attr == "match" and isinstance(mp[-1].value, ast.Call):
        try:
            pat = repo.fold(mp[-1].value, repo.module("chameleon.tales"))
        except NotConst:
            pat = None
    ok = False
    detail = getattr(pat, "pattern", str(pat))
    if pat is not None and hasattr(pat, "pattern"):
        from .. import rx
        tree = list(rx.parse(pat.pattern, pat.flags))
        kinds = [str(op) for op, av in tree]
        # AT_BEGINNING, optional space*, group(1) = word, ':'
        gtree = rx.group_tree(rx.parse(pat.pattern, pat.flags))
        last = tree[-1] if tree else None
        starts = tree and tree[0][0] is rx.C.AT
        colon = last is not None and last[0] is rx.C.LITERAL and \
            chr(last[1]) == ":"
        grp = [av for op, av in tree if op is rx.C.SUBPATTERN and av[0] == 1]
        word_ok = False
        if grp:
            info = rx.analyse(grp[0][3])
            lower = rx.CharSet([(97, 122)])
            word_ok = info.first == lower and not info.nullable
        ok = bool(starts and colon and word_ok)
    rep.check(ok, "R04.1", "chameleon.tales.match_prefix",
              "a type prefix is a word starting with a lower-case letter, "
              "anchored at the start (after optional white space) and "
              "followed by ':'", construct="prefix-pattern", detail=detail)
    # ... except the one word that opens a Python expression when a colon
    # follows it: 'lambda: 1' is python (the default type), not an unknown
    # type 'lambda' -- the pattern refuses it by a negative look-ahead
    refuses = False
    if pat is not None and hasattr(pat, "pattern"):
        from .. import rx
        for op, av in rx.parse(pat.pattern, pat.flags):
            if op is rx.C.ASSERT_NOT and av[0] == 1:
                lits = "".join(chr(a) for o, a in av[1]
                               if o is rx.C.LITERAL)
                if lits == "lambda:":
                    refuses = True
    rep.check(refuses, "R04.1", "chameleon.tales.match_prefix", "a python "
              "expression that begins with a parameter-less lambda is not "
              "taken for an expression of the unknown type 'lambda'",
              construct="prefix-not-lambda", detail=detail)
    # ExpressionParser: prefix regex + dispatch
    pf = repo.func(TALES + "ExpressionParser.__call__")
    text = L.text(pf.node)
    rep.check("prefix = self.default" in text and
              "expression = expression[m.end():]" in text and
              "factory = self.factories[prefix]" in text, "R04.1",
              pf.qualname, "an expression is dispatched on its type prefix "
              "(stripped), else on the default type",
              construct="prefix-dispatch", where=L.where(pf))


def _pipe(repo, rep):
    f = repo.func(TALES + "TalesExpr.__call__")
    site = f.qualname
    wh = L.where(f)
    res = L.emission(repo, f.qualname)
    tries = [w for w in A.walk(res.value)
             if isinstance(w, A.Py) and w.kind == "Try"]
    rep.check(len(tries) == 1, "R04.2", site,
              "one try construction nests the alternatives",
              construct="try-count", where=wh, detail=str(len(tries)))
    if len(tries) != 1:
        return
    t = tries[0]
    loops = [w for w in A.walk(res.value) if isinstance(w, A.Loop)
             and "reversed" in A.show(w.iter, limit=2)]
    rep.check(bool(loops), "R04.2", site, "alternatives are folded from the "
              "last to the first (reversed)", construct="reversed", where=wh)
    body = A.show(t.f.get("body"), limit=3)
    rep.check("each(enumerate(reversed(" in body and body.endswith("[1]"),
              "R04.2", site, "the try body is the current (earlier) "
              "alternative", construct="try-body", where=wh, detail=body[:80])
    hs = [it for it, _ in A.flatten(t.f.get("handlers", A.Seq()))]
    ok = len(hs) == 1 and isinstance(hs[0], A.Py) and \
        hs[0].kind == "ExceptHandler"
    rep.check(ok, "R04.2", site, "exactly one handler per alternative",
              construct="handler-count", where=wh)
    if ok:
        h = hs[0]
        ty = A.show(h.f.get("type"), limit=8)
        rep.check("self.exceptions" in ty and "resolve_global" in ty and
                  h.f.get("type") is not None and
                  not isinstance(h.f.get("type"), A.Const), "R04.2", site,
                  "the handler catches exactly self.exceptions (no bare or "
                  "wider handler)", construct="handler-type", where=wh,
                  detail=ty[:120])
        hb = h.f.get("body")
        rep.check(isinstance(hb, A.Sym) and hb.text == "body", "R04.2", site,
                  "the handler body is the chain of the remaining (later) "
                  "alternatives", construct="handler-body", where=wh,
                  detail=A.show(hb, limit=2)[:80])
        nm = h.f.get("name")
        rep.check(nm is None or (isinstance(nm, A.Const) and nm.value is None),
                  "R04.2", site, "the caught exception is discarded",
                  construct="handler-name", where=wh)
    for fld in ("finalbody", "orelse"):
        v = t.f.get(fld)
        rep.check(v is None or not list(A.flatten(v)), "R04.2", site,
                  "no %s on the alternative's try" % fld,
                  construct="try-" + fld, where=wh)
    # last alternative unguarded: the i == 0 branch is the bare assignment
    alts = [w for w in A.walk(res.value) if isinstance(w, A.Alt)
            and w.test.replace(" ", "") == "i==0"]
    ok = bool(alts) and not any(isinstance(x, A.Py) and x.kind == "Try"
                                for x in A.walk(alts[0].a))
    rep.check(ok, "R04.2", site, "the last alternative is not guarded (its "
              "exception propagates)", construct="last-unguarded", where=wh)
    # splitting on unescaped '|' only
    sp = repo.const("chameleon.tales", "split_parts")
    rep.check(getattr(sp, "pattern", None) == r"(?<!\\)\|", "R04.2",
              "chameleon.tales.split_parts",
              "alternatives are split at '|' not preceded by a backslash",
              construct="split-regex", detail=repr(getattr(sp, "pattern",
                                                           sp)))
    # exists:
    g = repo.func(TALES + "ExistsExpr.__call__")
    r2 = L.emission(repo, g.qualname)
    tries = [w for w in A.walk(r2.value)
             if isinstance(w, A.Py) and w.kind == "Try"]
    ok = False
    if len(tries) == 1:
        t = tries[0]
        hs = [it for it, _ in A.flatten(t.f.get("handlers", A.Seq()))]
        if len(hs) == 1:
            hb = A.show(hs[0].f.get("body"), limit=4)
            oe = A.show(t.f.get("orelse"), limit=4)
            ok = "target = 0" in hb and "target = 1" in oe and \
                "self.exceptions" in A.show(hs[0].f.get("type"), limit=8)
    rep.check(ok, "R04.2", g.qualname, "exists: 0 in the handler, 1 in the "
              "else branch, over ExistsExpr.exceptions",
              construct="exists-skeleton", where=L.where(g))
    # not: / structure:
    for cls, pat_ in (("NotExpr", "_T = not _T"),
                      ("StructureExpr", "_T = _W(_T)")):
        g = repo.func(TALES + cls + ".__call__")
        r3 = L.emission(repo, g.qualname)
        frs = [w for w in A.walk(r3.value) if isinstance(w, A.Frag)
               and L.frag_find(w, pat_)]
        items = A.items_of(r3.value)
        ok = bool(frs) and len(items) == 2 and \
            isinstance(items[0], A.CallV) and items[0].name == "assign_value"
        rep.check(ok, "R04.2", g.qualname,
                  "%s evaluates its operand once, then applies its "
                  "operator" % cls, construct=cls, where=L.where(g),
                  detail=A.show(r3.value, limit=3)[:140])


def _lookup(repo, rep):
    f = repo.func("chameleon.utils.lookup_attr")
    site = f.qualname
    wh = L.where(f)
    paths = P.enum_paths(f.node.body)
    rep.count("paths", len(paths))
    first_call = None
    for n in ast.walk(f.node.body[0]):
        if isinstance(n, ast.Call):
            first_call = src(n)
            break
    rep.check(isinstance(f.node.body[0], ast.Try) and
              first_call == "getattr(obj, key)", "R04.3", site,
              "attribute access is tried first", construct="getattr-first",
              where=wh, detail=str(first_call))
    ok = True
    n_item = 0
    for p in paths:
        exc = [e[1] for e in p if e[0] == "except"]
        item = any(e[0] == "return" and "get(key)" in src(e[1]) for e in p)
        if item:
            n_item += 1
            if not exc or exc[0] != "AttributeError":
                ok = False
        if p[-1][0] == "raise" and p[-1][1] is not None:
            if src(p[-1][1]) != "exc":
                ok = False
    rep.check(ok and n_item >= 1, "R04.3", site,
              "item lookup happens only after AttributeError, and every "
              "failure re-raises the original AttributeError",
              construct="fallback", where=wh)
    guarded = 0
    for t in ast.walk(f.node):
        if isinstance(t, ast.Try) and any(
                isinstance(x, ast.Return) and "get(key)" in src(x)
                for x in t.body):
            for hh in t.handlers:
                if hh.type is not None and src(hh.type) == "KeyError" and \
                        any(isinstance(x, ast.Raise) and x.exc is not None
                            and src(x.exc) == "exc" for x in hh.body):
                    guarded += 1
    rep.check(guarded == 1, "R04.3", site,
              "a failing item lookup (KeyError) re-raises the original "
              "AttributeError", construct="keyerror-reraise", where=wh)
    h = f.node.body[0].handlers[0] if isinstance(f.node.body[0], ast.Try) \
        and f.node.body[0].handlers else None
    rep.check(h is not None and src(h.type) == "AttributeError" and
              h.name == "exc", "R04.3", site,
              "only AttributeError triggers the fallback",
              construct="fallback-type", where=wh)
    # PythonExpr wires it in
    pe = repo.cls(TALES + "PythonExpr")
    tr = pe.attrs.get("transform")
    rep.check(tr is not None and src(tr) ==
              "ItemLookupOnAttributeErrorVisitor(transform_attribute)",
              "R04.3", pe.qualname, "python expressions rewrite attribute "
              "access to the fallback lookup", construct="transform",
              detail=src(tr) if tr is not None else "missing")
    # ... every attribute access: the visitor class hands each Attribute node
    # to the transform and then its children to the visitor; any other
    # visit_* method of the class (or its bases) ends every path in
    # generic_visit -- a method that returns the node after visiting some
    # of its fields by hand leaves the others (a callee, a slice) unrewritten
    vc = repo.cls("chameleon.astutil.ItemLookupOnAttributeErrorVisitor")
    va = vc.methods.get("visit_Attribute")
    oka = False
    if va is not None:
        rets = [n for n in ast.walk(va.node) if isinstance(n, ast.Return)]
        tv = L.inline_locals(va.node, rets[0].value) if len(rets) == 1 \
            and rets[0].value is not None else None
        oka = tv is not None and L.match(L.pat(
            "self.generic_visit(self.apply_transform(node))", "expr"),
            tv) is not None
    rep.check(oka, "R04.3", vc.qualname + ".visit_Attribute",
              "an attribute node is transformed, then its children are "
              "visited", construct="visitor-attribute",
              where=L.where(va) if va else "")
    holes = []
    for cq in (vc.qualname, "chameleon.astutil.NodeTransformerBase"):
        for mn, m in sorted(repo.cls(cq).methods.items()):
            if not mn.startswith("visit_") or (
                    cq == vc.qualname and mn == "visit_Attribute"):
                continue
            for pth in P.enum_paths(m.node.body):
                last = pth[-1]
                if last[0] == "raise":
                    continue
                if not (last[0] == "return" and last[1] is not None and
                        src(last[1]).startswith("self.generic_visit(")):
                    holes.append("%s (line %d)" % (
                        mn, last[-1].lineno if len(last) > 2 else
                        m.node.lineno))
    rep.check(not holes, "R04.3", vc.qualname, "no other visit method of "
              "the attribute rewriter ends without handing all children of "
              "the node to the visitor", construct="visitor-total",
              where=L.where(vc) if hasattr(vc, "node") else "",
              detail=", ".join(sorted(set(holes))))
    ta = repo.func(TALES + "transform_attribute")
    text = src(ta.node.body[0])
    rep.check("'lookup(object, name)'" in text and
              "lookup=Symbol(lookup_attr)" in text and
              "object=node.value" in text and
              "name=ast.Constant(node.attr)" in text, "R04.3", ta.qualname,
              "x.a becomes lookup_attr(x, 'a')", construct="transform-attr",
              where=L.where(ta))
    tl = repo.func(TALES + "PythonExpr.translate")
    text = L.text(tl.node)
    rep.check("result = self.transform.visit(value)" in text and
              "value=result" in text, "R04.3", tl.qualname,
              "the transformed tree is what gets assigned",
              construct="transform-used", where=L.where(tl))
    rs = [n for n in ast.walk(tl.node) if isinstance(n, ast.Raise)
          and isinstance(n.exc, ast.Call)
          and src(n.exc.func) == "ExpressionError" and len(n.exc.args) == 2
          and any(isinstance(h, ast.ExceptHandler) and h.type is not None
                  and src(h.type) == "SyntaxError"
                  for h, _ in L.guards_of(n, tl.node))]
    prm = tl.node.args.args[1].arg if len(tl.node.args.args) > 1 else ""
    okse = len(rs) == 1 and prm in {
        x.id for x in ast.walk(L.inline_locals(tl.node, rs[0].exc.args[1]))
        if isinstance(x, ast.Name)}
    rep.check(okse, "R04.3",
              tl.qualname, "a syntax error becomes an ExpressionError on the "
              "expression text", construct="syntax-error", where=L.where(tl))
    # NameTransform / Scope orders are decided under C05 (R05.5, R05.6);
    # here: the builtin fallback uses Builtin(name) (cannot be shadowed)
    nt = repo.func(COMP + "NameTransform.__call__")
    text = L.text(nt.node)
    rep.check("'get(key, name)'" in text and "name=Builtin(name)" in text and
              "key=ast.Constant(name)" in text, "R04.3", nt.qualname,
              "builtin names: template variable first, builtin as default",
              construct="builtin-default", where=L.where(nt))


def _uses(root):
    """parent positions of every NodeV, by identity"""
    uses = {}
    seen = set()

    def rec(v, anc):
        if isinstance(v, A.NodeV):
            uses.setdefault(id(v), [v, []])[1].append(anc)
        if id(v) in seen and not isinstance(v, A.NodeV):
            return
        key = (id(v), len(anc))
        if id(v) in seen and isinstance(v, A.NodeV):
            # still need the different ancestor chains of a shared node, but
            # do not re-descend below it
            return
        seen.add(id(v))
        nxt = anc + (v,) if isinstance(v, A.NodeV) else anc
        for _, k in v.kids():
            rec(k, nxt)
    rec(root, ())
    return uses


def _linear(repo, rep):
    n = 0
    for fname in ("visit_element", "_make_content_node",
                  "_create_attributes_nodes"):
        f = repo.func(PROG + fname)
        res = L.emission(repo, f.qualname)
        root = res.value
        # all positions (parent NodeV, by identity) that mention a value
        positions = {}
        parents = {}

        def rec(v, parent, seen):
            if isinstance(v, A.NodeV):
                if v.kind in ("Value", "Negate") and parent is not None:
                    positions.setdefault(id(v), [v, set()])[1].add(id(parent))
                    parents[id(parent)] = parent
                parent_next = v
            else:
                parent_next = parent
            if id(v) in seen:
                return
            seen.add(id(v))
            for _, k in v.kids():
                rec(k, parent_next, seen)
        rec(root, None, set())
        for vid, (val, pars) in positions.items():
            users = [parents[p] for p in pars
                     if parents[p].kind not in ("Cache",)]
            # Negate(Value) : the inner Value has exactly one user (Negate)
            if len(users) < 2:
                continue
            n += 1
            caches = [w for w in A.walk(root)
                      if isinstance(w, A.NodeV) and w.kind in ("Cache",)
                      and w.args and any(x is val for x in A.walk(w.args[0]))]
            ok = bool(caches)
            if ok:
                for u in users:
                    if not any(L.contains(c, u) for c in caches):
                        ok = False
            what = A.show(val, limit=2)[:70]
            rep.check(ok, "R04.4", f.qualname,
                      "%s is used by %d nodes (%s): a Cache listing it must "
                      "enclose all of them (evaluate once)" % (
                          what, len(users), ", ".join(sorted(
                              {u.kind for u in users}))),
                      construct="uncached:%s" % "+".join(sorted(
                          {u.kind for u in users})),
                      where=L.where(f, val.lineno),
                      detail="%d enclosing Cache node(s)" % len(caches))
    rep.require_min("R04.4", 3, "content value, omit-tag expression, case "
                                "value")
    # the transformer consults the cache first
    f = repo.func(COMP + "ExpressionTransform._translate")
    v = L.emission(repo, f.qualname).value
    hit = L.branch(v, "cached is not None", True)
    ok = hit is not None and \
        not any(isinstance(w, A.CallV) and w.name == "visitor"
                for w in A.walk(hit))
    rep.check(ok, "R04.4", f.qualname, "a cached expression is assigned from "
              "its cache variable and not evaluated again",
              construct="cache-first", where=L.where(f),
              detail=A.show(v, limit=1)[:100])
    text = L.text(f.node, body_only=True)
    rep.check("cached = self.cache.get(expression)" in text, "R04.4",
              f.qualname, "the cache is keyed by the expression node",
              construct="cache-key", where=L.where(f))
    # one cache object: the Compiler (visit_Cache stores) and the
    # ExpressionTransform (lookups) must see the same dictionary for the
    # whole compilation -- it is bound once, in __init__, and handed to the
    # transformer; no emitter may rebind it
    comp = repo.cls(COMP + "Compiler")
    binds = []
    for name, m in sorted(comp.methods.items()):
        for n in ast.walk(m.node):
            tgts = []
            if isinstance(n, ast.Assign):
                tgts = n.targets
            elif isinstance(n, (ast.AugAssign, ast.AnnAssign)):
                tgts = [n.target]
            elif isinstance(n, ast.Delete):
                tgts = n.targets
            for t in tgts:
                for x in ast.walk(t):
                    if isinstance(x, ast.Attribute) and \
                            x.attr == "_expression_cache" and \
                            not isinstance(x.ctx, ast.Load):
                        binds.append((name, n.lineno))
    init = comp.methods.get("__init__")
    rep.check([b[0] for b in binds] == ["__init__"], "R04.4",
              COMP + "Compiler", "the expression cache is bound exactly once "
              "(in __init__): stores by visit_Cache and lookups by the "
              "expression transformer use one dictionary",
              construct="cache-single-binding", detail=str(binds))
    passed = init is not None and any(
        isinstance(n, ast.Call) and src(n.func) == "ExpressionTransform"
        and any(src(a) == "self._expression_cache"
                for a in list(n.args) + [k.value for k in n.keywords])
        for n in ast.walk(init.node))
    rep.check(passed, "R04.4", COMP + "Compiler.__init__", "that dictionary "
              "is the one handed to the expression transformer",
              construct="cache-shared")


def _own_exprs(repo, rep):
    comp = repo.cls(COMP + "Compiler")
    n = 0
    for name, f in sorted(comp.methods.items()):
        if not name.startswith("visit_"):
            continue
        res = L.emission(repo, f.qualname)
        for it, conds in A.flatten(res.trace):
            if not isinstance(it, A.Eval):
                continue
            n += 1
            e = A.show(it.expr, limit=12)
            own = e == "node" or "node." in e
            rep.check(own, "R04.5", f.qualname,
                      "evaluates an expression of its own node (%s)" % e[:50],
                      construct="foreign-eval", where=L.where(f, it.lineno),
                      detail=e)
    rep.require_min("R04.5", 10, "expression evaluations in the emitters")
    rep.count("eval_sites", n)
    # an attribute's expression is evaluated whether or not the value is
    # then written: the test that lets a dictionary of attributes override
    # it guards the write, not the evaluation (side effects and errors of
    # the expression do not depend on what another expression returned)
    va = comp.methods["visit_Attribute"]
    res = L.emission(repo, va.qualname)
    lin = L.Lin(res.emission)
    evs = lin.all(lambda it: isinstance(it, A.Eval))
    guarded = [i for i in evs if any(
        isinstance(n_, A.Py) and n_.kind == "If" and fld == "body"
        for n_, fld in lin.path(i))]
    rep.check(bool(evs) and not guarded, "R04.5", va.qualname, "the "
              "expression of a computed attribute is evaluated "
              "unconditionally (exactly once per reach)",
              construct="attribute-eval-unconditional", where=L.where(va))


BINDERS = ("Lambda", "ListComp", "SetComp", "DictComp", "GeneratorExp",
           "NamedExpr", "FunctionDef")


def _binders(repo, rep, rule="R04.6", handlers=True, only=None):
    ci = repo.cls("chameleon.astutil.NameLookupRewriteVisitor")
    site = ci.qualname
    # names are registered in, looked up in and copied from the INNERMOST
    # scope only: every subscript of the scope stack is [-1] (a name bound
    # in scopes[0] or scopes[-2] leaks into the template-wide scope, or is
    # missing from the function that binds it)
    subs = [(m_, n) for m_ in ci.methods.values() for n in ast.walk(m_.node)
            if isinstance(n, ast.Subscript) and src(n.value) == "self.scopes"]
    if only is None:
        if len(subs) < 6:
            raise AnalysisError("scope stack subscripts vanished (%d)"
                                % len(subs))
        off = []
        for m_, n in subs:
            try:
                k = ast.literal_eval(n.slice)
            except ValueError:
                k = src(n.slice)
            if k != -1:
                off.append("%s: self.scopes[%s]" % (m_.name, src(n.slice)))
        rep.check(not off, rule, site, "every access to the scope stack is "
                  "to its innermost scope (%d accesses)" % len(subs),
                  construct="innermost-scope", detail="; ".join(off))
    for b in BINDERS:
        if only is not None and b not in only:
            continue
        m = ci.methods.get("visit_" + b)
        if m is None and ("visit_" + b) in ci.attrs:
            alias = ci.attrs["visit_" + b]
            if isinstance(alias, ast.Name):
                m = ci.methods.get(alias.id)
        if m is None and not handlers:
            continue
        rep.check(m is not None, rule, site,
                  "the name rewriter has a scope-aware handler for %s "
                  "(a name bound inside an expression must not be rewritten "
                  "to, or stored in, the template context)" % b,
                  construct="no-handler:" + b)
        if m is None:
            continue
        text = L.text(m.node)
        pushes = [n for n in ast.walk(m.node) if isinstance(n, ast.Call)
                  and src(n.func) == "self.scopes.append"]
        rep.check(bool(pushes), rule, m.qualname,
                  "visit_%s opens a scope" % b, construct="no-scope:" + b,
                  where=L.where(m))
        for p in pushes:
            arg = src(p.args[0]) if p.args else ""
            if p.args and isinstance(p.args[0], ast.Name):
                for n in ast.walk(m.node):
                    if isinstance(n, ast.Assign) and \
                            src(n.targets[0]) == p.args[0].id:
                        arg = src(n.value)
            inherits = "self.scopes[-1]" in arg
            fresh = arg.replace(" ", "") in (
                "set(self.scopes[-1])", "self.scopes[-1].copy()",
                "set(self.scopes[-1])|set()") or (
                inherits and (arg.startswith("set(") or
                              arg.endswith(".copy()") or " | " in arg))
            rep.check(not inherits or fresh, rule, m.qualname,
                      "the scope opened by visit_%s is a *copy* of the "
                      "enclosing one (names bound inside must not leak into "
                      "the enclosing scope)" % b,
                      construct="shared-scope:" + b, where=L.where(m),
                      detail="self.scopes.append(%s)" % arg)
            rep.check(inherits, rule, m.qualname,
                      "the scope opened by visit_%s inherits the enclosing "
                      "scope (nested binders see outer parameters)" % b,
                      construct="empty-scope:" + b, where=L.where(m),
                      detail="self.scopes.append(%s)" % arg)
        if b == "FunctionDef" and pushes:
            # assignments inside a function body bind Python locals of that
            # function, not template variables: they are registered in the
            # function's scope before the body is rewritten
            pre = any(isinstance(n, ast.For) and "ast.walk(node)" in
                      src(n.iter) and "Store" in src(n) and
                      ".add(" in src(n) for n in ast.walk(m.node))
            rep.check(pre, rule, m.qualname, "names assigned inside a "
                      "function body are local to it (registered before the "
                      "body is rewritten)", construct="function-locals",
                      where=L.where(m))
        if b.endswith("Comp") or b == "GeneratorExp":
            # the first iterable of a comprehension is evaluated in the
            # enclosing scope: it is rewritten before the comprehension's
            # scope (which binds the loop variables) is opened, and not
            # again inside
            if pushes:
                push_line = min(p_.lineno for p_ in pushes)
                early = [n for n in ast.walk(m.node)
                         if isinstance(n, ast.Assign) and
                         src(n.targets[0]).replace(" ", "").endswith(
                             "[0].iter") and
                         src(n.value).replace(" ", "") == "self.visit(%s)" %
                         src(n.targets[0]).replace(" ", "")
                         and n.lineno < push_line]
                inside = [n for n in ast.walk(m.node)
                          if isinstance(n, ast.Assign) and
                          src(n.targets[0]).endswith(".iter") and
                          n.lineno > push_line]
                # every other iterable is rewritten inside: the guard of
                # the inner rewrite (on the position in the list of
                # generators) is false for the first one only
                guarded = bool(inside)
                gdetail = ""
                for n in inside:
                    lp = getattr(n, "_parent", None)
                    while lp is not None and not isinstance(lp, ast.For):
                        lp = getattr(lp, "_parent", None)
                    ivar = None
                    if lp is not None and isinstance(lp.target, ast.Tuple) \
                            and src(lp.iter).startswith("enumerate(") and \
                            isinstance(lp.target.elts[0], ast.Name):
                        ivar = lp.target.elts[0].id
                    gs = [(t_, v_) for t_, v_ in L.guards_of(n, m.node)
                          if isinstance(t_, ast.expr)]
                    if ivar is None or not gs:
                        guarded = False
                        gdetail = "inner rewrite not guarded by the position"
                        continue
                    for k in range(0, 5):
                        truth = True
                        for t_, v_ in gs:
                            tv = L.int_guard_truth(t_, ivar, k)
                            if tv is None:
                                raise AnalysisError(
                                    "%s: guard %s not understood" % (
                                        m.qualname, src(t_)))
                            truth = truth and (tv == v_)
                        if truth != (k > 0):
                            guarded = False
                            gdetail = "the iterable of generator %d is %s" \
                                % (k, "rewritten twice" if truth
                                   else "not rewritten")
                rep.check(bool(early) and guarded, rule, m.qualname,
                          "the first iterable of a %s is rewritten in the "
                          "enclosing scope ([x for x in x] reads the "
                          "template variable x)" % b,
                          construct="first-iterable-outside:" + b,
                          where=L.where(m), detail=gdetail)
        if b in ("Lambda", "FunctionDef") and pushes:
            # default values belong to the enclosing scope: they are visited
            # before the lambda's scope is opened (in the new scope the
            # parameter of the same name -- lambda x=x: ... -- would hide the
            # template variable)
            push_line = min(p.lineno for p in pushes)
            early = [n for n in ast.walk(m.node) if isinstance(n, ast.Assign)
                     and "defaults" in src(n.targets[0]) and
                     "self.visit(" in src(n.value) and n.lineno < push_line]
            names = {src(n.targets[0]).split(".")[-1] for n in early}
            generic = [n for n in ast.walk(m.node) if isinstance(n, ast.Call)
                       and src(n.func).endswith("generic_visit")]
            rep.check({"defaults", "kw_defaults"} <= names and not generic,
                      rule, m.qualname, "default values are "
                      "rewritten in the enclosing scope, before the "
                      "parameters are bound (and not again inside)",
                      construct="defaults-outside:" + b, where=L.where(m),
                      detail="visited early: %s, generic_visit calls: %d" % (
                          sorted(names), len(generic)))
        pops = [n for n in ast.walk(m.node) if isinstance(n, ast.Call)
                and src(n.func) == "self.scopes.pop"]
        fin = [n for n in ast.walk(m.node) if isinstance(n, ast.Try)
               and n.finalbody]
        rep.check(bool(pops) and bool(fin), rule, m.qualname,
                  "the scope is closed on every exit (try/finally)",
                  construct="scope-leak:" + b, where=L.where(m))


def _string_and_import(repo, rep):
    from .. import rx
    C = rx.C
    # (1) $name inside string: expressions -- a letter, then letters, digits
    # and underscores
    ic = repo.cls(COMP + "Interpolator")
    rc = ic.attrs.get("braces_optional_regex")
    try:
        pat = repo.fold(rc, ic.module)
    except Exception:
        pat = None
    patt = getattr(pat, "pattern", None)
    ok = False
    detail = str(patt)
    if isinstance(patt, str):
        tree = list(rx.parse(patt, getattr(pat, "flags", 0)))

        def find(items):
            for op, av in items:
                if op is C.SUBPATTERN:
                    gid = av[0]
                    if gid is not None and _gname(patt, gid) == "variable":
                        return list(av[3])
                    r = find(av[3])
                    if r:
                        return r
                elif op is C.BRANCH:
                    for alt in av[1]:
                        r = find(alt)
                        if r:
                            return r
                elif op in (C.MAX_REPEAT, C.MIN_REPEAT):
                    r = find(av[2])
                    if r:
                        return r
            return None
        var = find(tree)
        if var and len(var) == 2 and var[0][0] is C.IN and \
                var[1][0] in (C.MAX_REPEAT, C.MIN_REPEAT) and \
                var[1][1][0] == 0 and list(var[1][1][2])[0][0] is C.IN:
            head = rx.in_set(var[0][1])
            tail = rx.in_set(list(var[1][1][2])[0][1])
            letters = rx.CharSet.of("abcdefghijklmnopqrstuvwxyz"
                                    "ABCDEFGHIJKLMNOPQRSTUVWXYZ")
            ok = head == letters and tail == (
                letters | rx.CharSet.of("0123456789_"))
            detail = "head %s tail %s" % (head, tail)
    rep.check(ok, "R04.7", ic.qualname + ".braces_optional_regex",
              "a brace-less $name is a letter followed by letters, digits "
              "and underscores ($first_name is one name, $_x is text)",
              construct="variable-grammar", detail=detail[:200])
    # (2) every ${...} occurrence with a non-empty expression is parsed and
    # assigned -- no reuse of an earlier occurrence's result
    f = repo.func(COMP + "Interpolator.__call__")
    inner = [n for n in ast.walk(f.node) if isinstance(n, ast.While)
             and src(n.test) == "True"]
    okp = False
    detail = "inner 'while True' loop not found"
    if inner:
        paths = P.enum_paths([inner[0]], unroll=1)
        bad = None
        n_parse = 0
        for p in paths:
            if p[-1][0] in ("raise",):
                continue
            if not any(e[0] == "cond" and e[3] is inner[0] for e in p):
                continue    # zero iterations of 'while True'
            if any(e[0] == "loop" and e[1] >= 1 and e[2] is inner[0]
                   for e in p) and not any(
                       e[0] == "except" for e in p):
                # left by 'continue' without a failed parse: not in this code
                pass
            calls = [src(c) for c, _ in P.calls_on_path(p)]
            parsed = any(c.startswith("engine.parse(") for c in calls)
            assigned = any("assign_text(target)" in c for c in calls)
            conds = [(src(e[1]), e[2]) for e in p if e[0] == "cond"]
            empty = L.cond_holds(conds, "string", False)
            failed = any(e[0] == "except" for e in p)
            if parsed and assigned:
                n_parse += 1
            elif not (empty or failed):
                bad = P.path_text(p, 14)
        okp = bad is None and n_parse >= 1
        detail = bad or ""
    rep.check(okp, "R04.7", f.qualname, "every ${...} occurrence with a "
              "non-empty expression is parsed and assigned on its own "
              "(evaluated once per occurrence, never shared)",
              construct="parse-per-occurrence", where=L.where(f),
              detail=detail)
    # (3) import: a.b.c -- the value is reached by getattr from the top
    # package; __import__(dotted) itself returns the top package
    g = repo.func("chameleon.utils._resolve_dotted")
    loops = [n for n in g.node.body if isinstance(n, ast.For)]
    okr = len(loops) == 1
    detail = ""
    if okr:
        for n in ast.walk(loops[0]):
            if isinstance(n, ast.Assign) and any(
                    isinstance(t, ast.Name) and t.id == "found"
                    for t in n.targets):
                if not src(n.value).startswith("getattr(found, "):
                    okr = False
                    detail = src(n)
        hs = [h for n in ast.walk(loops[0]) if isinstance(n, ast.Try)
              for h in n.handlers]
        okr = okr and len(hs) == 1 and any(
            isinstance(x, ast.Call) and src(x.func) == "__import__"
            for x in ast.walk(hs[0])) and any(
                isinstance(x, ast.Assign) and
                src(x.value).startswith("getattr(found, ")
                for x in ast.walk(hs[0]))
        # what is imported on a miss is the path *including* the segment
        # that was missing: the path variable is extended before the step
        lv = src(loops[0].target)
        imp = [x for x in ast.walk(hs[0]) if isinstance(x, ast.Call)
               and src(x.func) == "__import__" and x.args] if hs else []
        pathvar = src(imp[0].args[0]) if imp else None
        body = loops[0].body
        ext = [i for i, st in enumerate(body)
               if isinstance(st, (ast.AugAssign, ast.Assign))
               and src(st.targets[0] if isinstance(st, ast.Assign)
                       else st.target) == pathvar
               and any(isinstance(x, ast.Name) and x.id == lv
                       for x in ast.walk(st.value))]
        tr = [i for i, st in enumerate(body) if isinstance(st, ast.Try)]
        oke = bool(ext) and bool(tr) and max(ext) < min(tr)
        rep.check(oke, "R04.7", g.qualname, "the module path imported when "
                  "an attribute is missing already contains the missing "
                  "segment (it is extended before the step is tried)",
                  construct="dotted-path-extended-first", where=L.where(g),
                  detail="path variable %s extended at %s, step at %s" % (
                      pathvar, ext, tr))
    rep.check(okr, "R04.7", g.qualname, "a dotted name is resolved by "
              "getattr step by step; a missing sub-module is imported and "
              "the step repeated (the result of __import__('a.b') is 'a', "
              "never the value)", construct="dotted-descends",
              where=L.where(g), detail=detail)


def _gname(pattern, gid):
    import re
    try:
        rx_ = re.compile(pattern)
    except re.error:
        return None
    for k, v in rx_.groupindex.items():
        if v == gid:
            return k
    return None


def _compiled_pattern(repo, modname, name):
    """folded pattern of ``name = re.compile(...)`` or
    ``name = re.compile(...).match`` in a module"""
    mod = repo.module(modname)
    v = mod.assigns.get(name, [None])[-1]
    if isinstance(v, ast.Attribute) and v.attr in ("match", "search",
                                                    "sub", "finditer"):
        v = v.value
    if v is None:
        raise AnalysisError("%s.%s vanished" % (modname, name))
    return repo.fold(v, mod)


def tales_details(repo, rep, rule="R04.2"):
    """Value-level obligations of the expression layer:
    * the type-prefix and line-continuation patterns treat white space as
      any white space; a type prefix may be a single letter;
    * the text of a python / import expression is stripped on BOTH sides;
    * 'No input' is raised for an EMPTY expression;
    * the token of an unknown expression type is cut out by one group
      (start and end of the same group);
    * only a plain string is wrapped into a new Token (at position 0) --
      a Token keeps its own position;
    * a dotted name is tested for being relative by its FIRST part."""
    T = "chameleon.tales."
    for name, gid, least in (("match_prefix", 1, 1), ("re_continuation",
                                                       None, None)):
        rc = _compiled_pattern(repo, "chameleon.tales", name)
        probs, counts = L.regex_shape(rc.pattern, rc.flags)
        rep.check(not probs and counts["ws"] >= 1, rule, T + name,
                  "white space in the pattern is any white space",
                  construct="tales-space:" + name,
                  detail="; ".join(sorted({t for k, t in probs})))
        if gid is not None:
            w = L.group_width(rc.pattern, rc.flags, gid)
            rep.check(w is not None and w[0] == least, rule, T + name,
                      "an expression type prefix is one letter or more",
                      construct="prefix-width", detail=str(w))
    # stripped on both sides
    for q, var in ((T + "PythonExpr.translate", "expression"),
                   (T + "ImportExpr.__call__", "self.expression")):
        f = repo.func(q)
        calls = [n for n in ast.walk(f.node) if isinstance(n, ast.Call)
                 and isinstance(n.func, ast.Attribute)
                 and n.func.attr in ("strip", "lstrip", "rstrip")
                 and src(n.func.value) == var and not n.args]
        rep.check(bool(calls) and all(c.func.attr == "strip" for c in calls),
                  rule, q, "the expression text is stripped of white space "
                  "on both sides before it is parsed / resolved",
                  construct="stripped-both-sides:" + f.name,
                  where=L.where(f), detail=str([src(c) for c in calls]))
    # No input
    te = repo.func(T + "TalesExpr.__call__")
    raises = [n for n in ast.walk(te.node) if isinstance(n, ast.Raise)
              and n.exc is not None and "No input" in src(n.exc)]
    okn = bool(raises)
    for r in raises:
        gs = [(src(t), v) for t, v in L.guards_of(r, te.node)
              if isinstance(t, ast.expr)]
        if not L.cond_holds(gs, "remaining", False):
            okn = False
    rep.check(okn, rule, te.qualname, "'No input' is raised exactly when "
              "nothing remains to be parsed", construct="no-input-guard",
              where=L.where(te))
    # the escape of the pipe character: backslash + bar stands for a bar
    reps = [c for c in ast.walk(te.node) if isinstance(c, ast.Call)
            and isinstance(c.func, ast.Attribute)
            and c.func.attr == "replace" and len(c.args) == 2
            and all(isinstance(a, ast.Constant) for a in c.args)
            and "|" in str(c.args[0].value) + str(c.args[1].value)]
    rep.check(bool(reps) and all(c.args[0].value == "\\|" and
                                 c.args[1].value == "|" for c in reps),
              rule, te.qualname, "'\\|' in an alternative is un-escaped "
              "to '|'", construct="pipe-unescape", where=L.where(te),
              detail=str([src(c) for c in reps]))
    # slices by start/end of one group
    n_sl = 0
    bad = []
    for q, f in sorted(repo.funcs.items()):
        if not f.module.name.startswith("chameleon"):
            continue
        for n in ast.walk(f.node):
            if isinstance(n, ast.Subscript) and isinstance(
                    n.slice, ast.Slice) and n.slice.lower is not None and \
                    n.slice.upper is not None:
                lo, up = n.slice.lower, n.slice.upper
                ok_ = all(isinstance(x, ast.Call) and isinstance(
                    x.func, ast.Attribute) for x in (lo, up))
                if ok_ and lo.func.attr == "start" and \
                        up.func.attr == "end" and \
                        src(lo.func.value) == src(up.func.value):
                    n_sl += 1
                    if [src(a) for a in lo.args] != [src(a)
                                                     for a in up.args]:
                        bad.append("%s: %s" % (f.name, src(n)))
    rep.check(n_sl >= 1 and not bad, rule, "chameleon.*", "a text cut out "
              "by a match is cut from the start to the end of the same "
              "group (%d slices)" % n_sl, construct="slice-one-group",
              detail="; ".join(bad))
    # re-wrapping
    se = repo.func(T + "StringExpr.__init__")
    wraps = [n for n in ast.walk(se.node) if isinstance(n, ast.Call)
             and src(n.func) == "Token" and len(n.args) >= 2
             and isinstance(n.args[0], ast.Name)]
    okw = True
    for c in wraps:
        gs = [(src(t), v) for t, v in L.guards_of(c, se.node)
              if isinstance(t, ast.expr)]
        if not L.cond_holds(gs, "isinstance(%s, Token)" % c.args[0].id,
                            False):
            okw = False
    rep.check(okw, rule, se.qualname, "a string expression that is a Token "
              "already keeps its position: only a plain str is wrapped",
              construct="token-rewrap-guard", where=L.where(se),
              detail=str([src(c) for c in wraps]))
    rd = repo.func("chameleon.utils._resolve_dotted")
    idx = [n for n in ast.walk(rd.node) if isinstance(n, ast.Subscript)
           and src(n.value) == "name_parts"
           and isinstance(n.slice, ast.Constant)]
    rep.check(bool(idx) and all(n.slice.value == 0 for n in idx), rule,
              rd.qualname, "a dotted name is relative when its FIRST part "
              "is empty (a name without a dot has no second part)",
              construct="relative-name-first-part", where=L.where(rd),
              detail=str([src(n) for n in idx]))


REWRITER_FIELDS = {
    # handler -> fields of the node (and of its arguments / generators) whose
    # sub-expressions have to pass the rewriter
    "visit_FunctionDef": ("decorator_list", "defaults", "kw_defaults",
                          "posonlyargs", "args", "kwonlyargs", "vararg",
                          "kwarg", "body"),
    "visit_Lambda": ("defaults", "kw_defaults", "posonlyargs", "args",
                     "kwonlyargs", "vararg", "kwarg", "body"),
    "_visit_comprehension": ("iter", "ifs", "key", "value", "elt"),
}


def rewriter_total(repo, rep, rule="R04.6"):
    """The scope-aware handlers replace generic_visit: whatever they do not
    visit themselves is not rewritten at all (a name in a lambda body, a
    comprehension's condition or a decorator would be looked up as a Python
    global).  Every expression field of the node reaches self.visit(), the
    results that replace a field are stored back, and the names the node
    binds are registered in the scope."""
    ci = repo.cls("chameleon.astutil.NameLookupRewriteVisitor")
    for hname, fields in sorted(REWRITER_FIELDS.items()):
        m = ci.methods.get(hname)
        if m is None:
            raise AnalysisError("%s vanished" % hname)
        visited = set()
        binds = {}
        for n in ast.walk(m.node):
            if isinstance(n, (ast.For, ast.comprehension)):
                for x in ast.walk(n.target):
                    if isinstance(x, ast.Name):
                        binds.setdefault(x.id, []).append(n.iter)
        for c in ast.walk(m.node):
            if isinstance(c, ast.Call) and src(c.func) == "self.visit" and \
                    c.args:
                exprs = [c.args[0]]

                def binder(name, at):
                    """iterable of the nearest enclosing loop / generator
                    that binds ``name``"""
                    a_ = getattr(at, "_parent", None)
                    while a_ is not None and a_ is not m.node:
                        if isinstance(a_, ast.For) and any(
                                isinstance(x, ast.Name) and x.id == name
                                for x in ast.walk(a_.target)):
                            return a_.iter
                        if isinstance(a_, (ast.ListComp, ast.GeneratorExp,
                                           ast.SetComp, ast.DictComp)):
                            for g in a_.generators:
                                if any(isinstance(x, ast.Name) and
                                       x.id == name
                                       for x in ast.walk(g.target)):
                                    return g.iter
                        a_ = getattr(a_, "_parent", None)
                    return None
                if isinstance(c.args[0], ast.Name):
                    it_ = binder(c.args[0].id, c)
                    if it_ is not None:
                        exprs.append(it_)
                for e in exprs:
                    for x in ast.walk(e):
                        if isinstance(x, ast.Attribute):
                            visited.add(x.attr)
        missing = [f for f in fields if f not in visited]
        rep.check(not missing, rule, m.qualname, "every expression field "
                  "of the node passes the rewriter (%s)" % ", ".join(fields),
                  construct="rewriter-total:" + hname, where=L.where(m),
                  detail="not visited: %s" % missing)
    # names the constructs bind are registered in the current scope
    for hname, what in (("visit_alias", "name"), ("visit_FunctionDef", "name"),
                        ("visit_Name", "id"), ("_visit_comprehension", "id")):
        m = ci.methods.get(hname)
        adds = [c for c in ast.walk(m.node) if isinstance(c, ast.Call)
                and isinstance(c.func, ast.Attribute)
                and c.func.attr == "add" and "scope" in src(c.func.value)]
        rep.check(bool(adds), rule, m.qualname, "%s registers the name it "
                  "binds in the scope" % hname,
                  construct="binds-registered:" + hname, where=L.where(m))
    # a comprehension target binds every name in it, at any depth:
    # 'for k, (a, b) in ...', 'for first, *rest in ...' -- the names are
    # collected by a walk over the whole target, not over its top level
    cm = ci.methods.get("_visit_comprehension")
    walks = [lp for lp in ast.walk(cm.node) if isinstance(lp, ast.For)
             and isinstance(lp.iter, ast.Call)
             and src(lp.iter.func) == "ast.walk" and lp.iter.args
             and src(lp.iter.args[0]).endswith(".target")
             and any(isinstance(c, ast.Call) and
                     isinstance(c.func, ast.Attribute) and
                     c.func.attr == "add" for c in ast.walk(lp))]
    rep.check(bool(walks), rule, cm.qualname, "the names a comprehension "
              "binds are collected from the whole target (nested and "
              "starred elements included)",
              construct="comprehension-target-walked", where=L.where(cm))
