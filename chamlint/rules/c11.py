"""C11 -- template errors surface as TemplateError with the exact source
location."""
from __future__ import annotations

import ast

from .. import lib as L
from .. import paths as P
from ..core import AnalysisError, src

TOK = "chameleon.tokenize.Token"

# modules whose functions run while a template is parsed / compiled
COMPILE_PATH = ("chameleon.parser", "chameleon.program",
                "chameleon.zpt.program", "chameleon.tal", "chameleon.i18n",
                "chameleon.metal", "chameleon.tales", "chameleon.compiler",
                "chameleon.codegen", "chameleon.astutil",
                "chameleon.tokenize")

# str methods that Token does not override: the result is a plain str and the
# position is lost (TemplateError then reports offset 0)
# reaching definitions that lose the position but cannot reach the raise
PLAIN_REVIEWED = {
    ("chameleon.tales.TalesExpr.__call__", "ExpressionError", "remaining"):
        (("const",), "remaining = '' is assigned only after an assignment "
                     "was appended; the raise is guarded by 'not "
                     "assignments'"),
    ("chameleon.i18n.parse_attributes", "CompilationError", "attr"):
        (("method:lower",), "attr.lower() runs only under 'not xml' and "
                            "every caller uses the default xml=True"),
}

PLAIN_METHODS = {"group", "lower", "upper", "title", "capitalize", "casefold",
                 "swapcase", "rsplit", "partition", "rpartition", "join",
                 "format", "center", "ljust", "rjust", "zfill", "expandtabs",
                 "translate", "encode", "splitlines", "removeprefix",
                 "removesuffix"}


def run(repo, rep, tier):
    rep.explanation = (
        "exc.token / exc.offset are produced by slice arithmetic on the str "
        "subclass Token, spread over tokenizer, tag parser and statement "
        "splitters.  Decided statically: (1) a position algebra for Token -- "
        "for every method that builds a Token the checker derives, from the "
        "method body, what the new 'pos' argument data-depends on and "
        "compares it with the method's contract (slice: receiver pos + "
        "start; lstrip: pos + removed length; rstrip/add/replace: pos; "
        "split: must depend on the separator or on a search in the "
        "receiver); (2) the provenance of the token argument at every "
        "'raise <TemplateError subclass>(msg, token)' site: its def-use chain "
        "inside the function must not pass a str method that Token does not "
        "override (position lost) nor a helper that shortens the text before "
        "splitting it (position drift); (3) a census of all raise/assert "
        "statements on the compile path: user-reachable failures must be "
        "TemplateError subclasses; (4) _cook stamps the file name.")
    rep.assumptions = [
        "that a valid template is never rejected is decided only through "
        "the necessary conditions of R11.5",
        "function parameters named token/clause are tokens produced by the "
        "tokenizer or by position-faithful steps (interprocedural chains are "
        "followed one level only)",
    ]
    rep.rule("R11.1", "Token position algebra: the pos of every derived "
                      "Token depends on what its contract says")
    rep.rule("R11.2", "provenance at raise sites: no plain-str step, no "
                      "drift step between tokenizer output and the token "
                      "handed to a TemplateError")
    rep.rule("R11.3", "G-RAISE: user-reachable failures on the compile path "
                      "raise TemplateError subclasses; no assert on "
                      "template-derived data")
    rep.rule("R11.4", "every TemplateError leaving _cook carries the "
                      "template's file name; TemplateError coerces its token")
    rep.rule("R11.5", "necessary conditions of 'a valid template is never "
                      "rejected': statement regexes accept multi-line "
                      "expressions; index lookups on compile-time stacks "
                      "are guarded")
    rep.rule("R11.6", "Token.location closed form: line and column are "
                      "counted in '\\n' only, from the token's offset")
    _accepts(repo, rep)
    split_ok = _algebra(repo, rep)
    _helpers(repo, rep)
    _raise_sites(repo, rep, split_ok)
    _edited_upstream(repo, rep)
    _token_tables(repo, rep, split_ok)
    _parser_outputs(repo, rep)
    from . import c05
    L.borrow(repo, rep, "R11.3", "C05", c05._reserved_rule,
             ("double-underscore", "in-reserved-set"))
    _part_errors(repo, rep)
    _group_helpers(repo, rep)
    _text_visits(repo, rep)
    rebuilt_tokens(repo, rep)
    _match_results_tested(repo, rep)
    _match_spans(repo, rep)
    _location(repo, rep)
    _census(repo, rep)
    _dynamic_python(repo, rep)
    _stamp(repo, rep)
    # a well-formed statement is never rejected, a malformed one is: the
    # statement patterns and the part splitter (C01 owns them)
    from . import c01 as _c01
    L.borrow(repo, rep, "R11.5", "C01", _c01.statement_patterns,
             ("statement-space", "statement-expression-width",
              "split-parts-steps"), minimum=3)
    # the expression layer rejects what is invalid and nothing else, and cuts
    # its error tokens out of the text by one group (C04 owns these details)
    # what is a comment, a tag, a declaration -- and so which errors are
    # raised for a token -- is decided by identify() (C03 owns the parser details)
    from . import c03 as _c03
    L.borrow(repo, rep, "R11.5", "C03", _c03.parser_details,
             ("identify-ends", "tag-space"))
    from . import c04 as _c04
    L.borrow(repo, rep, "R11.5", "C04", _c04.tales_details,
             ("no-input-guard", "stripped-both-sides", "slice-one-group", "tales-space", "prefix-width"), minimum=2)
    L.option_defaults_rule(repo, rep, "R11.5", ("restricted_namespace",))
    # the duplicate check of an i18n:name consults the translation it is in
    L.innermost_rule(repo, rep, "R11.5", ("chameleon.compiler.Compiler",),
                     only=("_translations",))
    # in text mode '&...;' inside ${...} is no entity: a valid expression
    # is not rejected, the error token is the text as written (C06)
    from . import c06 as _c06
    L.borrow(repo, rep, "R11.5", "C06", _c06._decode, ("decode-flag",))
    # every token the tokenizers make carries the file name they were given
    # (a deferred error is pickled with its token: the name is not added
    # later as for compile-time errors)
    for tq in ("chameleon.tokenize.iter_xml", "chameleon.tokenize.iter_text"):
        tf = repo.func(tq)
        prm = [x.arg for x in tf.node.args.args]
        toks = [c for c in ast.walk(tf.node) if isinstance(c, ast.Call)
                and src(c.func) == "Token"]
        okf = bool(toks) and "filename" in prm and all(
            any(src(a_) == "filename" for a_ in list(c.args) +
                [k.value for k in c.keywords]) for c in toks)
        rep.check(okf, "R11.4", tq, "tokens are stamped with the file name",
                  construct="token-filename-forwarded", where=L.where(tf))
    filename_chain(repo, rep, "R11.4")
    L.whitelist_rule(repo, rep, "R11.5")
    language_error_guards(repo, rep)
    error_tokens_reviewed(repo, rep)
    # a multi-line expression is valid whatever the document's line ends
    # are (C20 owns the rewriting of the expression text)
    from . import c20 as _c20
    L.borrow(repo, rep, "R11.5", "C20", _c20._lone_value,
             ("python-line-ends",))
    # the file name is written into the generated module as a literal: it
    # is handed to the compiler as text (the repr of a path object is no
    # literal: the module would not load)
    cp = repo.func("chameleon.template.BaseTemplate._compile")
    cc_ = [c for c in ast.walk(cp.node) if isinstance(c, ast.Call)
           and src(c.func) == "Compiler"]
    rep.check(bool(cc_) and all(
        len(c.args) > 2 and src(c.args[2]) == "str(self.filename)"
        or any(k.arg == "filename" and src(k.value) == "str(self.filename)"
               for k in c.keywords) for c in cc_), "R11.5", cp.qualname,
        "the compiler gets the file name as a string",
        construct="filename-as-text", where=L.where(cp))
    # the expression types of the file-based class are its own table: the
    # 'load:' type added there is unknown to string templates (they have no
    # loader; the type is rejected when such a template is compiled)
    pf = repo.cls("chameleon.zpt.template.PageTemplateFile")
    et = pf.attrs.get("expression_types")
    rep.check(et is not None and isinstance(et, ast.Call) and (
        isinstance(et.func, ast.Attribute) and et.func.attr == "copy" or
        src(et.func) == "dict"), "R11.5", pf.qualname, "the file-based "
        "class extends a copy of the expression-type table",
        construct="expression-types-copied",
        detail=src(et) if et is not None else "missing")
    # constructing a template computes its cache key: that must not fail
    # for any environment (C15 owns the key)
    from . import c15 as _c15
    L.borrow(repo, rep, "R11.5", "C15", _c15.versions_total,
             ("version-none-guarded",))
    # a valid multi-part statement is not rejected for a ';' that only
    # appears once an entity is decoded (C09 owns the element details)
    from . import c09 as _c09
    L.borrow(repo, rep, "R11.5", "C09", _c09.element_details,
             ("multipart-complete", "blank-clause-empty"), minimum=2)
    # the names of a tuple define keep their positions (C01 owns the
    # statement parsers); a file that stopped compiling is rejected on every
    # use, not only the first (C16 owns the reload protocol)
    from . import c01 as _c01
    L.borrow(repo, rep, "R11.3", "C01", _c01._parsers, ("define-names",))
    from . import c16 as _c16
    L.borrow(repo, rep, "R11.5", "C16", _c16._cook_check,
             ("mtime-compare", "no-recompile", "check-order"), minimum=2)
    # the search for an expression's closing brace gives up only when no
    # shorter candidate is left (C06 owns the loop)
    from . import c06 as _c06b
    L.borrow(repo, rep, "R11.5", "C06", _c06b._loop, ("research-or-raise",))
    L.state_rule(repo, rep)


ERROR_CLASSES = {"LanguageError", "ExpressionError", "ParseError",
                 "CompilationError", "TranslationError",
                 "UndefinedNamespacePrefix", "UnknownExpressionType",
                 "TemplateError"}


def error_token_census(repo):
    """[(function, head of the message, token expression)] of the raises of
    template errors that carry a token"""
    out = []
    for q, f in sorted(repo.funcs.items()):
        for r in ast.walk(f.node):
            if isinstance(r, ast.Raise) and isinstance(r.exc, ast.Call) and \
                    src(r.exc.func).split(".")[-1] in ERROR_CLASSES and \
                    len(r.exc.args) >= 2:
                out.append([q, src(r.exc.args[0])[:40],
                            src(r.exc.args[1])[:60]])
    return out


def error_tokens_reviewed(repo, rep, rule="R11.3"):
    """the token of an error is the piece of template text the message is
    about -- a reviewed table (reference_error_tokens.json, like the state
    census): at every known error site the token expression is the reviewed
    one.  New sites are covered by the provenance rule only, until they are
    reviewed."""
    import json
    import os
    path = os.path.join(os.path.dirname(os.path.dirname(
        os.path.abspath(__file__))), "reference_error_tokens.json")
    try:
        ref = json.load(open(path))["census"]
    except (OSError, ValueError, KeyError) as exc:
        raise AnalysisError("reference_error_tokens.json: %s" % exc)
    now = {}
    for q, msg, tok in error_token_census(repo):
        now.setdefault((q, msg), []).append(tok)
    want = {}
    for q, msg, tok in ref:
        want.setdefault((q, msg), []).append(tok)
    n = 0
    for key, toks in sorted(want.items()):
        if key not in now:
            continue
        n += 1
        rep.check(sorted(now[key]) == sorted(toks), rule, key[0],
                  "the token of the error %s... is %s" % (
                      key[1][:30], " / ".join(sorted(set(toks)))),
                  construct="error-token:%s" % key[1][:24],
                  detail="now: %s" % now[key])
    if n < 20:
        raise AnalysisError("error-token census: %d known sites left" % n)


def language_error_guards(repo, rep, rule="R11.5"):
    """an illegal combination of statements is rejected when -- and only
    when -- the statements its message names are both there: the condition
    in front of the raise reads the (namespace, name) keys the message
    spells out"""
    import re as _re
    ns_of = {"tal": "TAL", "metal": "METAL", "i18n": "I18N", "meta": "META"}
    n = 0
    for q, f in sorted(repo.funcs.items()):
        if not q.startswith("chameleon.zpt.program."):
            continue
        for r in ast.walk(f.node):
            if not (isinstance(r, ast.Raise) and isinstance(r.exc, ast.Call)
                    and src(r.exc.func) == "LanguageError" and r.exc.args
                    and isinstance(r.exc.args[0], ast.Constant)):
                continue
            toks = _re.findall(r"\b(tal|metal|i18n|meta):([a-z-]+)",
                               str(r.exc.args[0].value))
            gs = [src(L.inline_locals(f.node, t_))
                  for t_, v_ in L.guards_of(r, f.node)
                  if isinstance(t_, ast.expr)]
            if len(toks) < 2 or not any("ns" in g for g in gs):
                continue
            n += 1
            text = " ".join(gs).replace(" ", "")
            miss = [t for t in toks if "(%s,'%s')" % (ns_of[t[0]], t[1])
                    not in text]
            rep.check(not miss, rule, f.qualname, "the combination %s is "
                      "rejected by a test of exactly these statements" %
                      " + ".join("%s:%s" % t for t in toks),
                      construct="language-error-guard:%s" % "+".join(
                          t[1] for t in toks), where=L.where(f, r.lineno),
                      detail="not tested: %s" % miss)
    if n < 2:
        raise AnalysisError("illegal-combination checks: %d found" % n)


def filename_chain(repo, rep, rule="R11.4"):
    """The template's file name reaches the tokenizer: parse() hands it to
    the program (third positional argument of Program.__init__, or by
    keyword), the program hands it to its tokenizer, the token keeps it."""
    tn = repo.func("chameleon.tokenize.Token.__new__")
    st = [a for a in ast.walk(tn.node) if isinstance(a, ast.Assign)
          and isinstance(a.targets[0], ast.Attribute)
          and a.targets[0].attr == "filename"]
    rep.check(bool(st) and all(any(
        isinstance(x, ast.Name) and x.id == "filename"
        for x in ast.walk(a.value)) for a in st), rule, tn.qualname,
        "a token keeps the file name it is made with",
        construct="filename-chain:token", where=L.where(tn))
    pi = repo.func("chameleon.program.ElementProgram.__init__")
    prm = [x.arg for x in pi.node.args.args]
    pos = prm.index("filename") - 1 if "filename" in prm else None
    calls = [c for c in ast.walk(pi.node) if isinstance(c, ast.Call)
             and src(c.func) == "tokenizer"]
    rep.check(pos is not None and bool(calls) and all(
        any(src(a_) == "filename" for a_ in list(c.args) +
            [k.value for k in c.keywords]) for c in calls),
        rule, pi.qualname, "the program hands its file name to the "
        "tokenizer", construct="filename-chain:program", where=L.where(pi))
    pp = repo.func("chameleon.zpt.template.PageTemplate.parse")
    progs = [c for c in ast.walk(pp.node) if isinstance(c, ast.Call)
             and src(c.func) == "MacroProgram"]
    okp = bool(progs) and pos is not None
    for c in progs:
        if any(isinstance(a_, ast.Starred) for a_ in c.args):
            continue
        val = c.args[pos] if pos is not None and len(c.args) > pos else \
            next((k.value for k in c.keywords if k.arg == "filename"), None)
        if val is None or src(val) != "self.filename":
            okp = False
    rep.check(okp, rule, pp.qualname, "parse() hands the template's file "
              "name to the program (tokens of deferred errors are pickled "
              "with it; nothing adds it later)",
              construct="filename-chain:parse", where=L.where(pp))


# ---------------------------------------------------------------------------


def deps(fnode, expr, opaque_calls=()):
    """Names (dotted, e.g. self.pos / index.start / sep) the value of
    ``expr`` data-depends on inside ``fnode`` (flow-insensitive fixpoint over
    assignments, augmented assignments and for-targets)."""
    defs = {}
    for n in ast.walk(fnode):
        if isinstance(n, ast.Assign):
            for t in n.targets:
                for nm in _target_names(t):
                    defs.setdefault(nm, []).append(n.value)
        elif isinstance(n, ast.AugAssign):
            for nm in _target_names(n.target):
                defs.setdefault(nm, []).append(n.value)
        elif isinstance(n, ast.For):
            for nm in _target_names(n.target):
                defs.setdefault(nm, []).append(n.iter)
    out = set()
    calls = set()
    todo = [expr]
    seen = set()
    def walk_cut(e):
        # ast.walk that does not descend into opaque calls
        stack = [e]
        while stack:
            n = stack.pop()
            if isinstance(n, ast.Call) and src(n.func) in opaque_calls:
                calls.add(src(n.func))
                continue
            yield n
            stack.extend(ast.iter_child_nodes(n))

    while todo:
        e = todo.pop()
        for n in walk_cut(e):
            if isinstance(n, ast.Attribute):
                d = _dotted(n)
                if d:
                    out.add(d)
            elif isinstance(n, ast.Name):
                out.add(n.id)
                if n.id in defs and n.id not in seen:
                    seen.add(n.id)
                    todo.extend(defs[n.id])
            elif isinstance(n, ast.Call):
                calls.add(src(n.func))
    return out, calls


def _dotted(n):
    parts = []
    while isinstance(n, ast.Attribute):
        parts.append(n.attr)
        n = n.value
    if isinstance(n, ast.Name):
        parts.append(n.id)
        return ".".join(reversed(parts))
    return None


def _target_names(t):
    if isinstance(t, ast.Name):
        return [t.id]
    if isinstance(t, (ast.Tuple, ast.List)):
        out = []
        for e in t.elts:
            out += _target_names(e)
        return out
    if isinstance(t, ast.Subscript) and isinstance(t.value, ast.Name):
        return [t.value.id]
    return []


def A_canon(text):
    from ..absint import canon_test
    return canon_test(text)


def _algebra(repo, rep):
    ci = repo.cls(TOK)
    n = 0
    split_ok = False
    for name, m in sorted(ci.methods.items()):
        ctor = [c for c in ast.walk(m.node) if isinstance(c, ast.Call)
                and src(c.func) == "Token" and len(c.args) >= 2]
        site = m.qualname
        wh = L.where(m)
        if name == "strip":
            text = src(m.node.body[-1])
            ok = "lstrip" in text and "rstrip" in text
            rep.check(ok, "R11.1", site, "strip = lstrip then rstrip (both "
                      "position-faithful)", construct="strip", where=wh,
                      detail=text)
            continue
        if not ctor or name == "__new__":
            continue
        for c in ctor:
            n += 1
            posarg = c.args[1]
            # the parts themselves depend on the separator; the position
            # must depend on it by another route
            d, calls = deps(m.node, posarg,
                            opaque_calls=("str.split",) if name == "split"
                            else ())
            keeps = len(c.args) >= 4 and src(c.args[2]) == "self.source" \
                and src(c.args[3]) == "self.filename"
            rep.check(keeps, "R11.1", site, "%s keeps source and filename of "
                      "the receiver" % name, construct="keeps:" + name,
                      where=wh)
            if name == "__getitem__":
                ok = "self.pos" in d and "index.start" in d
                what = "slice: pos = receiver pos + slice start"
            elif name == "lstrip":
                ok = "self.pos" in d and "self" in d and "s" in d and \
                    "len" in calls
                what = "lstrip: pos advances by the number of characters " \
                       "removed (len(self) - len(result))"
            elif name in ("rstrip", "__add__", "replace"):
                ok = src(posarg) == "self.pos"
                what = "%s: position of the receiver is kept" % name
            elif name == "split":
                searches = [n for n in ast.walk(m.node)
                            if isinstance(n, ast.Call) and src(n.func) in (
                                "str.find", "self.find", "str.index",
                                "self.index")]

                def guarded_by_none(n):
                    p = getattr(n, "_parent", None)
                    while p is not None and p is not m.node:
                        if isinstance(p, ast.If) and "sep is None" in src(
                                p.test):
                            return True
                        p = getattr(p, "_parent", None)
                    return False
                ok = "self.pos" in d and ("sep" in d or any(
                    not guarded_by_none(n) for n in searches))
                what = ("split: the position of each part depends on the "
                        "separator (or on a search in the receiver), not only "
                        "on the lengths of the previous parts")
                split_ok = ok
                # split on white space (sep=None): the run in front of
                # *every* part -- the first one included -- has no fixed
                # length, so each part's position comes from a search; the
                # search may depend on nothing but 'sep is None'
                def only_sep_guards(n):
                    for g_, truth in L.guards_of(n, m.node):
                        if not isinstance(g_, ast.expr):
                            return False
                        ct, flip = A_canon(src(g_))
                        if ct.replace(" ", "") != "sepisNone" or \
                                (truth != flip) is not True:
                            return False
                    return True
                rep.check(any(only_sep_guards(n) for n in searches),
                          "R11.1", site, "split on white space: every "
                          "part's position is found by a search in the "
                          "receiver (the blanks in front of a part, also of "
                          "the first one, are not counted by lengths)",
                          construct="pos:split-whitespace", where=wh,
                          detail="searches: %s" % [
                              (src(n)[:40], [src(g_[0])[:40] for g_ in
                                             L.guards_of(n, m.node)
                                             if isinstance(g_[0], ast.expr)])
                              for n in searches])
            else:
                ok = "self.pos" in d
                what = "%s: derived position depends on the receiver's" % name
            rep.check(ok, "R11.1", site, what, construct="pos:" + name,
                      where=wh, detail="pos argument %s depends on %s" % (
                          src(posarg), sorted(x for x in d
                                              if x not in ("self",))))
    # Token is used wherever a str is: a method it overrides has the
    # parameters and the defaults of the str method (split(',') on a token
    # splits at every comma, like on a str)
    import inspect
    for name, m in sorted(ci.methods.items()):
        if name.startswith("__") or not hasattr(str, name):
            continue
        try:
            sig = inspect.signature(getattr(str, name))
        except (TypeError, ValueError):
            continue
        want = [(p_.name, p_.default) for p_ in sig.parameters.values()
                if p_.name != "self"]
        a = m.node.args
        pos = a.posonlyargs + a.args
        defaults = [None] * (len(pos) - len(a.defaults)) + list(a.defaults)
        have = []
        for p_, d_ in list(zip(pos, defaults))[1:]:
            if d_ is None:
                have.append((p_.arg, inspect.Parameter.empty))
            else:
                try:
                    have.append((p_.arg, ast.literal_eval(d_)))
                except ValueError:
                    have.append((p_.arg, src(d_)))
        same = len(have) == len(want) and all(
            h[1] == w[1] for h, w in zip(have, want))
        rep.check(same, "R11.1", m.qualname, "Token.%s takes what str.%s "
                  "takes, with the same defaults" % (name, name),
                  construct="str-signature:" + name, where=L.where(m),
                  detail="Token: %s; str: %s" % (have, want))
    for name, m in sorted(ci.methods.items()):
        if name.startswith("__") or not hasattr(str, name):
            continue
        dl = [c for c in ast.walk(m.node) if isinstance(c, ast.Call)
              and isinstance(c.func, ast.Attribute)
              and src(c.func.value) == "str" and c.args
              and src(c.args[0]) == "self"]
        # (locating the pieces with str.find / str.index is part of it)
        dl = [c for c in dl if c.func.attr not in ("find", "index")]
        if dl:
            rep.check(all(c.func.attr == name for c in dl), "R11.1",
                      m.qualname, "Token.%s computes its pieces with "
                      "str.%s" % (name, name),
                      construct="delegates:" + name, where=L.where(m),
                      detail=str([src(c.func) for c in dl]))
    rep.require_min("R11.1", 8, "Token methods building derived tokens")
    # the slice start of __getitem__: negative starts are not position
    # faithful -> callers on error paths must not use them (checked in R11.2)
    return split_ok


def _accepts(repo, rep):
    from .. import rx
    for name in ("DEFINE_RE", "SUBST_RE", "ATTR_RE"):
        rc = repo.const("chameleon.tal", name)
        site = "chameleon.tal." + name
        if not hasattr(rc, "pattern"):
            raise AnalysisError("%s is not a compiled regex" % site)
        tree = rx.parse(rc.pattern, rc.flags)
        flags = tree.state.flags | rc.flags
        data = list(tree)
        tail_any = False
        # the expression group: '(.*)' right before \Z
        if len(data) >= 2 and data[-1][0] is rx.C.AT and \
                data[-2][0] is rx.C.SUBPATTERN:
            body = list(data[-2][1][3])
            tail_any = any(op in (rx.C.MAX_REPEAT, rx.C.MIN_REPEAT) and
                           len(av[2]) == 1 and av[2][0][0] is rx.C.ANY
                           for op, av in body)
        rep.check(tail_any, "R11.5", site, "the statement pattern ends with "
                  "the expression group '(.*)' anchored at the end",
                  construct="expr-group:" + name, detail=rc.pattern[-30:])
        rep.check(bool(flags & 16), "R11.5", site,
                  "'.' in the expression group matches line breaks (DOTALL): "
                  "an expression continued on the next line is not rejected",
                  construct="dotall:" + name,
                  detail="flags=%d pattern=%s" % (flags, rc.pattern[:40]))
    # compile-time stack lookups with a computed index are guarded
    ve = repo.func("chameleon.zpt.program.MacroProgram.visit_element")
    n = 0
    for sub in ast.walk(ve.node):
        if isinstance(sub, ast.Subscript) and isinstance(sub.ctx, ast.Load) \
                and src(sub.value).startswith("self._") and \
                isinstance(sub.slice, ast.Name):
            n += 1
            guarded = False
            p = getattr(sub, "_parent", None)
            while p is not None and p is not ve.node:
                if isinstance(p, ast.Try) and any(
                        h.type is not None and
                        src(h.type) in ("IndexError", "LookupError",
                                        "(IndexError, KeyError)")
                        for h in p.handlers) and any(
                        sub in list(ast.walk(b)) for b in p.body):
                    guarded = True
                p = getattr(p, "_parent", None)
            later_same = [x for x in ast.walk(ve.node)
                          if isinstance(x, ast.Subscript) and x is not sub
                          and src(x) == src(sub) and x.lineno < sub.lineno]
            rep.check(guarded or bool(later_same), "R11.5", ve.qualname,
                      "%s (index computed from the element's statements) is "
                      "looked up under 'except IndexError' so that a missing "
                      "entry becomes a LanguageError, not a bare IndexError"
                      % src(sub), construct="unguarded-index:" + src(sub),
                      where=L.where(ve, sub.lineno))
    rep.check(n >= 1, "R11.5", ve.qualname, "computed stack lookups were "
              "found", construct="index-lookups", detail=str(n))


def _helpers(repo, rep):
    """Position-preserving helpers of parser.py"""
    for name in ("groups", "groupdict"):
        f = repo.func("chameleon.parser." + name)
        text = L.text(f.node)
        spans = [n for n in ast.walk(f.node) if isinstance(n, ast.Call)
                 and src(n.func) == "m.span"]
        slices = [n for n in ast.walk(f.node) if isinstance(n, ast.Subscript)
                  and src(n.value) == "token" and isinstance(n.slice,
                                                             ast.Slice)]
        ok = len(spans) == 1 and len(slices) == 1
        if ok:
            st = None
            for a in ast.walk(f.node):
                if isinstance(a, ast.Assign) and a.value is spans[0]:
                    st = [src(e) for e in a.targets[0].elts]
            sl = slices[0].slice
            ok = st is not None and [src(sl.lower), src(sl.upper)] == st
        rep.check(ok, "R11.2", f.qualname, "%s re-slices each matched group "
                  "from the token by the group's span (position kept)" % name,
                  construct="span-slice:" + name, where=L.where(f))
    f = repo.func("chameleon.parser.substitute")
    text = L.text(f.node)
    rep.check("token.pos" in text and "token.source" in text, "R11.2",
              f.qualname, "substitute keeps the token's position and source",
              construct="substitute", where=L.where(f))
    f = repo.func("chameleon.exc.TemplateError.__init__")
    text = L.text(f.node)
    rep.check("if not isinstance(token, Token): token = Token(token, 0)"
              in text, "R11.4", f.qualname, "a plain str is coerced to a "
              "Token at offset 0 (so a lost position shows as offset 0)",
              construct="coerce", where=L.where(f))


def _shrinking_helpers(repo):
    """Functions that apply a non-length-preserving replace to a value and
    split / slice it afterwards: positions of later parts drift."""
    out = {}
    for q, f in repo.funcs.items():
        if f.module.name not in COMPILE_PATH:
            continue
        repl = []
        for n in ast.walk(f.node):
            if isinstance(n, ast.Assign) and isinstance(n.value, ast.Call) \
                    and isinstance(n.value.func, ast.Attribute) and \
                    n.value.func.attr == "replace" and \
                    len(n.value.args) >= 2 and all(
                        isinstance(a, ast.Constant) and
                        isinstance(a.value, str) for a in n.value.args[:2]):
                a, b = n.value.args[0].value, n.value.args[1].value
                var = src(n.targets[0])
                if len(a) != len(b) and src(n.value.func.value) == var:
                    repl.append((n.lineno, var, a, b))
        for lineno, var, a, b in repl:
            for n in ast.walk(f.node):
                if isinstance(n, ast.Call) and \
                        isinstance(n.func, ast.Attribute) and \
                        n.func.attr == "split" and \
                        src(n.func.value) == var and n.lineno > lineno:
                    out[f.name] = (f, lineno, var, a, b)
    return out


def _chains(fnode, expr, upto_line, limit=8):
    """All intra-function def-use chains of ``expr`` (one per reaching
    definition, flow-insensitive: every assignment textually before the
    use).  -> list of chains; a chain is a list of step strings."""
    out = []

    def go(e, line, steps, depth):
        if len(out) >= limit or depth > 14:
            out.append(steps + ["..."])
            return
        if isinstance(e, ast.Call) and isinstance(e.func, ast.Attribute):
            return go(e.func.value, line, steps + ["method:" + e.func.attr],
                      depth + 1)
        if isinstance(e, ast.Call) and isinstance(e.func, ast.Name):
            st = steps + ["call:" + e.func.id]
            if e.args:
                nxt = e.args[-1] if e.func.id in ("groups", "groupdict") \
                    else e.args[0]
                return go(nxt, line, st, depth + 1)
            out.append(st)
            return
        if isinstance(e, ast.Subscript):
            if isinstance(e.slice, ast.Slice):
                lo = e.slice.lower
                neg = isinstance(lo, ast.UnaryOp) and isinstance(lo.op,
                                                                 ast.USub)
                return go(e.value, line, steps + [
                    "slice-neg" if neg else "slice"], depth + 1)
            return go(e.value, line, steps + ["item"], depth + 1)
        if isinstance(e, ast.BinOp) and isinstance(e.op, ast.Mod):
            out.append(steps + ["format:%"])
            return
        if isinstance(e, ast.BinOp) and isinstance(e.op, ast.Add):
            return go(e.left, line, steps + ["concat"], depth + 1)
        if isinstance(e, ast.JoinedStr):
            out.append(steps + ["format:f-string"])
            return
        if isinstance(e, ast.Constant):
            out.append(steps + ["const"])
            return
        if isinstance(e, ast.Attribute):
            return go(e.value, line, steps + ["attr:" + e.attr], depth + 1)
        if isinstance(e, ast.IfExp):
            go(e.body, line, steps, depth + 1)
            go(e.orelse, line, steps, depth + 1)
            return
        if isinstance(e, (ast.ListComp, ast.GeneratorExp, ast.SetComp)):
            return go(e.elt, line, steps + ["each"], depth + 1)
        if isinstance(e, (ast.Tuple, ast.List)) and e.elts:
            for x in e.elts[:4]:
                go(x, line, steps + ["item-of"], depth + 1)
            return
        if isinstance(e, ast.BoolOp):
            for x in e.values[:3]:
                go(x, line, steps, depth + 1)
            return
        if isinstance(e, ast.Name):
            found = []
            for n in ast.walk(fnode):
                ln = getattr(n, "lineno", None)
                if isinstance(n, ast.Assign) and ln is not None and \
                        ln < line:
                    for t in n.targets:
                        if e.id in _target_names(t):
                            found.append((ln, n.value, "assign"))
                elif isinstance(n, ast.For) and n.lineno <= line:
                    if e.id in _target_names(n.target):
                        found.append((n.lineno, n.iter, "elem"))
                elif isinstance(n, ast.comprehension):
                    if e.id in _target_names(n.target) and \
                            n.iter.lineno <= line:
                        found.append((n.iter.lineno, n.iter, "elem"))
            if not found:
                out.append(steps + ["root:" + e.id])
                return
            found = _kill_dominated(found, e)
            found = _drop_exclusive(found, e)
            for ln, val, kind in found:
                if val is e:
                    continue
                # (names bound inside the value -- comprehension variables
                # -- are looked up from the value's last line: the value of a
                # normalised statement may span lines behind its own)
                go(val, max(ln, getattr(val, "end_lineno", None) or ln),
                   steps + (["elem"] if kind == "elem" else []), depth + 1)
            return
        out.append(steps + ["expr:" + type(e).__name__])
    go(expr, upto_line, [], 0)
    return out or [["?"]]


def _stmt_of(n):
    while n is not None and not isinstance(n, ast.stmt):
        n = getattr(n, "_parent", None)
    return n


def _kill_dominated(found, use):
    """Drop the definitions that a later definition, executed on every path
    to the use, overwrites: a definition dominates the use if it is an
    earlier sibling of the use statement or of one of its ancestors."""
    ustmt = _stmt_of(use)
    if ustmt is None:
        return found
    anc = []
    a = ustmt
    while a is not None and not isinstance(a, (ast.FunctionDef, ast.Lambda)):
        anc.append(a)
        a = getattr(a, "_parent", None)
    best = None
    for ln, val, kind in found:
        d = _stmt_of(val)
        if d is None or kind != "assign":
            continue
        par = getattr(d, "_parent", None)
        for fld in ("body", "orelse", "finalbody"):
            blk = getattr(par, fld, None)
            if not isinstance(blk, list) or d not in blk:
                continue
            # a try body may be left before the definition ran
            if isinstance(par, ast.Try) and fld == "body" and not any(
                    x in blk for x in anc):
                continue
            for x in anc:
                if x in blk and blk.index(x) > blk.index(d):
                    if best is None or ln > best:
                        best = ln
    if best is None:
        return found
    return [f for f in found if f[0] >= best]


def _drop_exclusive(found, use):
    """A definition in one branch of an if statement does not reach a use in
    the other branch of the same statement, provided some definition
    dominates the use inside the innermost enclosing loop (so nothing is
    carried round the loop)."""
    ustmt = _stmt_of(use)
    if ustmt is None or len(found) < 2:
        return found

    def branches(n):
        out = []
        prev, a = n, getattr(n, "_parent", None)
        while a is not None and not isinstance(a, (ast.FunctionDef,
                                                   ast.Lambda)):
            if isinstance(a, ast.If):
                if prev in a.body:
                    out.append((a, "body"))
                elif prev in a.orelse:
                    out.append((a, "orelse"))
            prev, a = a, getattr(a, "_parent", None)
        return out

    def loop_of(n):
        a = getattr(n, "_parent", None)
        while a is not None and not isinstance(a, (ast.FunctionDef,
                                                   ast.Lambda)):
            if isinstance(a, (ast.For, ast.While)):
                return a
            a = getattr(a, "_parent", None)
        return None
    ub = dict((id(i), side) for i, side in branches(ustmt))
    uloop = loop_of(ustmt)
    # is there a dominating definition inside the same loop?
    anc = []
    a = ustmt
    while a is not None and not isinstance(a, (ast.FunctionDef, ast.Lambda)):
        anc.append(a)
        a = getattr(a, "_parent", None)
    dominated = False
    for ln, val, kind in found:
        d = _stmt_of(val)
        if d is None:
            continue
        if kind == "elem" and d in anc:
            dominated = True
        par = getattr(d, "_parent", None)
        for fld in ("body", "orelse", "finalbody"):
            blk = getattr(par, fld, None)
            if isinstance(blk, list) and d in blk and any(
                    x in blk and blk.index(x) > blk.index(d) for x in anc):
                if loop_of(d) is uloop or uloop is None:
                    dominated = True
    if not dominated:
        return found
    keep = []
    for item in found:
        d = _stmt_of(item[1])
        excl = False
        if d is not None:
            for i, side in branches(d):
                if id(i) in ub and ub[id(i)] != side:
                    excl = True
        if not excl:
            keep.append(item)
    return keep or found


def template_error_classes(repo):
    base = repo.cls("chameleon.exc.TemplateError")
    return {base.name} | {c.name for c in repo.subclasses(base)}


def _raise_sites(repo, rep, split_ok):
    classes = template_error_classes(repo)
    shrink = _shrinking_helpers(repo)
    for name, (f, lineno, var, a, b) in shrink.items():
        rep.bad("R11.2", f.qualname,
                "no helper on the token path shortens the text before "
                "splitting it", construct="drift:" + name,
                detail="%s = %s.replace(%r, %r) (line %d) changes the length, "
                       "the following split() reports every later part "
                       "shifted" % (var, var, a, b, lineno),
                where=L.where(f, lineno))
    if not shrink:
        rep.ok("R11.2", "chameleon.tal", "no helper shortens a token before "
                                         "splitting it")
    n = 0
    for q, f in sorted(repo.funcs.items()):
        if f.module.name not in COMPILE_PATH:
            continue
        for r in ast.walk(f.node):
            if not (isinstance(r, ast.Raise) and isinstance(r.exc, ast.Call)
                    and src(r.exc.func) in classes):
                continue
            n += 1
            args = r.exc.args
            site = f.qualname
            wh = L.where(f, r.lineno)
            if len(args) < 2:
                rep.bad("R11.2", site, "a TemplateError is raised with a "
                        "token", "no-token:%s" % src(r.exc.func),
                        src(r.exc)[:80], wh)
                continue
            tok = args[1]
            chains = _chains(f.node, tok, r.lineno)

            def is_plain(st):
                return [x for x in st if x.startswith("format:") or
                        x == "const" or (x.startswith("method:") and
                                         x[7:] in PLAIN_METHODS) or
                        x == "call:str"]

            def is_drift(st):
                return [x for x in st if x == "slice-neg" or
                        (x.startswith("call:") and x[5:] in shrink) or
                        (x == "method:split" and not split_ok)]
            # position lost: only if *every* reaching definition loses it
            # (flow-insensitive chains may include infeasible definitions)
            plain = [is_plain(st) for st in chains]
            # position lost: if ANY reaching definition loses it -- except
            # the reviewed ones below (definitions that cannot reach the
            # raise, one line of reason each)
            excused = PLAIN_REVIEWED.get((f.qualname, src(r.exc.func),
                                          src(tok)))
            if excused is not None:
                plain = [pl for pl in plain if not (
                    pl and set(pl) <= set(excused[0]))]
            all_plain = any(plain) or not plain
            drift = [d for d in (is_drift(st) for st in chains) if d]
            key = "%s(%s)" % (src(r.exc.func), src(tok)[:40])
            shown = " | ".join(" <- ".join(st) for st in chains[:3])
            rep.check(not all_plain, "R11.2", site,
                      "the token of %s keeps a source position (chains: %s)"
                      % (key, shown),
                      construct="plain:" + key, where=wh,
                      detail="a definition passes %s: a plain str, the "
                             "error is reported at offset 0" % [
                                 pl for pl in plain if pl][:2])
            rep.check(not drift, "R11.2", site,
                      "the token of %s is derived by position-faithful steps "
                      "only (chains: %s)" % (key, shown),
                      construct="drift-at:" + key, where=wh,
                      detail="step(s) %s are not position faithful" % drift[:2])
            # ... and is the text that stands there: a copy edited inside
            # the raising function (newlines blanked, continuations joined)
            # keeps its offset but source[offset:offset+len(token)] != token

            def is_edit(st):
                return [x for x in st if x in ("method:replace",
                                               "call:substitute",
                                               "method:sub",
                                               "method:expandtabs")]
            edited = [e_ for e_ in (is_edit(st) for st in chains) if e_]
            rep.check(not edited, "R11.2", site,
                      "the token of %s is a piece of the source as written, "
                      "not a copy edited on the way to the raise (chains: "
                      "%s)" % (key, shown),
                      construct="edited:" + key, where=wh,
                      detail="step(s) %s rewrite the text" % edited[:2])
    rep.count("template_error_raise_sites", n)
    rep.require_min("R11.2", 40, "TemplateError raise sites (two obligations "
                                 "each) on the compile path")


def _edited_upstream(repo, rep):
    """The same obligation one step earlier: what an expression compiler is
    handed (and raises its ExpressionError with) must be the text as
    written.  Entity decoding and the ';;' / '\\|' escapes are undone on the
    way, on position-keeping copies whose text no longer equals
    source[offset:offset+len(token)]."""
    from .c12 import _extent
    L.borrow(repo, rep, "R11.2", "C12", _extent,
             ("decoded-before-ref", "unescaped-before-ref",
              "decode-keeps-token", "shortened-before-split"), minimum=5)
    # ... and a valid template is never rejected: the clause splitter has
    # to work on the text as written (decoded first, 'a&amp;b; y 2' reads
    # 'a&b; y 2' and '&b;' is protected like an entity)
    from .c07 import _split_on_written_text
    L.borrow(repo, rep, "R11.5", "C07", _split_on_written_text,
             ("split-after-decode",))
    # the error of a non-strict template is raised later from a pickled
    # copy: what is pickled is the caught error, token and source included
    from .c19 import deferred_error_untouched
    deferred_error_untouched(repo, rep, rule="R11.4")
    f = repo.func("chameleon.tales.TalesExpr.__call__")
    edits = []
    for n in ast.walk(f.node):
        if isinstance(n, ast.Assign) and isinstance(n.value, ast.Call) and \
                isinstance(n.value.func, ast.Attribute) and \
                n.value.func.attr == "replace" and \
                len(n.value.args) >= 2 and all(
                    isinstance(a, ast.Constant) and isinstance(a.value, str)
                    for a in n.value.args[:2]) and \
                n.value.args[0].value != n.value.args[1].value:
            var = src(n.targets[0])
            handed = any(isinstance(c, ast.Call) and
                         src(c.func).endswith("translate_proxy") and
                         any(src(a) == var for a in c.args) and
                         c.lineno >= n.lineno for c in ast.walk(f.node))
            if handed:
                edits.append(n)
    rep.check(not edits, "R11.2", f.qualname, "the alternatives of a pipe "
              "expression reach their compiler as written (the '\\|' escape "
              "is not undone on the text an error is reported with)",
              construct="unescaped-before-ref:pipe",
              where=L.where(f, edits[0].lineno) if edits else L.where(f),
              detail="; ".join(src(n) for n in edits))


def _match_results_tested(repo, rep):
    """re.match / search / fullmatch answer None for text they do not
    match -- and the text is the template's.  Every use of such a result
    (an attribute of it, or passing it on) is preceded by a test of the
    variable; a template that does not match must end in a TemplateError,
    not in 'NoneType has no attribute ...'."""
    n = 0
    for q, f in sorted(repo.funcs.items()):
        if f.module.name not in COMPILE_PATH:
            continue
        for a in ast.walk(f.node):
            if not (isinstance(a, ast.Assign) and isinstance(
                    a.value, ast.Call) and isinstance(
                        a.value.func, ast.Attribute) and
                    a.value.func.attr in ("match", "search", "fullmatch")
                    and isinstance(a.targets[0], ast.Name)):
                continue
            v = a.targets[0].id
            n += 1
            tests = [t.test.lineno for t in ast.walk(f.node)
                     if isinstance(t, (ast.If, ast.While, ast.IfExp,
                                       ast.Assert))
                     and any(isinstance(x, ast.Name) and x.id == v
                             for x in ast.walk(t.test))]
            rebind = [x.lineno for x in ast.walk(f.node)
                      if isinstance(x, (ast.Assign, ast.For))
                      and x.lineno > a.lineno and any(
                          isinstance(y, ast.Name) and y.id == v and
                          isinstance(y.ctx, ast.Store)
                          for y in ast.walk(x.targets[0] if isinstance(
                              x, ast.Assign) else x.target))]
            end = min(rebind) if rebind else 10 ** 9
            uses = sorted(
                [x.lineno for x in ast.walk(f.node)
                 if isinstance(x, ast.Attribute) and isinstance(
                     x.value, ast.Name) and x.value.id == v
                 and a.lineno < x.lineno <= end] +
                [x.lineno for x in ast.walk(f.node)
                 if isinstance(x, ast.Call) and any(
                     isinstance(g, ast.Name) and g.id == v for g in x.args)
                 and a.lineno < x.lineno <= end])
            bad = [u for u in uses if not any(a.lineno < t <= u
                                              for t in tests)]
            rep.check(not bad, "R11.3", f.qualname, "the result of %s is "
                      "tested before it is used" % src(a.value)[:50],
                      construct="match-result-tested:%s" % v,
                      where=L.where(f, bad[0] if bad else a.lineno),
                      detail="used at line(s) %s without a test of %r" % (
                          bad, v) if bad else "")
    rep.count("match_results", n)
    if n < 8:
        raise AnalysisError("only %d regex match results found" % n)


def _location(repo, rep):
    """Token.location: line = 1 + number of '\\n' before pos, column =
    distance from the last '\\n' before pos.  Decided as a closed form:
    the returned pair is normalised to a linear combination over the atoms
    NL = <prefix>.count('\\n'), LAST = <prefix>.rfind('\\n'), pos."""
    f = repo.func("chameleon.tokenize.Token.location")
    wh = L.where(f)
    env = {}

    def resolve(e):
        while isinstance(e, ast.Name) and e.id in env:
            e = env[e.id]
        return e

    def is_prefix(e):
        e = resolve(e)
        return isinstance(e, ast.Subscript) and \
            src(e.value) == "self.source" and \
            isinstance(e.slice, ast.Slice) and e.slice.lower is None and \
            e.slice.step is None and e.slice.upper is not None and \
            src(e.slice.upper) == "self.pos"

    def lin(e):
        e = resolve(e)
        if isinstance(e, ast.Constant) and type(e.value) is int:
            return {"": e.value}
        if isinstance(e, ast.Attribute) and src(e) == "self.pos":
            return {"pos": 1}
        if isinstance(e, ast.Call) and isinstance(e.func, ast.Attribute) \
                and is_prefix(e.func.value) and e.args and \
                isinstance(e.args[0], ast.Constant) and \
                e.args[0].value == "\n" and not e.keywords:
            rest = [src(a) for a in e.args[1:]]
            if e.func.attr == "count" and rest in ([], ["0"]):
                return {"NL": 1}
            if e.func.attr == "rfind" and rest in ([], ["0"]):
                return {"LAST": 1}
            return None
        if isinstance(e, ast.Call) and isinstance(e.func, ast.Attribute) \
                and src(resolve(e.func.value)) == "self.source" and \
                [src(a) for a in e.args[1:]] in (["0", "self.pos"],) and \
                isinstance(e.args[0], ast.Constant) and \
                e.args[0].value == "\n" and not e.keywords:
            # bounded search in the whole source: same value
            if e.func.attr == "count":
                return {"NL": 1}
            if e.func.attr == "rfind":
                return {"LAST": 1}
            return None
        if isinstance(e, ast.BinOp) and isinstance(e.op, (ast.Add, ast.Sub)):
            a, b = lin(e.left), lin(e.right)
            if a is None or b is None:
                return None
            sg = 1 if isinstance(e.op, ast.Add) else -1
            out = dict(a)
            for k, v in b.items():
                out[k] = out.get(k, 0) + sg * v
            return out
        if isinstance(e, ast.UnaryOp) and isinstance(e.op, ast.USub):
            a = lin(e.operand)
            return None if a is None else {k: -v for k, v in a.items()}
        return None

    def norm(d):
        return None if d is None else {k: v for k, v in d.items() if v}

    final = None
    for st in f.node.body:
        if isinstance(st, ast.Assign) and len(st.targets) == 1 and \
                isinstance(st.targets[0], ast.Name):
            env[st.targets[0].id] = st.value
        elif isinstance(st, ast.Return):
            final = st.value
    ok_line = ok_col = False
    detail = src(final) if final is not None else "no final return"
    if isinstance(final, ast.Tuple) and len(final.elts) == 2:
        ok_line = norm(lin(final.elts[0])) == {"NL": 1, "": 1}
        ok_col = norm(lin(final.elts[1])) == {"pos": 1, "LAST": -1, "": -1}
    # every exit gives a (line, column) pair: a token without a source
    # (one composed by an expression type) has no line, its location is
    # still unpacked by the error report
    rets = [r_ for r_ in ast.walk(f.node) if isinstance(r_, ast.Return)]
    rep.check(bool(rets) and all(
        isinstance(r_.value, ast.Tuple) and len(r_.value.elts) == 2
        for r_ in rets), "R11.6", f.qualname, "every exit of location "
        "returns a (line, column) pair", construct="location-pair",
        where=wh, detail="; ".join(src(r_) for r_ in rets))
    rep.check(ok_line, "R11.6", f.qualname, "line = 1 + number of '\\n' in "
              "source[:pos] (the only line separator of the parsed text)",
              construct="location-line", where=wh, detail=detail)
    rep.check(ok_col, "R11.6", f.qualname, "column = pos - (index of the "
              "last '\\n' in source[:pos]) - 1", construct="location-column",
              where=wh, detail=detail)


PARSER_FUNCS = ("chameleon.tal.parse_defines", "chameleon.tal.parse_attributes",
                "chameleon.tal.parse_substitution", "chameleon.tal.split_parts",
                "chameleon.parser.groups", "chameleon.parser.groupdict")


def _parser_outputs(repo, rep):
    """What the statement parsers hand to the node constructors (return
    values, items appended to the result) is later used as the token of
    errors raised far away (reserved names, duplicate names ...): every
    piece taken from the clause must still be a Token, i.e. its def-use
    chain inside the parser passes no str method that Token does not
    override."""
    n = 0
    for q in PARSER_FUNCS:
        f = repo.func(q)
        outs = []
        for st in ast.walk(f.node):
            if isinstance(st, ast.Return) and st.value is not None:
                outs.append((st.value, st.lineno))
            elif isinstance(st, ast.Expr) and isinstance(st.value, ast.Call) \
                    and isinstance(st.value.func, ast.Attribute) and \
                    st.value.func.attr in ("append", "extend", "insert") and \
                    st.value.args:
                outs.append((st.value.args[-1], st.lineno))
            elif isinstance(st, ast.Expr) and isinstance(
                    st.value, (ast.Yield, ast.YieldFrom)) and \
                    st.value.value is not None:
                outs.append((st.value.value, st.lineno))
        for e, ln in outs:
            names = []
            for x in ast.walk(e):
                if isinstance(x, ast.Name) and isinstance(x.ctx, ast.Load):
                    names.append(x)
            for nm in names:
                chains = _chains(f.node, nm, ln + 1)
                rooted = [c for c in chains if not c[-1].startswith("const")
                          and c[-1] != "..."]
                if not rooted:
                    continue
                n += 1
                plain = [[x for x in c if x == "call:str" or
                          x.startswith("format:") or
                          (x.startswith("method:") and
                           x[7:] in PLAIN_METHODS)] for c in rooted]
                shown = " | ".join(" <- ".join(c) for c in rooted[:2])
                rep.check(not any(plain), "R11.2", f.qualname,
                          "'%s' handed on by %s keeps its source position "
                          "(chains: %s)" % (nm.id, f.name, shown[:160]),
                          construct="parser-output:%s" % nm.id,
                          where=L.where(f, ln),
                          detail="a definition passes %s: a plain str"
                                 % [x for x in plain if x][:2])
    rep.count("parser_output_names", n)
    if n < 8:
        raise AnalysisError("parser outputs vanished (%d)" % n)
    # the attribute fields match_tag fills in by hand: 'value' becomes the
    # clause of a statement (and the token of its errors), so what is stored
    # there must come out of the tag token -- also the empty value of an
    # attribute written without one (<p tal:content>)
    mt = repo.func("chameleon.parser.match_tag")
    stores = [n for n in ast.walk(mt.node) if isinstance(n, ast.Assign)
              and isinstance(n.targets[0], ast.Subscript)
              and isinstance(n.targets[0].slice, ast.Constant)
              and n.targets[0].slice.value == "value"]
    consts = [n for n in stores if isinstance(n.value, ast.Constant)]
    rep.check(len(stores) >= 2 and not consts, "R11.2", mt.qualname,
              "every 'value' field of a dissected attribute is cut out of "
              "the tag token (no literal: an error about the statement is "
              "located at the attribute, not at offset 0)",
              construct="attr-value-positioned",
              where=L.where(mt, consts[0].lineno) if consts else L.where(mt),
              detail="; ".join(src(n) for n in consts))
    # every tag token is dissected itself: parse_tag reaches match_tag(token)
    # on every returning path (a table of previously seen, equal-looking tags
    # would hand out the attribute tokens -- and positions -- of the first)
    pt = repo.func("chameleon.parser.parse_tag")
    tok = pt.node.args.args[0].arg
    paths = [p for p in P.enum_paths(pt.node.body) if p[-1][0] == "return"]
    miss = [p for p in paths if not any(
        src(c.func) == "match_tag" and c.args and src(c.args[0]) == tok
        for c, _ in P.calls_on_path(p))]
    rep.check(bool(paths) and not miss, "R11.2", pt.qualname, "every path of "
              "parse_tag dissects the token it was given (match_tag(%s))"
              % tok, construct="tag-parsed-itself", where=L.where(pt),
              detail=P.path_text(miss[0], 10) if miss else "")


def _part_errors(repo, rep):
    """a malformed part of a ';'-separated clause is reported where it is
    found: the parser raises a LanguageError carrying *that part* (not None
    for the caller to report the whole clause)"""
    for q in ("chameleon.tal.parse_defines", "chameleon.tal.parse_attributes"):
        f = repo.func(q)
        loops = [n for n in ast.walk(f.node) if isinstance(n, ast.For)
                 and "split_parts(" in src(n.iter)]
        ok = False
        if loops:
            part = src(loops[0].target)
            raises = [r for r in ast.walk(loops[0]) if isinstance(r, ast.Raise)
                      and isinstance(r.exc, ast.Call) and len(r.exc.args) >= 2
                      and src(r.exc.args[1]) == part]
            rets = [r for r in ast.walk(loops[0]) if isinstance(r, ast.Return)]
            ok = bool(raises) and not rets
        rep.check(ok, "R11.2", f.qualname, "a malformed part raises inside "
                  "the loop over the parts, with the part as token (no early "
                  "return that leaves the reporting to the caller)",
                  construct="part-error:" + f.name, where=L.where(f))


def _group_helpers(repo, rep):
    """groups() / groupdict() re-slice the token by the match spans: every
    group that *took part* in the match (value is not None) must become a
    Token -- also when it matched the empty string: an empty statement
    argument is reported at its own position."""
    for q in ("chameleon.parser.groups", "chameleon.parser.groupdict"):
        f = repo.func(q)
        tests = [n.test for n in ast.walk(f.node)
                 if isinstance(n, (ast.If, ast.IfExp))]
        ok = bool(tests) and all(
            src(L._CanonIf._pos(t)[0]).replace(" ", "").endswith("isNone")
            for t in tests)
        rep.check(ok, "R11.1", f.qualname, "the helper tells a group that "
                  "did not take part (None) from one that matched -- by "
                  "identity with None, not by truthiness (an empty match "
                  "keeps its position)", construct="group-none-test",
                  where=L.where(f), detail=str([src(t) for t in tests]))


def _text_visits(repo, rep):
    """Text handed to MacroProgram.visit_text becomes Interpolation nodes
    whose ${...} expressions report errors at token positions: what is
    passed must still carry a position (not a str rebuilt by '...' + token,
    which is a plain str)."""
    mp = repo.cls("chameleon.zpt.program.MacroProgram")
    n = 0
    for name, m in sorted(mp.methods.items()):
        if not name.startswith("visit_"):
            continue
        for c in ast.walk(m.node):
            if isinstance(c, ast.Call) and src(c.func) == "self.visit_text" \
                    and c.args:
                n += 1
                chains = _chains(m.node, c.args[0], c.lineno + 1)
                plain = [[] if "call:Token" in ch else
                         [x for x in ch if x == "const" or
                          x.startswith("format:") or x == "call:str" or
                          (x.startswith("method:") and
                           x[7:] in PLAIN_METHODS)] for ch in chains]
                shown = " | ".join(" <- ".join(ch) for ch in chains[:3])
                rep.check(not all(plain), "R11.2", m.qualname, "the text "
                          "given to visit_text keeps its source position "
                          "(chains: %s)" % shown[:200],
                          construct="text-visit:" + name,
                          where=L.where(m, c.lineno),
                          detail="built as %s: a plain str, errors in its "
                                 "${...} are reported at offset 0" % src(
                                     c.args[0])[:60])
    rep.count("visit_text_calls", n)


def rebuilt_tokens(repo, rep, rule="R11.2"):
    """A Token assembled by hand from literal text around an existing token
    -- Token('<?' + name + ..., POS, ...) -- stands where the literal prefix
    starts: POS = name.pos - len(prefix)."""
    n = 0
    for q, f in sorted(repo.funcs.items()):
        if f.module.name == "chameleon.tokenize":
            continue
        for c in ast.walk(f.node):
            if not (isinstance(c, ast.Call) and src(c.func) == "Token"
                    and len(c.args) >= 2):
                continue
            t = c.args[0]
            if isinstance(t, ast.Name):
                # the nearest assignment in front of the call
                prev = [a for a in ast.walk(f.node) if isinstance(a, ast.Assign)
                        and a.lineno < c.lineno and len(a.targets) == 1
                        and src(a.targets[0]) == t.id]
                if prev:
                    t = max(prev, key=lambda a: a.lineno).value
            ops = []

            def flat(e):
                if isinstance(e, ast.BinOp) and isinstance(e.op, ast.Add):
                    flat(e.left)
                    flat(e.right)
                else:
                    ops.append(e)
            flat(t)
            k = 0
            base = None
            for o in ops:
                if isinstance(o, ast.Constant) and isinstance(o.value, str):
                    k += len(o.value)
                    continue
                base = o
                break
            if base is None or len(ops) < 2 or not isinstance(
                    base, (ast.Name, ast.Subscript, ast.Attribute)):
                continue
            pos = c.args[1]
            want = src(base) + ".pos"
            got = None
            if src(pos) == want:
                got = 0
            elif isinstance(pos, ast.BinOp) and src(pos.left) == want and \
                    isinstance(pos.right, ast.Constant) and \
                    isinstance(pos.right.value, int):
                got = pos.right.value if isinstance(pos.op, ast.Sub) else (
                    -pos.right.value if isinstance(pos.op, ast.Add) else None)
            if got is None:
                continue
            n += 1
            rep.check(got == k, rule, f.qualname, "a token rebuilt from %d "
                      "literal character(s) in front of %s starts %d "
                      "character(s) before it" % (k, src(base), k),
                      construct="rebuilt-token-pos:" + f.name,
                      where=L.where(f, c.lineno),
                      detail="position given: %s" % src(c.args[1]))
    rep.count("rebuilt_tokens", n)
    rep.check(n >= 1, rule, "chameleon.zpt.program.MacroProgram."
              "visit_processing_instruction", "the text of a processing "
              "instruction is re-assembled as a Token (with a position)",
              construct="rebuilt-token-present", detail="%d found" % n)


def _match_spans(repo, rep):
    """A token cut out with a match object's span must use the coordinate
    system the search ran in: m = R.search(S[k:]) -> S[k + m.start() : k +
    m.end()];  m = R.search(S) or R.search(S, k) -> S[m.start() : m.end()]."""
    n = 0
    for q, f in sorted(repo.funcs.items()):
        if f.module.name not in COMPILE_PATH:
            continue
        for sub in ast.walk(f.node):
            if not (isinstance(sub, ast.Subscript) and
                    isinstance(sub.slice, ast.Slice) and
                    isinstance(sub.value, ast.Name) and
                    sub.slice.lower is not None and
                    sub.slice.upper is not None):
                continue
            spans = [c for c in ast.walk(sub.slice)
                     if isinstance(c, ast.Call) and
                     isinstance(c.func, ast.Attribute) and
                     c.func.attr in ("start", "end") and not c.args and
                     isinstance(c.func.value, ast.Name)]
            if len(spans) != 2:
                continue
            mname = spans[0].func.value.id
            defs = [a for a in ast.walk(f.node) if isinstance(a, ast.Assign)
                    and any(isinstance(t, ast.Name) and t.id == mname
                            for t in a.targets) and a.lineno < sub.lineno and
                    isinstance(a.value, ast.Call) and
                    isinstance(a.value.func, ast.Attribute) and
                    a.value.func.attr in ("search", "match")]
            if not defs:
                continue
            d = defs[-1].value
            if not d.args:
                continue
            arg = d.args[0]
            S = sub.value.id
            shift = None
            if isinstance(arg, ast.Name) and arg.id == S:
                shift = "0"
            elif isinstance(arg, ast.Subscript) and isinstance(
                    arg.value, ast.Name) and arg.value.id == S and \
                    isinstance(arg.slice, ast.Slice) and \
                    arg.slice.upper is None and arg.slice.lower is not None:
                shift = src(arg.slice.lower)
            if shift is None:
                continue
            n += 1

            def norm(e):
                t = src(e).replace(" ", "")
                return t
            want_lo = ("%s.start()" % mname) if shift == "0" else \
                "%s+%s.start()" % (shift, mname)
            want_hi = ("%s.end()" % mname) if shift == "0" else \
                "%s+%s.end()" % (shift, mname)
            alt_lo = "%s.start()+%s" % (mname, shift)
            alt_hi = "%s.end()+%s" % (mname, shift)
            import re as _re
            up = _re.sub(r"-\d+$", "", norm(sub.slice.upper))  # shrinking
            ok = norm(sub.slice.lower) in (want_lo, alt_lo) and \
                up in (want_hi, alt_hi)
            rep.check(ok, "R11.1", f.qualname, "the slice %s uses the "
                      "coordinates of the string the search ran on (%s)"
                      % (src(sub), src(d)), construct="span-shift:" + mname,
                      where=L.where(f, sub.lineno),
                      detail="expected shift %s" % shift)
    rep.count("match_span_slices", n)
    if n < 1:
        raise AnalysisError("no match-span slice found (identify vanished?)")


TOKEN_TABLE_WRITERS = (
    # functions that write the (namespace, name) -> value attribute table;
    # validate_attributes / _check_attributes report the *name* stored here
    # as the token of a CompilationError / LanguageError
    "chameleon.parser.unpack_attributes",
    "chameleon.zpt.program.convert_data_attributes",
    "chameleon.zpt.program.MacroProgram.visit_element",
)


def _token_tables(repo, rep, split_ok):
    n = 0
    for q in TOKEN_TABLE_WRITERS:
        f = repo.func(q)
        for st in ast.walk(f.node):
            if not isinstance(st, ast.Assign):
                continue
            for t in st.targets:
                if not (isinstance(t, ast.Subscript) and
                        isinstance(t.slice, ast.Tuple) and
                        len(t.slice.elts) == 2):
                    continue
                n += 1
                name = t.slice.elts[1]
                chains = _chains(f.node, name, st.lineno + 1)
                plain = [[x for x in c if x.startswith("format:") or
                          x == "const" or x == "call:str" or
                          (x.startswith("method:") and
                           x[7:] in PLAIN_METHODS)] for c in chains]
                shown = " | ".join(" <- ".join(c) for c in chains[:3])
                rep.check(not all(plain), "R11.2", f.qualname,
                          "the attribute name stored in the (namespace, "
                          "name) table keeps its source position -- it is "
                          "the token of 'Bad attribute for namespace' and "
                          "of the statement errors (chains: %s)" % shown,
                          construct="table-name:" + src(t)[:40],
                          where=L.where(f, st.lineno),
                          detail="every definition passes %s: a plain str"
                                 % plain[:2])
    rep.count("token_table_stores", n)
    if n < 3:
        raise AnalysisError("token table writers vanished (%d stores)" % n)


INTERNAL_OK = {
    # function simple name -> reason the non-TemplateError raise is not
    # reachable from template text
    "_convert_text": "unsupported escape sets are built by the program "
                     "itself, not by template text",
    "visit_Interpolation": "node type invariant of the compiler",
    "visit_Module": "codegen invariant (importable symbols)",
    "translate": "abstract method",
    "next": "documented: RepeatItem.next is not implemented",
    "_letter": "run-time helper, not on the compile path",
    "__getattr__": "attribute protocol",
    "add": "regex self-check at import time",
}


def _census(repo, rep):
    classes = template_error_classes(repo)
    n = 0
    for q, f in sorted(repo.funcs.items()):
        if f.module.name not in COMPILE_PATH:
            continue
        # locals assigned from template-derived parsers
        derived = set()
        for a in ast.walk(f.node):
            if isinstance(a, ast.Assign):
                v = src(a.value)
                if any(k in v for k in ("parse_defines(", "parse_attributes(",
                                        "parse_substitution(", "split_parts(",
                                        "ns[", "ns.get(")):
                    for t in a.targets:
                        derived.update(_target_names(t))
        for r in ast.walk(f.node):
            if isinstance(r, ast.Raise) and isinstance(r.exc, ast.Call):
                cls = src(r.exc.func)
                if cls in classes:
                    continue
                n += 1
                ok = f.name in INTERNAL_OK or cls == "NotImplementedError"
                rep.check(ok, "R11.3", f.qualname,
                          "raise %s(...) on the compile path is not reachable "
                          "from template text%s" % (
                              cls, " (%s)" % INTERNAL_OK[f.name]
                              if f.name in INTERNAL_OK else ""),
                          construct="raises:" + cls, where=L.where(f,
                                                                   r.lineno),
                          detail=src(r.exc)[:100])
            elif isinstance(r, ast.Assert):
                names = {x.id for x in ast.walk(r.test)
                         if isinstance(x, ast.Name)}
                hit = names & derived
                n += 1
                rep.check(not hit, "R11.3", f.qualname,
                          "assert (line %d) does not test template-derived "
                          "data" % r.lineno,
                          construct="assert:" + src(r.test)[:50],
                          where=L.where(f, r.lineno),
                          detail="tests %s, which comes from the template; a "
                                 "failure is an AssertionError without "
                                 "location" % sorted(hit))
    rep.count("non_template_raises_and_asserts", n)


PARSE_EXEMPT = {
    "wrapper": "codegen.template: the source is a string constant of the "
               "compiler itself",
    "parse": "astutil.parse / PythonExpr.parse: infrastructure; callers "
             "guard it",
    "_create_static_attributes": "parses repr() of a dict of strings: valid "
                                 "by construction",
    "test": "doctest helper",
}


def _dynamic_python(repo, rep):
    """G-SIBLING: every site that parses template-supplied Python source
    converts SyntaxError into a TemplateError (PythonExpr.translate does)."""
    n = 0
    for q, f in sorted(repo.funcs.items()):
        if f.module.name not in COMPILE_PATH:
            continue
        for c in ast.walk(f.node):
            if not isinstance(c, ast.Call):
                continue
            fn = src(c.func)
            if fn not in ("template", "parse", "self.parse", "compile",
                          "ast.parse") or not c.args:
                continue
            if fn == "self.parse":
                m = repo.method(f.cls, "parse") if f.cls else None
                if m is None or not any(
                        isinstance(x, ast.Call) and src(x.func) in (
                            "parse", "compile", "ast.parse")
                        for x in ast.walk(m.node)):
                    continue        # not a Python parser
            a0 = c.args[0]
            try:
                repo.fold(a0, f.module)
                continue            # constant source
            except Exception:
                pass
            names = {x.id for x in ast.walk(a0) if isinstance(x, ast.Name)}
            attrs = {src(x) for x in ast.walk(a0)
                     if isinstance(x, ast.Attribute)}
            dynamic = bool({"string", "source", "expression"} & names) or \
                any(a.startswith("node.") for a in attrs)
            inner = f.name
            p = getattr(c, "_parent", None)
            while p is not None and p is not f.node:
                if isinstance(p, ast.FunctionDef):
                    inner = p.name
                p = getattr(p, "_parent", None)
            if not dynamic or inner in PARSE_EXEMPT or f.name in PARSE_EXEMPT:
                continue
            n += 1
            guarded = False
            p = getattr(c, "_parent", None)
            while p is not None and p is not f.node:
                if isinstance(p, ast.Try) and any(
                        h.type is not None and "SyntaxError" in src(h.type)
                        and any(isinstance(x, ast.Raise) for x in h.body)
                        for h in p.handlers) and any(
                        c in list(ast.walk(b)) for b in p.body):
                    guarded = True
                p = getattr(p, "_parent", None)
            rep.check(guarded, "R11.3", f.qualname,
                      "%s(...) parses Python source taken from the template: "
                      "a SyntaxError is caught and re-raised as a "
                      "TemplateError carrying the source token" % fn,
                      construct="unguarded-parse:" + fn,
                      where=L.where(f, c.lineno), detail=src(c)[:80])
    rep.check(n >= 2, "R11.3", "chameleon.*", "sites that parse "
              "template-supplied Python were found (expressions, code "
              "blocks)", construct="parse-sites", detail=str(n))


def _stamp(repo, rep):
    stores = L.token_field_stores(repo)
    rep.check(not stores, "R11.4", "chameleon", "only the Token class sets a "
              "token's pos / source: nothing re-sources an error's token "
              "after the compiler attached it", construct="token-resourced",
              where=(L.where(stores[0][0], stores[0][1]) if stores else ""),
              detail="; ".join("%s: %s" % (f.qualname, t)
                               for f, ln, t in stores[:3]))
    f = repo.func("chameleon.template.BaseTemplate._cook")
    ok = False
    for t in ast.walk(f.node):
        if isinstance(t, ast.Try):
            for h in t.handlers:
                if h.type is not None and src(h.type) == "TemplateError" \
                        and h.name:
                    body = [src(s) for s in h.body]
                    if any(s.startswith("%s.token.filename = " % h.name)
                           and "self.filename" in s for s in body) and \
                            isinstance(h.body[-1], ast.Raise) and \
                            h.body[-1].exc is None:
                        covered = L.text(t, body_only=True)
                        ok = "self._compile(" in covered
    rep.check(ok, "R11.4", f.qualname, "every TemplateError raised while "
              "compiling gets the template's file name and is re-raised "
              "unchanged", construct="stamp", where=L.where(f))
    te = repo.cls("chameleon.exc.TemplateError")
    off = te.methods.get("offset")
    rep.check(off is not None and "pos" in src(off.node), "R11.4",
              te.qualname, "exc.offset is the token's position",
              construct="offset", where=L.where(off) if off else "")
