"""C11 -- template errors surface as TemplateError with the exact source
location."""
from __future__ import annotations

import ast

from .. import lib as L
from .. import paths as P
from ..core import AnalysisError, src

TOK = "chameleon.tokenize.Token"

# modules whose functions run while a template is parsed / compiled
COMPILE_PATH = ("chameleon.parser", "chameleon.program",
                "chameleon.zpt.program", "chameleon.tal", "chameleon.i18n",
                "chameleon.metal", "chameleon.tales", "chameleon.compiler",
                "chameleon.codegen", "chameleon.astutil",
                "chameleon.tokenize")

# str methods that Token does not override: the result is a plain str and the
# position is lost (TemplateError then reports offset 0)
PLAIN_METHODS = {"lower", "upper", "title", "capitalize", "casefold",
                 "swapcase", "rsplit", "partition", "rpartition", "join",
                 "format", "center", "ljust", "rjust", "zfill", "expandtabs",
                 "translate", "encode", "splitlines", "removeprefix",
                 "removesuffix"}


def run(repo, rep, tier):
    rep.explanation = (
        "exc.token / exc.offset are produced by slice arithmetic on the str "
        "subclass Token, spread over tokenizer, tag parser and statement "
        "splitters.  Decided statically: (1) a position algebra for Token -- "
        "for every method that builds a Token the checker derives, from the "
        "method body, what the new 'pos' argument data-depends on and "
        "compares it with the method's contract (slice: receiver pos + "
        "start; lstrip: pos + removed length; rstrip/add/replace: pos; "
        "split: must depend on the separator or on a search in the "
        "receiver); (2) the provenance of the token argument at every "
        "'raise <TemplateError subclass>(msg, token)' site: its def-use chain "
        "inside the function must not pass a str method that Token does not "
        "override (position lost) nor a helper that shortens the text before "
        "splitting it (position drift); (3) a census of all raise/assert "
        "statements on the compile path: user-reachable failures must be "
        "TemplateError subclasses; (4) _cook stamps the file name.")
    rep.assumptions = [
        "Token.location (line/column from offset) is value-level arithmetic "
        "and not decided; nor that a valid template is never rejected",
        "function parameters named token/clause are tokens produced by the "
        "tokenizer or by position-faithful steps (interprocedural chains are "
        "followed one level only)",
    ]
    rep.rule("R11.1", "Token position algebra: the pos of every derived "
                      "Token depends on what its contract says")
    rep.rule("R11.2", "provenance at raise sites: no plain-str step, no "
                      "drift step between tokenizer output and the token "
                      "handed to a TemplateError")
    rep.rule("R11.3", "G-RAISE: user-reachable failures on the compile path "
                      "raise TemplateError subclasses; no assert on "
                      "template-derived data")
    rep.rule("R11.4", "every TemplateError leaving _cook carries the "
                      "template's file name; TemplateError coerces its token")
    rep.rule("R11.5", "necessary conditions of 'a valid template is never "
                      "rejected': statement regexes accept multi-line "
                      "expressions; index lookups on compile-time stacks "
                      "are guarded")
    _accepts(repo, rep)
    split_ok = _algebra(repo, rep)
    _helpers(repo, rep)
    _raise_sites(repo, rep, split_ok)
    _census(repo, rep)
    _dynamic_python(repo, rep)
    _stamp(repo, rep)


# ---------------------------------------------------------------------------


def deps(fnode, expr, opaque_calls=()):
    """Names (dotted, e.g. self.pos / index.start / sep) the value of
    ``expr`` data-depends on inside ``fnode`` (flow-insensitive fixpoint over
    assignments, augmented assignments and for-targets)."""
    defs = {}
    for n in ast.walk(fnode):
        if isinstance(n, ast.Assign):
            for t in n.targets:
                for nm in _target_names(t):
                    defs.setdefault(nm, []).append(n.value)
        elif isinstance(n, ast.AugAssign):
            for nm in _target_names(n.target):
                defs.setdefault(nm, []).append(n.value)
        elif isinstance(n, ast.For):
            for nm in _target_names(n.target):
                defs.setdefault(nm, []).append(n.iter)
    out = set()
    calls = set()
    todo = [expr]
    seen = set()
    def walk_cut(e):
        # ast.walk that does not descend into opaque calls
        stack = [e]
        while stack:
            n = stack.pop()
            if isinstance(n, ast.Call) and src(n.func) in opaque_calls:
                calls.add(src(n.func))
                continue
            yield n
            stack.extend(ast.iter_child_nodes(n))

    while todo:
        e = todo.pop()
        for n in walk_cut(e):
            if isinstance(n, ast.Attribute):
                d = _dotted(n)
                if d:
                    out.add(d)
            elif isinstance(n, ast.Name):
                out.add(n.id)
                if n.id in defs and n.id not in seen:
                    seen.add(n.id)
                    todo.extend(defs[n.id])
            elif isinstance(n, ast.Call):
                calls.add(src(n.func))
    return out, calls


def _dotted(n):
    parts = []
    while isinstance(n, ast.Attribute):
        parts.append(n.attr)
        n = n.value
    if isinstance(n, ast.Name):
        parts.append(n.id)
        return ".".join(reversed(parts))
    return None


def _target_names(t):
    if isinstance(t, ast.Name):
        return [t.id]
    if isinstance(t, (ast.Tuple, ast.List)):
        out = []
        for e in t.elts:
            out += _target_names(e)
        return out
    if isinstance(t, ast.Subscript) and isinstance(t.value, ast.Name):
        return [t.value.id]
    return []


def _algebra(repo, rep):
    ci = repo.cls(TOK)
    n = 0
    split_ok = False
    for name, m in sorted(ci.methods.items()):
        ctor = [c for c in ast.walk(m.node) if isinstance(c, ast.Call)
                and src(c.func) == "Token" and len(c.args) >= 2]
        site = m.qualname
        wh = L.where(m)
        if name == "strip":
            text = src(m.node.body[-1])
            ok = "lstrip" in text and "rstrip" in text
            rep.check(ok, "R11.1", site, "strip = lstrip then rstrip (both "
                      "position-faithful)", construct="strip", where=wh,
                      detail=text)
            continue
        if not ctor or name == "__new__":
            continue
        for c in ctor:
            n += 1
            posarg = c.args[1]
            # the parts themselves depend on the separator; the position
            # must depend on it by another route
            d, calls = deps(m.node, posarg,
                            opaque_calls=("str.split",) if name == "split"
                            else ())
            keeps = len(c.args) >= 4 and src(c.args[2]) == "self.source" \
                and src(c.args[3]) == "self.filename"
            rep.check(keeps, "R11.1", site, "%s keeps source and filename of "
                      "the receiver" % name, construct="keeps:" + name,
                      where=wh)
            if name == "__getitem__":
                ok = "self.pos" in d and "index.start" in d
                what = "slice: pos = receiver pos + slice start"
            elif name == "lstrip":
                ok = "self.pos" in d and "self" in d and "s" in d and \
                    "len" in calls
                what = "lstrip: pos advances by the number of characters " \
                       "removed (len(self) - len(result))"
            elif name in ("rstrip", "__add__", "replace"):
                ok = src(posarg) == "self.pos"
                what = "%s: position of the receiver is kept" % name
            elif name == "split":
                searches = [n for n in ast.walk(m.node)
                            if isinstance(n, ast.Call) and src(n.func) in (
                                "str.find", "self.find", "str.index",
                                "self.index")]

                def guarded_by_none(n):
                    p = getattr(n, "_parent", None)
                    while p is not None and p is not m.node:
                        if isinstance(p, ast.If) and "sep is None" in src(
                                p.test):
                            return True
                        p = getattr(p, "_parent", None)
                    return False
                ok = "self.pos" in d and ("sep" in d or any(
                    not guarded_by_none(n) for n in searches))
                what = ("split: the position of each part depends on the "
                        "separator (or on a search in the receiver), not only "
                        "on the lengths of the previous parts")
                split_ok = ok
            else:
                ok = "self.pos" in d
                what = "%s: derived position depends on the receiver's" % name
            rep.check(ok, "R11.1", site, what, construct="pos:" + name,
                      where=wh, detail="pos argument %s depends on %s" % (
                          src(posarg), sorted(x for x in d
                                              if x not in ("self",))))
    rep.require_min("R11.1", 8, "Token methods building derived tokens")
    # the slice start of __getitem__: negative starts are not position
    # faithful -> callers on error paths must not use them (checked in R11.2)
    return split_ok


def _accepts(repo, rep):
    from .. import rx
    for name in ("DEFINE_RE", "SUBST_RE", "ATTR_RE"):
        rc = repo.const("chameleon.tal", name)
        site = "chameleon.tal." + name
        if not hasattr(rc, "pattern"):
            raise AnalysisError("%s is not a compiled regex" % site)
        tree = rx.parse(rc.pattern, rc.flags)
        flags = tree.state.flags | rc.flags
        data = list(tree)
        tail_any = False
        # the expression group: '(.*)' right before \Z
        if len(data) >= 2 and data[-1][0] is rx.C.AT and \
                data[-2][0] is rx.C.SUBPATTERN:
            body = list(data[-2][1][3])
            tail_any = any(op in (rx.C.MAX_REPEAT, rx.C.MIN_REPEAT) and
                           len(av[2]) == 1 and av[2][0][0] is rx.C.ANY
                           for op, av in body)
        rep.check(tail_any, "R11.5", site, "the statement pattern ends with "
                  "the expression group '(.*)' anchored at the end",
                  construct="expr-group:" + name, detail=rc.pattern[-30:])
        rep.check(bool(flags & 16), "R11.5", site,
                  "'.' in the expression group matches line breaks (DOTALL): "
                  "an expression continued on the next line is not rejected",
                  construct="dotall:" + name,
                  detail="flags=%d pattern=%s" % (flags, rc.pattern[:40]))
    # compile-time stack lookups with a computed index are guarded
    ve = repo.func("chameleon.zpt.program.MacroProgram.visit_element")
    n = 0
    for sub in ast.walk(ve.node):
        if isinstance(sub, ast.Subscript) and isinstance(sub.ctx, ast.Load) \
                and src(sub.value).startswith("self._") and \
                isinstance(sub.slice, ast.Name):
            n += 1
            guarded = False
            p = getattr(sub, "_parent", None)
            while p is not None and p is not ve.node:
                if isinstance(p, ast.Try) and any(
                        h.type is not None and
                        src(h.type) in ("IndexError", "LookupError",
                                        "(IndexError, KeyError)")
                        for h in p.handlers) and any(
                        sub in list(ast.walk(b)) for b in p.body):
                    guarded = True
                p = getattr(p, "_parent", None)
            later_same = [x for x in ast.walk(ve.node)
                          if isinstance(x, ast.Subscript) and x is not sub
                          and src(x) == src(sub) and x.lineno < sub.lineno]
            rep.check(guarded or bool(later_same), "R11.5", ve.qualname,
                      "%s (index computed from the element's statements) is "
                      "looked up under 'except IndexError' so that a missing "
                      "entry becomes a LanguageError, not a bare IndexError"
                      % src(sub), construct="unguarded-index:" + src(sub),
                      where=L.where(ve, sub.lineno))
    rep.check(n >= 1, "R11.5", ve.qualname, "computed stack lookups were "
              "found", construct="index-lookups", detail=str(n))


def _helpers(repo, rep):
    """Position-preserving helpers of parser.py"""
    for name in ("groups", "groupdict"):
        f = repo.func("chameleon.parser." + name)
        text = L.text(f.node)
        spans = [n for n in ast.walk(f.node) if isinstance(n, ast.Call)
                 and src(n.func) == "m.span"]
        slices = [n for n in ast.walk(f.node) if isinstance(n, ast.Subscript)
                  and src(n.value) == "token" and isinstance(n.slice,
                                                             ast.Slice)]
        ok = len(spans) == 1 and len(slices) == 1
        if ok:
            st = None
            for a in ast.walk(f.node):
                if isinstance(a, ast.Assign) and a.value is spans[0]:
                    st = [src(e) for e in a.targets[0].elts]
            sl = slices[0].slice
            ok = st is not None and [src(sl.lower), src(sl.upper)] == st
        rep.check(ok, "R11.2", f.qualname, "%s re-slices each matched group "
                  "from the token by the group's span (position kept)" % name,
                  construct="span-slice:" + name, where=L.where(f))
    f = repo.func("chameleon.parser.substitute")
    text = L.text(f.node)
    rep.check("token.pos" in text and "token.source" in text, "R11.2",
              f.qualname, "substitute keeps the token's position and source",
              construct="substitute", where=L.where(f))
    f = repo.func("chameleon.exc.TemplateError.__init__")
    text = L.text(f.node)
    rep.check("if not isinstance(token, Token): token = Token(token, 0)"
              in text, "R11.4", f.qualname, "a plain str is coerced to a "
              "Token at offset 0 (so a lost position shows as offset 0)",
              construct="coerce", where=L.where(f))


def _shrinking_helpers(repo):
    """Functions that apply a non-length-preserving replace to a value and
    split / slice it afterwards: positions of later parts drift."""
    out = {}
    for q, f in repo.funcs.items():
        if f.module.name not in COMPILE_PATH:
            continue
        repl = []
        for n in ast.walk(f.node):
            if isinstance(n, ast.Assign) and isinstance(n.value, ast.Call) \
                    and isinstance(n.value.func, ast.Attribute) and \
                    n.value.func.attr == "replace" and \
                    len(n.value.args) >= 2 and all(
                        isinstance(a, ast.Constant) and
                        isinstance(a.value, str) for a in n.value.args[:2]):
                a, b = n.value.args[0].value, n.value.args[1].value
                var = src(n.targets[0])
                if len(a) != len(b) and src(n.value.func.value) == var:
                    repl.append((n.lineno, var, a, b))
        for lineno, var, a, b in repl:
            for n in ast.walk(f.node):
                if isinstance(n, ast.Call) and \
                        isinstance(n.func, ast.Attribute) and \
                        n.func.attr == "split" and \
                        src(n.func.value) == var and n.lineno > lineno:
                    out[f.name] = (f, lineno, var, a, b)
    return out


def _chains(fnode, expr, upto_line, limit=8):
    """All intra-function def-use chains of ``expr`` (one per reaching
    definition, flow-insensitive: every assignment textually before the
    use).  -> list of chains; a chain is a list of step strings."""
    out = []

    def go(e, line, steps, depth):
        if len(out) >= limit or depth > 14:
            out.append(steps + ["..."])
            return
        if isinstance(e, ast.Call) and isinstance(e.func, ast.Attribute):
            return go(e.func.value, line, steps + ["method:" + e.func.attr],
                      depth + 1)
        if isinstance(e, ast.Call) and isinstance(e.func, ast.Name):
            st = steps + ["call:" + e.func.id]
            if e.args:
                nxt = e.args[-1] if e.func.id in ("groups", "groupdict") \
                    else e.args[0]
                return go(nxt, line, st, depth + 1)
            out.append(st)
            return
        if isinstance(e, ast.Subscript):
            if isinstance(e.slice, ast.Slice):
                lo = e.slice.lower
                neg = isinstance(lo, ast.UnaryOp) and isinstance(lo.op,
                                                                 ast.USub)
                return go(e.value, line, steps + [
                    "slice-neg" if neg else "slice"], depth + 1)
            return go(e.value, line, steps + ["item"], depth + 1)
        if isinstance(e, ast.BinOp) and isinstance(e.op, ast.Mod):
            out.append(steps + ["format:%"])
            return
        if isinstance(e, ast.BinOp) and isinstance(e.op, ast.Add):
            return go(e.left, line, steps + ["concat"], depth + 1)
        if isinstance(e, ast.JoinedStr):
            out.append(steps + ["format:f-string"])
            return
        if isinstance(e, ast.Constant):
            out.append(steps + ["const"])
            return
        if isinstance(e, ast.Attribute):
            return go(e.value, line, steps + ["attr:" + e.attr], depth + 1)
        if isinstance(e, ast.IfExp):
            go(e.body, line, steps, depth + 1)
            go(e.orelse, line, steps, depth + 1)
            return
        if isinstance(e, ast.Name):
            found = []
            for n in ast.walk(fnode):
                ln = getattr(n, "lineno", None)
                if isinstance(n, ast.Assign) and ln is not None and \
                        ln < line:
                    for t in n.targets:
                        if e.id in _target_names(t):
                            found.append((ln, n.value, "assign"))
                elif isinstance(n, ast.For) and n.lineno <= line:
                    if e.id in _target_names(n.target):
                        found.append((n.lineno, n.iter, "elem"))
                elif isinstance(n, ast.comprehension):
                    if e.id in _target_names(n.target) and \
                            n.iter.lineno <= line:
                        found.append((n.iter.lineno, n.iter, "elem"))
            if not found:
                out.append(steps + ["root:" + e.id])
                return
            for ln, val, kind in found:
                if val is e:
                    continue
                go(val, ln, steps + (["elem"] if kind == "elem" else []),
                   depth + 1)
            return
        out.append(steps + ["expr:" + type(e).__name__])
    go(expr, upto_line, [], 0)
    return out or [["?"]]


def template_error_classes(repo):
    base = repo.cls("chameleon.exc.TemplateError")
    return {base.name} | {c.name for c in repo.subclasses(base)}


def _raise_sites(repo, rep, split_ok):
    classes = template_error_classes(repo)
    shrink = _shrinking_helpers(repo)
    for name, (f, lineno, var, a, b) in shrink.items():
        rep.bad("R11.2", f.qualname,
                "no helper on the token path shortens the text before "
                "splitting it", construct="drift:" + name,
                detail="%s = %s.replace(%r, %r) (line %d) changes the length, "
                       "the following split() reports every later part "
                       "shifted" % (var, var, a, b, lineno),
                where=L.where(f, lineno))
    if not shrink:
        rep.ok("R11.2", "chameleon.tal", "no helper shortens a token before "
                                         "splitting it")
    n = 0
    for q, f in sorted(repo.funcs.items()):
        if f.module.name not in COMPILE_PATH:
            continue
        for r in ast.walk(f.node):
            if not (isinstance(r, ast.Raise) and isinstance(r.exc, ast.Call)
                    and src(r.exc.func) in classes):
                continue
            n += 1
            args = r.exc.args
            site = f.qualname
            wh = L.where(f, r.lineno)
            if len(args) < 2:
                rep.bad("R11.2", site, "a TemplateError is raised with a "
                        "token", "no-token:%s" % src(r.exc.func),
                        src(r.exc)[:80], wh)
                continue
            tok = args[1]
            chains = _chains(f.node, tok, r.lineno)

            def is_plain(st):
                return [x for x in st if x.startswith("format:") or
                        x == "const" or (x.startswith("method:") and
                                         x[7:] in PLAIN_METHODS) or
                        x == "call:str"]

            def is_drift(st):
                return [x for x in st if x == "slice-neg" or
                        (x.startswith("call:") and x[5:] in shrink) or
                        (x == "method:split" and not split_ok)]
            # position lost: only if *every* reaching definition loses it
            # (flow-insensitive chains may include infeasible definitions)
            plain = [is_plain(st) for st in chains]
            all_plain = all(plain)
            drift = [d for d in (is_drift(st) for st in chains) if d]
            key = "%s(%s)" % (src(r.exc.func), src(tok)[:40])
            shown = " | ".join(" <- ".join(st) for st in chains[:3])
            rep.check(not all_plain, "R11.2", site,
                      "the token of %s keeps a source position (chains: %s)"
                      % (key, shown),
                      construct="plain:" + key, where=wh,
                      detail="every definition passes %s: a plain str, the "
                             "error is reported at offset 0" % plain[:2])
            rep.check(not drift, "R11.2", site,
                      "the token of %s is derived by position-faithful steps "
                      "only (chains: %s)" % (key, shown),
                      construct="drift-at:" + key, where=wh,
                      detail="step(s) %s are not position faithful" % drift[:2])
    rep.count("template_error_raise_sites", n)
    rep.require_min("R11.2", 40, "TemplateError raise sites (two obligations "
                                 "each) on the compile path")


INTERNAL_OK = {
    # function simple name -> reason the non-TemplateError raise is not
    # reachable from template text
    "_convert_text": "unsupported escape sets are built by the program "
                     "itself, not by template text",
    "visit_Interpolation": "node type invariant of the compiler",
    "visit_Module": "codegen invariant (importable symbols)",
    "translate": "abstract method",
    "next": "documented: RepeatItem.next is not implemented",
    "_letter": "run-time helper, not on the compile path",
    "__getattr__": "attribute protocol",
    "add": "regex self-check at import time",
}


def _census(repo, rep):
    classes = template_error_classes(repo)
    n = 0
    for q, f in sorted(repo.funcs.items()):
        if f.module.name not in COMPILE_PATH:
            continue
        # locals assigned from template-derived parsers
        derived = set()
        for a in ast.walk(f.node):
            if isinstance(a, ast.Assign):
                v = src(a.value)
                if any(k in v for k in ("parse_defines(", "parse_attributes(",
                                        "parse_substitution(", "split_parts(",
                                        "ns[", "ns.get(")):
                    for t in a.targets:
                        derived.update(_target_names(t))
        for r in ast.walk(f.node):
            if isinstance(r, ast.Raise) and isinstance(r.exc, ast.Call):
                cls = src(r.exc.func)
                if cls in classes:
                    continue
                n += 1
                ok = f.name in INTERNAL_OK or cls == "NotImplementedError"
                rep.check(ok, "R11.3", f.qualname,
                          "raise %s(...) on the compile path is not reachable "
                          "from template text%s" % (
                              cls, " (%s)" % INTERNAL_OK[f.name]
                              if f.name in INTERNAL_OK else ""),
                          construct="raises:" + cls, where=L.where(f,
                                                                   r.lineno),
                          detail=src(r.exc)[:100])
            elif isinstance(r, ast.Assert):
                names = {x.id for x in ast.walk(r.test)
                         if isinstance(x, ast.Name)}
                hit = names & derived
                n += 1
                rep.check(not hit, "R11.3", f.qualname,
                          "assert (line %d) does not test template-derived "
                          "data" % r.lineno,
                          construct="assert:" + src(r.test)[:50],
                          where=L.where(f, r.lineno),
                          detail="tests %s, which comes from the template; a "
                                 "failure is an AssertionError without "
                                 "location" % sorted(hit))
    rep.count("non_template_raises_and_asserts", n)


PARSE_EXEMPT = {
    "wrapper": "codegen.template: the source is a string constant of the "
               "compiler itself",
    "parse": "astutil.parse / PythonExpr.parse: infrastructure; callers "
             "guard it",
    "_create_static_attributes": "parses repr() of a dict of strings: valid "
                                 "by construction",
    "test": "doctest helper",
}


def _dynamic_python(repo, rep):
    """G-SIBLING: every site that parses template-supplied Python source
    converts SyntaxError into a TemplateError (PythonExpr.translate does)."""
    n = 0
    for q, f in sorted(repo.funcs.items()):
        if f.module.name not in COMPILE_PATH:
            continue
        for c in ast.walk(f.node):
            if not isinstance(c, ast.Call):
                continue
            fn = src(c.func)
            if fn not in ("template", "parse", "self.parse", "compile",
                          "ast.parse") or not c.args:
                continue
            if fn == "self.parse":
                m = repo.method(f.cls, "parse") if f.cls else None
                if m is None or not any(
                        isinstance(x, ast.Call) and src(x.func) in (
                            "parse", "compile", "ast.parse")
                        for x in ast.walk(m.node)):
                    continue        # not a Python parser
            a0 = c.args[0]
            try:
                repo.fold(a0, f.module)
                continue            # constant source
            except Exception:
                pass
            names = {x.id for x in ast.walk(a0) if isinstance(x, ast.Name)}
            attrs = {src(x) for x in ast.walk(a0)
                     if isinstance(x, ast.Attribute)}
            dynamic = bool({"string", "source", "expression"} & names) or \
                any(a.startswith("node.") for a in attrs)
            inner = f.name
            p = getattr(c, "_parent", None)
            while p is not None and p is not f.node:
                if isinstance(p, ast.FunctionDef):
                    inner = p.name
                p = getattr(p, "_parent", None)
            if not dynamic or inner in PARSE_EXEMPT or f.name in PARSE_EXEMPT:
                continue
            n += 1
            guarded = False
            p = getattr(c, "_parent", None)
            while p is not None and p is not f.node:
                if isinstance(p, ast.Try) and any(
                        h.type is not None and "SyntaxError" in src(h.type)
                        and any(isinstance(x, ast.Raise) for x in h.body)
                        for h in p.handlers) and any(
                        c in list(ast.walk(b)) for b in p.body):
                    guarded = True
                p = getattr(p, "_parent", None)
            rep.check(guarded, "R11.3", f.qualname,
                      "%s(...) parses Python source taken from the template: "
                      "a SyntaxError is caught and re-raised as a "
                      "TemplateError carrying the source token" % fn,
                      construct="unguarded-parse:" + fn,
                      where=L.where(f, c.lineno), detail=src(c)[:80])
    rep.check(n >= 2, "R11.3", "chameleon.*", "sites that parse "
              "template-supplied Python were found (expressions, code "
              "blocks)", construct="parse-sites", detail=str(n))


def _stamp(repo, rep):
    f = repo.func("chameleon.template.BaseTemplate._cook")
    ok = False
    for t in ast.walk(f.node):
        if isinstance(t, ast.Try):
            for h in t.handlers:
                if h.type is not None and src(h.type) == "TemplateError" \
                        and h.name:
                    body = [src(s) for s in h.body]
                    if any(s.startswith("%s.token.filename = " % h.name)
                           and "self.filename" in s for s in body) and \
                            isinstance(h.body[-1], ast.Raise) and \
                            h.body[-1].exc is None:
                        covered = L.text(t, body_only=True)
                        ok = "self._compile(" in covered
    rep.check(ok, "R11.4", f.qualname, "every TemplateError raised while "
              "compiling gets the template's file name and is re-raised "
              "unchanged", construct="stamp", where=L.where(f))
    te = repo.cls("chameleon.exc.TemplateError")
    off = te.methods.get("offset")
    rep.check(off is not None and "pos" in src(off.node), "R11.4",
              te.qualname, "exc.offset is the token's position",
              construct="offset", where=L.where(off) if off else "")
