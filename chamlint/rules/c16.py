"""C16 -- file templates follow their files; the loader resolves names
predictably."""
from __future__ import annotations

import ast

from .. import lib as L
from .. import paths as P
from ..core import AnalysisError, src

BT = "chameleon.template.BaseTemplate."
BF = "chameleon.template.BaseTemplateFile."
LD = "chameleon.loader.TemplateLoader."
ZT = "chameleon.zpt.template."


def run(repo, rep, tier):
    rep.explanation = (
        "What a file template serves after its file changed is decided by "
        "(1) a must-pass-through property: every public entry that uses "
        "compiled state (render, include, macro lookup, macro names) calls "
        "cook_check() first, on every path; (2) cook_check compares the "
        "file's modification time with the one last compiled and recompiles "
        "from a fresh read, which also refreshes content type and encoding; "
        "(3) cook() retires compiled entry points that the new version no "
        "longer defines (otherwise a removed macro lives on).  Name "
        "resolution of the loader is decided on the paths of "
        "TemplateLoader.load: the first existing candidate along the search "
        "path wins (break), otherwise ValueError; the default extension is "
        "added only to names without a dot; absolute names skip the walk; "
        "results are memoised by call arguments; a file template puts its "
        "own directory first on the search path of its load: expression.")
    rep.assumptions = [
        "os.path.getmtime / exists semantics; histories longer than one "
        "reload are covered only through the stale-state rule",
    ]
    rep.rule("R16.1", "cook_check precedes every use of compiled state and "
                      "recompiles when the modification time changed")
    rep.rule("R16.2", "cook publishes the new entry points and retires the "
                      "stale ones before flagging the template as compiled")
    rep.rule("R16.3", "loader: first match along the search path, default "
                      "extension only without a dot, absolute paths direct, "
                      "memoised, relative directory first")
    _cook_check(repo, rep)
    # 'content type ... from that version and nothing from earlier ones':
    # read() sniffs afresh and does not consult what an earlier read stored
    # on the template (C17 owns the sniffing rules)
    from . import c17
    L.borrow(repo, rep, "R16.1", "C17", c17._mode,
             ("read-history-free", "read-always-sniffs"), minimum=2)
    _retire(repo, rep)
    _loader(repo, rep)
    # "returns the same template object for the same name": the registry key
    # does not depend on the order the keywords were written in (C14 owns
    # the key)
    from . import c14 as _c14
    L.borrow(repo, rep, "R16.3", "C14", _c14._publish, ("registry-key",))
    L.state_rule(repo, rep)


def cook_check_never_returns_uncooked(repo):
    f = repo.func(BF + "cook_check")
    for p in P.enum_paths(f.node.body):
        if p[-1][0] not in ("return", "end"):
            continue
        calls = [src(c) for c, _ in P.calls_on_path(p)]
        cooked = any(c.startswith("self.cook(") for c in calls)
        conds = [(src(e[1]), e[2]) for e in p if e[0] == "cond"]
        flag_up = L.cond_holds(conds, "self._cooked is False", False) or \
            L.cond_holds(conds, "self._cooked", True) or \
            L.cond_holds(conds, "not self._cooked", False)
        if not (cooked or flag_up):
            return False, "path: " + P.path_text(p, 10)
    return True, ""


def flag_down_before_stamp(repo):
    """The new modification time is remembered only after the compiled flag
    was lowered: a thread that reads both between the two stores must not
    find "unchanged and compiled" for a file that did change."""
    f = repo.func(BF + "cook_check")
    n = 0
    for p in P.enum_paths(f.node.body):
        down = False
        for ev in p:
            if ev[0] != "assign":
                continue
            if ev[1] == "self._cooked" and src(ev[2]) == "False":
                down = True
            elif ev[1] == "self._v_last_read":
                n += 1
                if not down:
                    return False, n, "path: " + P.path_text(p, 10)
    return n >= 1, n, "" if n else "no store to self._v_last_read found"


def fresh_search_path(repo):
    """The list that gets the template's directory prepended must be the
    template's own (a copy), never the caller's / the loader's list."""
    pf = repo.func(ZT + "PageTemplateFile.__init__")
    stop = None
    for i_, st in enumerate(pf.node.body):
        if isinstance(st, ast.FunctionDef):
            stop = i_
            break
    if stop is None:
        return False, "post_init closure not found"
    paths = P.enum_paths(pf.node.body[:stop])
    ok = bool(paths)
    detail = ""
    for p_ in paths:
        last = None
        for ev in p_:
            if ev[0] == "assign" and ev[1] == "search_path":
                last = ev[2]
        good = last is not None and (
            isinstance(last, ast.List) or
            (isinstance(last, ast.Call) and src(last.func) == "list"))
        if not good:
            ok = False
            detail = "on path [%s] search_path is still the caller's " \
                     "object" % P.path_text(p_, 8)
    return ok, detail


def _first_stmt_calls(f, text):
    for st in f.node.body:
        if isinstance(st, ast.Expr) and isinstance(st.value, ast.Constant):
            continue   # docstring
        return text in src(st), src(st)
    return False, ""


def _mtime_rule(repo, rep):
    """a change of the file is noticed whatever way the template was found:
    every exit of mtime() that follows a successful look at the file returns
    a time read from it (stat / archive entry / getmtime); the only constant
    is the stand-in for a file that cannot be looked at"""
    f = repo.func("chameleon.template.BaseTemplateFile.mtime")
    rets = [r_ for r_ in ast.walk(f.node) if isinstance(r_, ast.Return)]
    bad = []
    for r_ in rets:
        in_handler = False
        a = getattr(r_, "_parent", None)
        while a is not None and a is not f.node:
            if isinstance(a, ast.ExceptHandler):
                in_handler = True
            a = getattr(a, "_parent", None)
        v = r_.value
        const = v is None or isinstance(v, ast.Constant)
        if const and not in_handler:
            bad.append(r_)
    rep.check(len(rets) >= 3 and not bad, "R16.1", f.qualname, "mtime() "
              "returns a time read from the file on every exit but the one "
              "for a file that cannot be looked at (%d exits)" % len(rets),
              construct="mtime-from-file", where=L.where(
                  f, bad[0].lineno if bad else None),
              detail="; ".join(src(r_) for r_ in bad))


def _file_identity(repo, rep):
    """the file a template stands for is fixed when it is constructed (a
    plain name is made absolute then, unless it is relative to a package),
    and its modification time is that of THIS file: what is stat'ed / looked
    up in the archive is the path joined with the file name"""
    bi = repo.func("chameleon.template.BaseTemplateFile.__init__")
    absd = [n for n in ast.walk(bi.node) if isinstance(n, ast.Call)
            and src(n.func) == "os.path.abspath"]
    okb = bool(absd)
    for c in absd:
        gs = [src(L._CanonIf._pos(t_)[0]) if isinstance(t_, ast.expr) else ""
              for t_, v_ in L.guards_of(c, bi.node)]
        if not any(g.replace(" ", "") in ("package_nameisNone",
                                           "package_nameisnotNone")
                   for g in gs):
            okb = False
    rep.check(okb, "R16.1", bi.qualname, "a file name is made absolute "
              "exactly when no package is given",
              construct="filename-absolute-unless-package",
              where=L.where(bi))
    mt = repo.func("chameleon.template.BaseTemplateFile.mtime")
    joined = {src(a.targets[0]) for a in ast.walk(mt.node)
              if isinstance(a, ast.Assign) and isinstance(a.value, ast.Call)
              and isinstance(a.value.func, ast.Attribute)
              and a.value.func.attr == "joinpath"}
    uses = [x for x in ast.walk(mt.node) if isinstance(x, ast.Attribute)
            and x.attr in ("stat", "at")]
    rep.check(bool(joined) and bool(uses) and all(
        src(x.value) in joined for x in uses), "R16.1", mt.qualname,
        "the modification time of a package-relative template is that of "
        "the file itself (the joined path), not of the package directory",
        construct="mtime-of-joined-path", where=L.where(mt),
        detail="; ".join(src(x) for x in uses))


def _cook_check(repo, rep):
    _mtime_rule(repo, rep)
    _file_identity(repo, rep)
    # must-pass-through
    for q in (BT + "render", ZT + "PageTemplate.include",
              ZT + "Macros.__getitem__", ZT + "Macros.names"):
        f = repo.func(q)
        paths = P.enum_paths(f.node.body)
        ok = True
        used = 0
        for p in paths:
            seen = False
            for call, i in P.calls_on_path(p):
                t = src(call)
                if t.endswith("cook_check()"):
                    seen = True
                elif "_render" in t or "__dict__" in t:
                    used += 1
                    if not seen:
                        ok = False
            for ev in p:
                if ev[0] == "assign" and "__dict__" in src(ev[2]) and \
                        not seen:
                    ok = False
        # iteration over __dict__ in a for header is an 'assign' of <next>
        rep.check(ok and used >= 1, "R16.1", f.qualname,
                  "cook_check() is called before compiled state is used, on "
                  "every path", construct="cook-check-first", where=L.where(f),
                  detail="%d use(s)" % used)
    f = repo.func(BF + "cook_check")
    site = f.qualname
    wh = L.where(f)
    paths = P.enum_paths(f.node.body)
    rep.count("paths", len(paths))
    # auto_reload on & mtime changed  => recompile from a fresh read
    ok_reload = ok_skip = False
    for p in paths:
        conds = {src(e[1]): e[2] for e in p if e[0] == "cond"}
        cl = list(conds.items())
        calls = [src(c) for c, _ in P.calls_on_path(p)]
        assigns = [(e[1], src(e[2])) for e in p if e[0] == "assign"]
        if L.cond_holds(cl, "self.auto_reload", True) and \
                L.cond_holds(cl, "mtime != self._v_last_read", True):
            if ("self._cooked", "False") in assigns and \
                    ("self._v_last_read", "mtime") in assigns:
                ok_reload = True
        if L.cond_holds(cl, "self._cooked is False", False):
            if "self.cook(body)" not in calls and "self.read()" not in calls:
                ok_skip = True
    rep.check(ok_reload, "R16.1", site, "with auto_reload a changed "
              "modification time marks the template as not compiled and "
              "remembers the new time", construct="mtime-compare", where=wh)
    rep.check(ok_skip, "R16.1", site, "an unchanged, compiled template is "
              "neither read nor compiled again", construct="no-recompile",
              where=wh)
    t = L.text(f.node)
    rep.check("body = self.read()" in t and "self.cook(body)" in t and
              t.index("body = self.read()") < t.index("self.cook(body)"),
              "R16.1", site, "recompilation uses a fresh read of the file",
              construct="fresh-read", where=wh)
    order = [n.lineno for n in ast.walk(f.node) if isinstance(n, ast.If)
             and src(n.test) in ("self.auto_reload", "self._cooked is False")]
    tests = [src(n.test) for n in f.node.body if isinstance(n, ast.If)]
    rep.check(tests[:2] == ["self.auto_reload", "self._cooked is False"],
              "R16.1", site, "the modification time is compared before the "
              "compiled flag is consulted", construct="check-order", where=wh,
              detail=str(tests))
    okr, detail = cook_check_never_returns_uncooked(repo)
    rep.check(okr, "R16.1", site, "cook_check returns only after the "
              "compiled flag was found up or cook() has run on that path "
              "(whatever the modification time says: another thread may be "
              "compiling)", construct="no-return-uncooked", where=wh,
              detail=detail)
    rd = repo.func(BF + "read")
    t = L.text(rd.node)
    top = [src(x) for x in rd.node.body]
    rep.check("self.content_type = content_type or self.default_content_type"
              in top and "self.content_encoding = encoding" in top, "R16.1",
              rd.qualname, "every read refreshes content type and encoding "
              "(nothing of the old version survives)",
              construct="read-refresh", where=L.where(rd))
    mt = repo.func(BF + "mtime")
    t = L.text(mt.node)
    rep.check("os.path.getmtime(filename)" in t, "R16.1", mt.qualname,
              "the modification time is the file's", construct="mtime",
              where=L.where(mt))
    sf = repo.func(BF + "_set_filename")
    t = L.text(sf.node, body_only=True)
    rep.check("self._v_last_read = None" in t and "self._cooked = False" in t,
              "R16.1", sf.qualname, "assigning a file name invalidates the "
              "compiled state", construct="set-filename", where=L.where(sf))
    init = repo.func(BF + "__init__")
    t = L.text(init.node)
    rep.check("self.filename = filename" in t and
              "if auto_reload is not None: self.auto_reload = auto_reload"
              in t, "R16.1", init.qualname, "auto_reload is taken from the "
              "constructor when given", construct="auto-reload-arg",
              where=L.where(init))


def _conjuncts(e):
    if isinstance(e, ast.BoolOp) and isinstance(e.op, ast.And):
        out = []
        for v in e.values:
            out += _conjuncts(v)
        return out
    return [e]


def _retire_filter(repo, rep, f):
    site = f.qualname
    wh = L.where(f)
    # what is retired is looked for where the entry points are published:
    # among the instance's own attributes (setattr(self, ...) puts them
    # into self.__dict__)
    pops = [c for c in ast.walk(f.node) if isinstance(c, ast.Call)
            and src(c.func) in ("self.__dict__.pop", "delattr")]
    walked = set()
    for lp in ast.walk(f.node):
        if isinstance(lp, ast.For) and any(p_ in ast.walk(lp)
                                           for p_ in pops):
            it_ = lp.iter
            if isinstance(it_, ast.Name):
                defs_ = [a_.value for a_ in ast.walk(f.node)
                         if isinstance(a_, ast.Assign) and any(
                             isinstance(t_, ast.Name) and t_.id == it_.id
                             for t_ in a_.targets)]
                if len(defs_) == 1:
                    it_ = defs_[0]
            srcs_ = [g.iter for g in it_.generators] if isinstance(
                it_, (ast.ListComp, ast.GeneratorExp, ast.SetComp)) else [it_]
            for x in [y for s_ in srcs_ for y in ast.walk(s_)]:
                if isinstance(x, ast.Attribute) and src(x.value) == "self":
                    walked.add(x.attr)
                if isinstance(x, ast.Call) and src(x.func) in ("vars",
                                                               "dir") \
                        and x.args and src(x.args[0]) == "self":
                    walked.add("__dict__")
    rep.check("__dict__" in walked and walked <= {"__dict__"}, "R16.2",
              site, "stale entry points are looked for among the "
              "instance's own attributes", construct="retire-walks-instance",
              where=wh, detail=str(sorted(walked)))
    # the publishing prefix: setattr(self, P + name, function)
    pub = [n for n in ast.walk(f.node) if isinstance(n, ast.Call)
           and src(n.func) == "setattr" and len(n.args) == 3]
    P = None
    for c in pub:
        k = L.inline_locals(f.node, c.args[1])
        if isinstance(k, ast.BinOp) and isinstance(k.op, ast.Add) and \
                isinstance(k.left, ast.Constant) and \
                isinstance(k.left.value, str):
            P = k.left.value
        elif isinstance(k, ast.BinOp) and isinstance(k.op, ast.Mod) and \
                isinstance(k.left, ast.Constant) and \
                isinstance(k.left.value, str) and \
                k.left.value.endswith("%s"):
            P = k.left.value[:-2]
    # the name every compiled entry point starts with: the attribute
    # render() calls, less the publishing prefix
    rn = repo.func(BT + "render")
    entry = {n.func.attr for n in ast.walk(rn.node)
             if isinstance(n, ast.Call) and isinstance(n.func, ast.Attribute)
             and src(n.func.value) == "self"
             and n.func.attr.startswith("_render")}
    if P is None or len(entry) != 1:
        raise AnalysisError("cook(): publishing prefix / entry point not "
                            "understood (%r, %r)" % (P, sorted(entry)))
    want_prefix = sorted(entry)[0]
    rets = [n for n in ast.walk(f.node) if (isinstance(n, ast.Call) and (
        src(n.func) == "delattr" or (src(n.func).endswith(".pop") and
                                     "__dict__" in src(n.func))))]
    ok = bool(rets)
    detail = []
    for r in rets:
        key = r.args[1] if src(r.func) == "delattr" and len(r.args) > 1 \
            else (r.args[0] if r.args else None)
        loop = getattr(r, "_parent", None)
        conds = []
        while loop is not None and not isinstance(loop, ast.For):
            if isinstance(loop, ast.If):
                conds += _conjuncts(loop.test)
            loop = getattr(loop, "_parent", None)
        if loop is None or key is None:
            ok = False
            detail.append("retire call outside a loop")
            continue
        var = src(loop.target)
        # what the loop runs over: a comprehension with filters, possibly
        # behind list()/tuple() and a local
        it = loop.iter
        for _ in range(3):
            # list(x) / tuple(x) / a local bound once: look through
            if isinstance(it, ast.Call) and src(it.func) in (
                    "list", "tuple", "sorted") and len(it.args) == 1:
                it = it.args[0]
            elif isinstance(it, ast.Name):
                ds = [d.value for d in ast.walk(f.node)
                      if isinstance(d, ast.Assign) and len(d.targets) == 1
                      and src(d.targets[0]) == it.id]
                if len(ds) != 1:
                    break
                it = ds[0]
        for x in ast.walk(it):
            if isinstance(x, (ast.ListComp, ast.GeneratorExp, ast.SetComp)):
                g = x.generators[0]
                # conditions are written on the comprehension's variable
                cv = src(g.target)
                if src(x.elt) != cv:
                    ok = False
                    detail.append("the loop runs over %s, not over the "
                                  "attribute names" % src(x.elt))
                for c_ in g.ifs:
                    for cj in _conjuncts(c_):
                        conds.append(ast.parse(src(cj).replace(
                            cv, var) if cv != var else src(cj),
                            mode="eval").body)
        if src(key) != var:
            ok = False
            detail.append("removes %s, tests %s" % (src(key), var))
        pref = [c_ for c_ in conds if isinstance(c_, ast.Call)
                and isinstance(c_.func, ast.Attribute)
                and c_.func.attr == "startswith"
                and src(c_.func.value) == var and c_.args
                and isinstance(c_.args[0], ast.Constant)]
        if len(pref) != 1 or pref[0].args[0].value != want_prefix:
            ok = False
            detail.append("prefix test %s, entry points are %r..." % (
                [src(c_) for c_ in pref], want_prefix))
        memb = [c_ for c_ in conds if isinstance(c_, ast.Compare)
                and len(c_.ops) == 1 and isinstance(c_.ops[0], ast.NotIn)
                and src(c_.comparators[0]) == "functions"]
        good_m = False
        for c_ in memb:
            l_ = c_.left
            if isinstance(l_, ast.Subscript) and isinstance(
                    l_.slice, ast.Slice) and src(l_.value) == var and \
                    l_.slice.upper is None and isinstance(
                        l_.slice.lower, ast.Constant) and \
                    l_.slice.lower.value == len(P):
                good_m = True
            elif isinstance(l_, ast.Call) and isinstance(
                    l_.func, ast.Attribute) and \
                    l_.func.attr == "removeprefix" and \
                    src(l_.func.value) == var and l_.args and isinstance(
                        l_.args[0], ast.Constant) and \
                    l_.args[0].value == P:
                good_m = True
        if not good_m:
            ok = False
            detail.append("membership test %s (published as %r + name)" % (
                [src(c_) for c_ in memb], P))
        extra = [c_ for c_ in conds if c_ not in pref and c_ not in memb]
        if extra:
            ok = False
            detail.append("further condition %s" % [src(c_) for c_ in extra])
    rep.check(ok, "R16.2", site, "exactly the published entry points (%r + "
              "name, names starting with %r) that the new program does not "
              "define are removed, under the key that was tested" % (
                  P, want_prefix[len(P):]),
              construct="retire-filter", where=wh, detail="; ".join(detail))


def _retire(repo, rep):
    f = repo.func(BT + "cook")
    site = f.qualname
    wh = L.where(f)
    order = {}
    for n in ast.walk(f.node):
        if isinstance(n, ast.Call):
            t = src(n.func)
            if t == "setattr" and "function" in src(n):
                order.setdefault("publish", n.lineno)
            if t == "delattr" or (t.endswith(".pop") and "__dict__" in t):
                order.setdefault("retire", n.lineno)
        elif isinstance(n, ast.Delete) and "__dict__" in src(n):
            order.setdefault("retire", n.lineno)
        elif isinstance(n, ast.Assign) and \
                src(n.targets[0]) == "self._cooked":
            order.setdefault("flag", n.lineno)
    rep.check("publish" in order and "flag" in order and
              order["publish"] < order["flag"], "R16.2", site,
              "compiled functions are published before the template is "
              "flagged as compiled", construct="publish-before-flag",
              where=wh, detail=str(order))
    rep.check("retire" in order, "R16.2", site, "entry points that the new "
              "program does not define are removed (a macro deleted from the "
              "file must not be served from the previous compilation)",
              construct="stale-entry-points", where=wh,
              detail="cook() only adds _render_* attributes")
    if "retire" in order:
        rep.check(order["retire"] < order.get("flag", 0), "R16.2", site,
                  "stale entry points are removed before the template is "
                  "flagged as compiled", construct="retire-before-flag",
                  where=wh)
        # unconditional: every compilation retires, also the first one of
        # an instance (a file template clears its flag before re-cooking)
        guard = None
        for n in ast.walk(f.node):
            is_ret = (isinstance(n, ast.Call) and (
                src(n.func) == "delattr" or (
                    src(n.func).endswith(".pop") and
                    "__dict__" in src(n.func)))) or (
                        isinstance(n, ast.Delete) and "__dict__" in src(n))
            if not is_ret:
                continue
            a = getattr(n, "_parent", None)
            prev = n
            while a is not None and a is not f.node:
                cond = None
                if isinstance(a, (ast.If, ast.While)) and prev is not a.test:
                    cond = a.test
                elif isinstance(a, ast.IfExp) and prev is not a.test:
                    cond = a.test
                elif isinstance(a, ast.ExceptHandler):
                    cond = a.type or a
                conds = [cond] if cond is not None else []
                if isinstance(a, ast.For):
                    # a conditional expression in what feeds the loop is a
                    # guard as well
                    # (also one hidden behind a local that feeds it)
                    feed, todo, seen_ = [a.iter], [a.iter], set()
                    while todo:
                        e_ = todo.pop()
                        for x in ast.walk(e_):
                            if isinstance(x, ast.Name) and \
                                    x.id not in seen_:
                                seen_.add(x.id)
                                da = [d for d in ast.walk(f.node)
                                      if isinstance(d, ast.Assign) and any(
                                          src(t_) == x.id
                                          for t_ in d.targets)]
                                ds = [d.value for d in da]
                                feed += ds
                                todo += ds
                                # a definition under a condition
                                conds += [g_[0] for d in da
                                          for g_ in L.guards_of(d, f.node)
                                          if isinstance(g_[0], ast.expr)]
                    conds += [x.test for it in feed for x in ast.walk(it)
                              if isinstance(x, ast.IfExp)]
                    conds += [c_ for it in feed for x in ast.walk(it)
                              if isinstance(x, ast.comprehension)
                              for c_ in x.ifs]
                for cnd in conds:
                    state = [x for x in ast.walk(cnd)
                             if isinstance(x, ast.Name) and x.id == "self"]
                    if state or isinstance(a, ast.ExceptHandler):
                        guard = src(cnd)
                prev, a = a, getattr(a, "_parent", None)
        rep.check(guard is None, "R16.2", site, "stale entry points are "
                  "retired on every compilation, not depending on template "
                  "state", construct="retire-unconditional", where=wh,
                  detail="retire step is guarded by %s" % guard)
        # the filter: exactly the published entry points ('_' + name of a
        # compiled function, all of which start with 'render') that the new
        # program does not define -- and what is removed is the key tested
        _retire_filter(repo, rep, f)
    t = L.text(f.node)
    rep.check("init = program[PROGRAM_NAME]" in t and
              "functions = init(*builtins)" in t, "R16.2", site,
              "the published functions are those of the program just "
              "compiled", construct="functions-source", where=wh)
    nm = repo.func(ZT + "Macros.names")
    t = L.text(nm.node)
    rep.check(("for name in self.template.__dict__:" in t or
               "for name in list(self.template.__dict__):" in t or
               "for name in tuple(self.template.__dict__):" in t) and
              "name.startswith('_render_')" in t, "R16.2", nm.qualname,
              "macro names are exactly the published _render_<name> entries",
              construct="names-source", where=L.where(nm))


def _loader(repo, rep):
    f = repo.func(LD + "load")
    site = f.qualname
    wh = L.where(f)
    # decorator: memoised by args
    deco = [src(d) for d in f.node.decorator_list]
    rep.check(deco == ["cache"], "R16.3", site, "load is memoised",
              construct="memoised", where=wh, detail=str(deco))
    c = repo.func("chameleon.loader.cache")
    t = L.text(c.node)
    inner_ = [n for n in ast.walk(c.node) if isinstance(n, ast.FunctionDef)
              and n is not c.node]
    gk = [src(L.inline_locals(inner_[0], n.args[0])) for n in ast.walk(
        c.node) if isinstance(n, ast.Call) and
        src(n.func) == "self.registry.get" and n.args] if inner_ else []
    sk = [src(L.inline_locals(inner_[0], t_.slice)) for n in ast.walk(c.node)
          if isinstance(n, ast.Assign) for t_ in n.targets
          if isinstance(t_, ast.Subscript) and
          src(t_.value) == "self.registry"] if inner_ else []
    rep.check(len(gk) == 1 and gk == sk and "args" in gk[0] and
              "func(self, *args, **kwargs)" in t, "R16.3", c.qualname,
              "the same arguments return the same instance (looked up and "
              "stored under one key made of the call's arguments)",
              construct="registry", where=L.where(c), detail=str(gk + sk))
    t = L.text(f.node)
    rep.check("if self.default_extension is not None and '.' not in spec: "
              "spec += self.default_extension" in t, "R16.3", site,
              "the default extension is added only to names without a dot",
              construct="default-extension", where=wh)
    rep.check("if not os.path.isabs(spec):" in t, "R16.3", site,
              "absolute names skip the search path", construct="absolute",
              where=wh)
    loops = [n for n in ast.walk(f.node) if isinstance(n, ast.For)
             and src(n.iter) == "self.search_path"]
    ok = len(loops) == 1
    rep.check(ok, "R16.3", site, "the search path is walked in order",
              construct="walk", where=wh)
    if ok:
        lp = loops[0]
        paths = P.enum_paths([lp])
        good = True
        found = 0
        for p in paths:
            conds = [(src(e[1]), e[2]) for e in p if e[0] == "cond"]
            exists = [v for c_, v in conds if "exists(" in c_]
            # a path on which a candidate exists must leave the loop (break)
            # -- enum_paths models break by continuing after the loop, i.e.
            # the path does not end with 'end' of the body
            if exists and exists[-1]:
                found += 1
        brk = [n for n in ast.walk(lp) if isinstance(n, ast.Break)]
        for b in brk:
            p_ = getattr(b, "_parent", None)
            if not (isinstance(p_, ast.If) and "exists" in src(p_.test)):
                good = False
        rep.check(good and len(brk) >= 1 and found >= 1, "R16.3", site,
                  "the first existing candidate ends the walk (later "
                  "directories are not consulted)", construct="first-match",
                  where=wh, detail="%d break(s)" % len(brk))
        rep.check(bool(lp.orelse) and any(
            isinstance(n, ast.Raise) and "Template not found" in src(n)
            for n in ast.walk(ast.Module(body=lp.orelse, type_ignores=[]))),
            "R16.3", site, "no candidate at all raises ValueError",
            construct="not-found", where=wh)
        rep.check("path = os.path.join(path, spec)" in t and
                  "spec = path" in t, "R16.3", site, "a candidate is "
                  "<directory>/<name> and the match becomes the file name",
                  construct="candidate", where=wh)
    if ok:
        # loop-carried state: a 'package:dir' entry sets package_name; a match
        # found in a later plain directory must not inherit it -- every path
        # of one iteration that ends the walk (break) has assigned
        # package_name in that iteration
        lp = loops[0]
        stale = None
        for p_ in P.enum_paths([lp], unroll=1):
            its = [i for i, e in enumerate(p_) if e[0] == "assign" and
                   isinstance(e[2], ast.Call) and src(e[2].func) == "<next>"]
            if len(its) != 1:
                continue
            tail = p_[its[0] + 1:]
            ended_by_break = not any(e[0] == "loop" and e[1] >= 1
                                     for e in tail)
            conds = [(src(e[1]), e[2]) for e in tail if e[0] == "cond"]
            found_ = any("exists" in c_ and v for c_, v in conds)
            if not (ended_by_break and found_):
                continue
            if not any(e[0] == "assign" and "package_name" in e[1]
                       for e in tail):
                stale = P.path_text(tail, 8)
        rep.check(stale is None, "R16.3", site, "a match ends the walk with "
                  "package_name set for *that* entry (a plain directory "
                  "resets what an earlier package entry left behind)",
                  construct="package-name-per-entry", where=wh,
                  detail=stale or "")
    rep.check("spec = spec.strip()" in t, "R16.3", site, "surrounding "
              "whitespace of the name is ignored", construct="strip", where=wh)
    rep.check("package_name, spec = spec.split(':', 1)" in t, "R16.3", site,
              "package-relative specs (package:path) are honoured",
              construct="package-spec", where=wh)
    # the template that is built inherits what was found and where to look
    # on: its own load: expressions resolve names along the loader's search
    # path, a package-relative file is read from its package
    ld0 = repo.func(LD + "load")
    made = [c for c in ast.walk(ld0.node) if isinstance(c, ast.Call)
            and src(c.func) == "cls" and isinstance(
                getattr(c, "_parent", None), ast.Return)]
    want_kw = {"search_path": "self.search_path",
               "package_name": "package_name"}
    okm = bool(made)
    for c in made:
        got = {k.arg: src(k.value) for k in c.keywords if k.arg}
        if any(got.get(k) != v for k, v in want_kw.items()) or not any(
                k.arg is None and src(k.value) == "self.kwargs"
                for k in c.keywords) or not (
                    c.args and src(c.args[0]) == "spec"):
            okm = False
    rep.check(okm, "R16.3", ld0.qualname, "the template is built from the "
              "resolved name, with the loader's search path, the package it "
              "was found in and the loader's configuration",
              construct="template-built-with", where=L.where(ld0),
              detail="; ".join(src(c)[:100] for c in made))
    # 'package:directory' entries of the search path: an entry is one when
    # it is NOT absolute AND contains a colon; it is cut at the FIRST colon
    # into exactly two parts
    ld_ = repo.func(LD + "load")
    cuts = [a for a in ast.walk(ld_.node) if isinstance(a, ast.Assign)
            and isinstance(a.targets[0], ast.Tuple)
            and "package_name" in src(a.targets[0])
            and isinstance(a.value, ast.Call)
            and isinstance(a.value.func, ast.Attribute)]
    okc = len(cuts) >= 2
    cdetail = []
    for a in cuts:
        c = a.value
        two = len(a.targets[0].elts) == 2
        mx = None
        if len(c.args) > 1:
            try:
                mx = ast.literal_eval(c.args[1])
            except ValueError:
                pass
        first = (c.func.attr == "split" and mx == 1) or \
            c.func.attr == "partition"
        if not (two and first and c.args and isinstance(
                c.args[0], ast.Constant) and c.args[0].value == ":"):
            okc = False
            cdetail.append(src(a)[:60])
    rep.check(okc, "R16.3", ld_.qualname, "a package spec is cut at its "
              "first colon into package and path (%d places)" % len(cuts),
              construct="package-cut-first-colon", where=L.where(ld_),
              detail="; ".join(cdetail))
    tests = [L._CanonIf._pos(n.test)[0] for n in ast.walk(ld_.node)
             if isinstance(n, ast.If)
             and "isabs(path)" in src(n.test) and "':' in path" in src(
                 n.test)]
    okt = bool(tests) and all(
        isinstance(t_, ast.BoolOp) and isinstance(t_.op, ast.And)
        and sorted(src(v).replace(" ", "") for v in t_.values) == sorted(
            ["notos.path.isabs(path)", "':'inpath"]) for t_ in tests)
    rep.check(okt, "R16.3", ld_.qualname, "a search path entry is a package "
              "spec when it is not absolute AND contains a colon",
              construct="package-entry-test", where=L.where(ld_),
              detail=str([src(t_) for t_ in tests]))
    ini = repo.func(LD + "__init__")
    t = L.text(ini.node)
    rep.check("self.default_extension = '.%s' % default_extension.lstrip('.')"
              in t, "R16.3", ini.qualname, "the default extension is "
              "normalised to one leading dot", construct="extension-dot",
              where=L.where(ini))
    # relative search path first
    pf = repo.func(ZT + "PageTemplateFile.__init__")
    t = L.text(pf.node)
    rep.check("search_path.insert(0, path)" in t and
              "if self.prepend_relative_search_path:" in t and
              "path = dirname(self.filename)" in t, "R16.3", pf.qualname,
              "a file template's own directory is put first on the search "
              "path of its load: expression", construct="relative-first",
              where=L.where(pf))
    # ... always: the only condition is the option itself (a directory that
    # is already somewhere on the path must still come first)
    ins = [n for n in ast.walk(pf.node) if isinstance(n, ast.Call)
           and src(n.func).endswith("search_path.insert")]
    extra = []
    for c in ins:
        for test, truth in L.guards_of(c, pf.node):
            gt = src(test)
            if gt == "self.prepend_relative_search_path" and truth:
                continue
            extra.append(gt)
    rep.check(len(ins) == 1 and src(ins[0].args[0]) == "0" and not extra,
              "R16.3", pf.qualname, "the template's directory is inserted at "
              "position 0 whenever the option is on -- under no further "
              "condition", construct="relative-first-always",
              where=L.where(pf), detail="guards: %s" % extra)
    fresh_ok, detail = fresh_search_path(repo)
    rep.check(fresh_ok, "R16.3", pf.qualname,
              "the search path a file template extends with its own "
              "directory is a fresh list on every path (the loader's shared "
              "search path is never mutated: resolution does not depend on "
              "what was loaded before)", construct="fresh-search-path",
              where=L.where(pf), detail=detail)
    rep.check("self._loader = loader.bind(template_class)" in t and
              "loader_class(search_path=search_path, **config)" in t, "R16.3",
              pf.qualname, "load: uses a loader bound to the same template "
              "class and configuration", construct="bound-loader",
              where=L.where(pf))
    # "the same configuration": whatever the constructor takes out of
    # **config by naming it no longer reaches the loader, so the templates
    # that load: / use-macro pull in do not inherit it.  The named ones are
    # the file's own (reviewed): a template option named here is lost
    own_params = {"self", "filename", "loader_class", "package_name",
                  "search_path"}
    a_ = pf.node.args
    named = {x.arg for x in a_.posonlyargs + a_.args + a_.kwonlyargs}
    rep.check(named <= own_params and a_.kwarg is not None and
              a_.kwarg.arg == "config", "R16.3", pf.qualname,
              "the constructor names only the file's own arguments; every "
              "template option stays in **config, which the bound loader "
              "receives (auto_reload, strict, ... are inherited by loaded "
              "templates)", construct="config-undivided", where=L.where(pf),
              detail="named besides the file's own: %s" % sorted(
                  named - own_params))
    et = repo.cls(ZT + "PageTemplateFile").attrs.get("expression_types")
    bi = repo.func(ZT + "PageTemplateFile._builtins")
    t = L.text(bi.node, body_only=True)
    rep.check("d['__loader'] = self._loader" in t, "R16.3", bi.qualname,
              "the bound loader is what the load: expression calls",
              construct="loader-builtin", where=L.where(bi))
