"""C03 -- unmarked markup is reproduced verbatim; tokenising and parsing
lose nothing."""
from __future__ import annotations

import ast

from .. import absint as A
from .. import lib as L
from .. import rx
from ..core import AnalysisError, NotConst, src

TOK = "chameleon.tokenize"
PARSER = "chameleon.parser"
COMP = "chameleon.compiler.Compiler."
PROG = "chameleon.zpt.program.MacroProgram."


def fold_collector(repo):
    """Statically replay ``a(name, regex)`` at module level of tokenize.py:
    ``collector.res[name] = regex % collector.res``."""
    m = repo.module(TOK)
    ci = repo.classes.get(TOK + ".recollector")
    if ci is None:
        raise AnalysisError("tokenize.recollector vanished")
    add = ci.methods.get("add")
    ok = False
    for n in ast.walk(add.node):
        if isinstance(n, ast.Assign) and \
                src(n.targets[0]) == "self.res[name]" and \
                src(n.value) == "reg % self.res":
            ok = True
    if not ok:
        raise AnalysisError("recollector.add no longer stores reg % self.res")
    # which module-level name is bound to collector.add ?
    adders = set()
    for name, vals in m.assigns.items():
        for v in vals:
            if isinstance(v, ast.Attribute) and v.attr == "add":
                adders.add(name)
    res = {}
    for st in m.tree.body:
        if isinstance(st, ast.Expr) and isinstance(st.value, ast.Call):
            c = st.value
            fn = src(c.func)
            if fn in adders or fn.endswith(".add"):
                try:
                    name = repo.fold(c.args[0], m)
                    reg = repo.fold(c.args[1], m)
                except NotConst as exc:
                    raise AnalysisError("collector call not constant: %s" %
                                        exc)
                res[name] = reg % res
    return res


def always_empty(sub):
    """Can the sub-pattern match the empty string at *any* position,
    independent of context?  (stricter than nullable: assertions may fail)"""
    C = rx.C
    for op, av in sub:
        if op in (C.MAX_REPEAT, C.MIN_REPEAT):
            lo, hi, body = av
            if lo == 0:
                continue
            if not always_empty(body):
                return False
        elif op is C.SUBPATTERN:
            if not always_empty(av[3]):
                return False
        elif op is C.BRANCH:
            if not any(always_empty(alt) for alt in av[1]):
                return False
        else:
            return False
    return True


def run(repo, rep, tier):
    rep.explanation = (
        "Totality of the tokenizer is a statement about a regular "
        "expression and is proved on its syntax tree (re._parser), for every "
        "input string: XML_SPE is an alternation whose alternatives each "
        "start with a one-character class followed by a part that can match "
        "empty unconditionally, and the first classes cover all of Unicode; "
        "hence at every position a non-empty match exists, finditer never "
        "skips a character and the tokens concatenate to the input.  iter_xml "
        "must yield every match with its start offset.  Verbatim rendering "
        "is decided as a def-use property: every lexical field captured by "
        "the tag regexes (read off the regex group tree) reaches the output "
        "exactly once through node construction and the Start/End/Attribute "
        "emitters, and the statement-free emitters construct Text of the "
        "unmodified token.")
    rep.assumptions = [
        "re.finditer returns leftmost, non-overlapping matches and tries all "
        "alternatives at a position (CPython sre semantics)",
        "the sub-regexes that dissect a tag are value-level and not checked "
        "beyond group coverage",
    ]
    rep.rule("R03.1", "tokenizer totality: at every position of every string "
                      "a non-empty match exists")
    rep.rule("R03.2", "iter_xml yields every match (whole text, start "
                      "offset); iter_text yields the body as one token")
    rep.rule("R03.3", "every captured lexical field is emitted exactly once "
                      "(no field dropped, none emitted together with an "
                      "enclosing group)")
    rep.rule("R03.4", "statement-free emitters output the unmodified token")
    rep.rule("R03.5", "the only rewrite of the source before tokenising is "
                      "the newline normalisation, outside XML mode")
    _totality(repo, rep)
    _rex_table(repo, rep)
    _iterators(repo, rep)
    _fields(repo, rep)
    _verbatim(repo, rep)
    _newlines(repo, rep)
    from . import c17, c18
    # an ordinary attribute is kept unless it is a declaration *of* a
    # template namespace
    L.borrow(repo, rep, "R03.3", "C18", c18._zip, ("drop-test",))
    # XML mode (no newline rewriting) follows the XML declaration, which is
    # consulted before the meta element
    L.borrow(repo, rep, "R03.5", "C17", c17._order, ("decl-second",))
    # a statement-free attribute with a prefix stays as written only if the
    # prefix means what the enclosing elements declared: declarations of an
    # empty element end with it (C18 owns the namespace-stack rules)
    _pi_target(repo, rep)
    _pi_compare(repo, rep)
    parser_details(repo, rep)
    from . import c18, c07
    L.borrow(repo, rep, "R03.3", "C18", c18._nsstack, ("empty-tag",))
    # the CR/CRLF rewrite is decided by the content type of THIS body
    L.borrow(repo, rep, "R03.5", "C07", c07._history_and_undoubling,
             ("write-history-free",))
    # ... which, for a document that announces itself by a meta element, is
    # what detect_encoding reads out of the matched groups (C17 owns it)
    from . import c17
    L.borrow(repo, rep, "R03.5", "C17", c17._meta_group_roles,
             ("meta-group-roles",))
    L.option_defaults_rule(repo, rep, "R03.5", ("implicit_i18n_translate", "trim_attribute_space"))
    # with CHAMELEON_DEBUG every fragment of the output passes the checking
    # stream: it stores what it has checked
    ds_ = repo.cls("chameleon.utils.DebuggingOutputStream").methods["append"]
    sup_ = [c for c in ast.walk(ds_.node) if isinstance(c, ast.Call)
            and src(c.func) in ("super().append", "list.append")]
    rep.check(bool(sup_), "R03.4", ds_.qualname, "the debugging output "
              "stream stores every fragment", construct="debug-stream-appends",
              where=L.where(ds_))
    # a byte order mark is no part of the document (C17 owns the table);
    # ordinary data-* attributes are left as written (C18 owns the
    # conversion)
    from . import c17 as _c17
    L.borrow(repo, rep, "R03.5", "C17", _c17._table, ("bom-survives",),
             minimum=2)
    from . import c18 as _c18
    L.borrow(repo, rep, "R03.5", "C18", _c18._keyed,
             ("language-only", "data-prefix", "convert-first"), minimum=3)
    L.state_rule(repo, rep)


def _totality(repo, rep):
    res = fold_collector(repo)
    m = repo.module(TOK)
    site = TOK + ".re_xml_spe"
    val = m.assigns.get("re_xml_spe")
    if not val:
        raise AnalysisError("re_xml_spe vanished")
    call = val[-1]
    key = None
    if isinstance(call, ast.Call) and call.args:
        a = call.args[0]
        if isinstance(a, ast.Subscript) and isinstance(a.slice, ast.Constant):
            key = a.slice.value
    if key is None or key not in res:
        raise AnalysisError("re_xml_spe is not compiled from the collector")
    flags = 0
    for extra in call.args[1:]:
        flags |= repo._fold_reflags(extra)
    pattern = res[key]
    rep.count("regex_chars", len(pattern))
    sub = rx.parse(pattern, flags)
    alts = rx.top_alternatives(sub)
    rep.check(len(alts) >= 2, "R03.1", site,
              "the lexer regex is an alternation of text and markup",
              construct="alternation", detail="%d alternative(s)" % len(alts))
    union = rx.CharSet()
    dotall = bool(flags & 16)
    for i, alt in enumerate(alts):
        if not alt:
            rep.bad("R03.1", site, "no alternative is empty", "empty-alt")
            continue
        op, av = alt[0]
        C = rx.C
        head = None
        tail = alt[1:]
        if op in (C.LITERAL, C.NOT_LITERAL, C.IN, C.ANY):
            head = rx._item(op, av, dotall).first
        elif op in (C.MAX_REPEAT, C.MIN_REPEAT) and av[0] >= 1 and \
                len(av[2]) == 1 and av[2][0][0] in (
                    C.LITERAL, C.NOT_LITERAL, C.IN, C.ANY):
            head = rx._item(av[2][0][0], av[2][0][1], dotall).first
        rep.check(head is not None, "R03.1", site,
                  "alternative %d starts with a single character class "
                  "(no anchor, look-around or group in front)" % i,
                  construct="alt-head:%d" % i)
        if head is None:
            continue
        union |= head
        rep.check(always_empty(tail), "R03.1", site,
                  "after its first character alternative %d can match the "
                  "empty string unconditionally (so it matches whenever its "
                  "first character does)" % i, construct="alt-tail:%d" % i,
                  detail="first set %r" % head)
    rep.check(union == rx.CharSet.full(), "R03.1", site,
              "the first-character classes of the alternatives cover every "
              "code point: a non-empty match exists at every position of "
              "every string", construct="first-cover",
              detail="missing %r" % (rx.CharSet.full() - union))
    info = rx.analyse(sub, dotall)
    rep.check(not info.nullable, "R03.1", site,
              "the lexer regex cannot match the empty string (no empty "
              "tokens, progress at every step)", construct="not-nullable")


def _rex_table(repo, rep, rule="R03.1", only=None):
    """Totality (R03.1) says every character lands in some token; *which*
    token is decided by the pieces of the shallow-parsing grammar (REX): a
    comment runs to the first '-->', a CDATA section to the first ']]>', an
    attribute needs white space in front ...  The table is a published
    constant; the structure of every piece (its regular-expression syntax
    tree, not its spelling) is compared with the reviewed reference in
    chamlint/reference_rex.json."""
    import json
    import os
    import re._parser as sp
    ref_path = os.path.join(os.path.dirname(os.path.dirname(
        os.path.abspath(__file__))), "reference_rex.json")
    try:
        with open(ref_path) as fh:
            ref = json.load(fh)
    except OSError as exc:
        raise AnalysisError("reference_rex.json missing: %s" % exc)
    res = fold_collector(repo)
    missing = sorted(set(ref) - set(res))
    rep.check(not missing, rule, TOK, "every piece of the reviewed "
              "grammar table is still defined", construct="rex-pieces",
              detail=str(missing))
    n = 0
    for name in sorted(ref):
        if name not in res or (only is not None and name not in only):
            continue
        n += 1
        try:
            now = repr(sp.parse(res[name]))
        except Exception as exc:
            now = "unparsable: %s" % exc
        rep.check(now == ref[name], rule, TOK + "." + name, "grammar "
                  "piece %s has the reviewed structure" % name,
                  construct="rex-piece:" + name,
                  detail="pattern now: %s" % res[name][:120])
    if n < (20 if only is None else len(only)):
        raise AnalysisError("only %d grammar pieces found" % n)


def _iterators(repo, rep):
    f = repo.func(TOK + ".iter_xml")
    site = f.qualname
    loops = [n for n in f.node.body if isinstance(n, ast.For)]
    ok = len(loops) == 1 and "finditer(body)" in src(loops[0].iter) and \
        "re_xml_spe" in src(loops[0].iter)
    rep.check(ok, "R03.2", site, "iter_xml iterates re_xml_spe.finditer(body)",
              construct="finditer", where=L.where(f))
    if ok:
        lp = loops[0]
        bad = [n for n in ast.walk(lp) if isinstance(
            n, (ast.If, ast.Continue, ast.Break, ast.Try, ast.Return))]
        rep.check(not bad, "R03.2", site,
                  "no match is filtered, skipped or cut short",
                  construct="no-filter", where=L.where(f),
                  detail=str([type(b).__name__ for b in bad]))
    res = L.emission(repo, f.qualname)
    toks = [w for w in A.walk(res.out)
            if isinstance(w, A.CallV) and w.name == "Token"]
    ok = False
    for t in toks:
        a = [A.show(x) for x in t.args]
        if len(a) >= 3 and a[0].endswith("group()") and \
                a[1].endswith("start()") and a[2] == "body":
            ok = True
    rep.check(ok, "R03.2", site, "each token is Token(match.group(), "
              "match.start(), body, ...): whole match text, absolute offset, "
              "the tokenised string as source", construct="token-args",
              where=L.where(f), detail=str([A.show(t) for t in toks]))
    g = repo.func(TOK + ".iter_text")
    r2 = L.emission(repo, g.qualname)
    toks = [w for w in A.walk(r2.out)
            if isinstance(w, A.CallV) and w.name == "Token"]
    ok = len(toks) == 1 and [A.show(x) for x in toks[0].args[:3]] == [
        "body", "0", "body"]
    rep.check(ok, "R03.2", g.qualname,
              "text mode: one token = the whole body at offset 0",
              construct="text-token", where=L.where(g))
    # Token.__new__ keeps string and pos
    tk = repo.cls(TOK + ".Token")
    new = tk.methods.get("__new__")
    text = L.text(new.node, body_only=True)
    rep.check("str.__new__(cls, string)" in text and "inst.pos = pos" in text
              and "inst.source = source" in text, "R03.2", new.qualname,
              "Token stores text, position and source unchanged",
              construct="token-new", where=L.where(new))


def _regex_const(repo, modname, name):
    v = repo.const(modname, name)
    if not hasattr(v, "pattern"):
        raise AnalysisError("%s.%s is not a compiled regex" % (modname, name))
    return v


def _fields(repo, rep):
    tagre = _regex_const(repo, PARSER, "match_tag_prefix_and_name")
    attre = _regex_const(repo, PARSER, "match_single_attribute")
    tsub = rx.parse(tagre.pattern, tagre.flags)
    asub = rx.parse(attre.pattern, attre.flags)
    tpar, tnames = rx.group_tree(tsub)
    apar, anames = rx.group_tree(asub)

    def nested(names, parents):
        out = {}
        for n, gid in names.items():
            anc = rx.ancestors(parents, gid)
            out[n] = [k for k, g in names.items() if g in anc]
        return out
    tn = nested(tnames, tpar)
    an = nested(anames, apar)
    rep.count("regex_groups", len(tnames) + len(anames))

    # --- lossless dissection: every consuming atom of the two tag regexes
    # lies inside a captured group that is emitted --------------------------
    def uncovered(items, emitted, names_by_gid):
        C = rx.C
        out = []
        for op, av in items:
            if op is C.AT or op in (C.ASSERT, C.ASSERT_NOT):
                continue
            if op is C.SUBPATTERN:
                gid = av[0]
                nm = names_by_gid.get(gid)
                if nm in emitted:
                    continue
                out += uncovered(av[3], emitted, names_by_gid)
            elif op is C.BRANCH:
                for alt in av[1]:
                    out += uncovered(alt, emitted, names_by_gid)
            elif op in (C.MAX_REPEAT, C.MIN_REPEAT):
                out += uncovered(av[2], emitted, names_by_gid)
            elif op is C.GROUPREF:
                if names_by_gid.get(av) not in emitted:
                    out.append("backreference to group %s" % av)
            else:
                out.append("%s %s" % (op, str(av)[:30]))
        return out
    for label, sub, names, emitted in (
            ("match_tag_prefix_and_name", tsub, tnames,
             {"prefix", "name", "suffix"}),
            ("match_single_attribute", asub, anames,
             {"space", "name", "eq", "quote", "value", "alt_value",
              "simple_value"})):
        by_gid = {g: n for n, g in names.items()}
        un = uncovered(list(sub), emitted, by_gid)
        rep.check(not un, "R03.3", PARSER + "." + label,
                  "every character the regex consumes belongs to a captured "
                  "group that is emitted (%s): the dissection of a tag loses "
                  "nothing" % ", ".join(sorted(emitted)),
                  construct="uncaptured:" + label,
                  detail="consumed outside any emitted group: %s" % un[:3])

    # --- how node fields are fed from the parsed tag -----------------------
    ve = L.emission(repo, PROG + "visit_element")
    vfunc = repo.func(PROG + "visit_element")

    def feed(kind, fields):
        """-> {node_field: set(dict keys of the parsed tag it is built from)}"""
        out = {}
        for w in A.walk(ve.value):
            if isinstance(w, A.NodeV) and w.kind == kind:
                for i, fld in enumerate(fields):
                    v = w.arg(fld, fields)
                    if v is None:
                        continue
                    keys = set()

                    def outer(x):
                        if isinstance(x, A.Alt):
                            outer(x.a)
                            outer(x.b)
                        elif isinstance(x, A.CallV) and x.name == "getitem" \
                                and len(x.args) == 2 and \
                                isinstance(x.args[1], A.Const) and \
                                isinstance(x.args[1].value, str):
                            keys.add(x.args[1].value)
                        elif isinstance(x, A.CallV) and x.args:
                            outer(x.args[-1])
                        elif isinstance(x, A.Field):
                            # synthesized end tag: End(start_tag.name, ...)
                            keys.add(x.attr)
                    outer(v)
                    out.setdefault(fld, set()).update(keys)
        return out
    start_feed = feed("Start", ("name", "prefix", "suffix", "attributes"))
    end_feed = feed("End", ("name", "space", "prefix", "suffix"))

    def emitted(qual):
        f = repo.func(qual)
        r = L.emission(repo, qual)
        fields = []
        for it, conds in A.flatten(r.emission):
            if isinstance(it, A.Internal) and it.kind == "EmitText":
                for w in A.walk(it):
                    if isinstance(w, A.Field) and A.show(w.base) == "node":
                        fields.append((w.attr, conds))
        return f, fields

    # start tag
    f, flds = emitted(COMP + "visit_Start")
    for branch in (True, False):
        got = [a for a, c in flds
               if L.polarity(c, "node.attributes") in (branch, None)]
        groups = []
        for a in got:
            groups += sorted(start_feed.get(a, {a}))
        for g in ("prefix", "name", "suffix"):
            rep.check(groups.count(g) == 1, "R03.3", f.qualname,
                      "start tag %s attributes: captured field '%s' is "
                      "emitted exactly once" % (
                          "with" if branch else "without", g),
                      construct="start:%s" % g, where=L.where(f),
                      detail="emits %s" % groups)
        _no_overlap(rep, f, groups, tn, "start")
    # end tag
    f, flds = emitted(COMP + "visit_End")
    got = [a for a, c in flds]
    groups = []
    for a in got:
        groups += sorted(end_feed.get(a, {a}))
    for g in ("prefix", "name", "suffix"):
        rep.check(groups.count(g) == 1, "R03.3", f.qualname,
                  "end tag: captured field '%s' is emitted exactly once" % g,
                  construct="end:%s" % g, where=L.where(f),
                  detail="emits %s" % groups)
    _no_overlap(rep, f, groups, tn, "end")
    # order: prefix, name, ..., suffix
    rep.check(groups[:2] == ["prefix", "name"] and groups[-1:] == ["suffix"],
              "R03.3", f.qualname, "end tag fields are emitted in source "
              "order", construct="end-order", where=L.where(f),
              detail=str(groups))

    # attributes: prepare_attributes tuple -> nodes.Attribute -> format
    pa = repo.func("chameleon.tal.prepare_attributes")
    tuples = [n for n in ast.walk(pa.node) if isinstance(n, ast.Tuple)
              and len(n.elts) == 6 and all(
                  isinstance(e, ast.Subscript) or
                  isinstance(e, (ast.Name, ast.Constant)) for e in n.elts)]
    static = None
    for t in tuples:
        keys = [e.slice.value if isinstance(e, ast.Subscript) and
                isinstance(e.slice, ast.Constant) else None for e in t.elts]
        if keys[1:5] == ["value", "quote", "space", "eq"]:
            static = keys
    rep.check(static is not None, "R03.3", pa.qualname,
              "a static attribute is carried as (name, value, quote, space, "
              "eq, None) taken from the parsed attribute",
              construct="attr-tuple", where=L.where(pa))
    ca = L.emission(repo, PROG + "_create_attributes_nodes")
    cf = repo.func(PROG + "_create_attributes_nodes")
    attr_nodes = [w for w in A.walk(ca.value)
                  if isinstance(w, A.NodeV) and w.kind == "Attribute"]
    ok = False
    for a in attr_nodes:
        args5 = list(a.args[:5])
        # the quote of a static attribute is the written one; only when a
        # computed value goes into an unquoted value it is replaced by '"'
        # (the branch taken for static text is the lexical field)
        if len(args5) > 2 and isinstance(args5[2], A.Alt) and \
                "[1][5] is not None" in args5[2].test:
            args5[2] = args5[2].b
        t = [A.show(x) for x in args5]
        # loop target is (name, text, quote, space, eq, expr)
        idx = [x.split("]")[-2][-1] if "[" in x else "?" for x in t]
        if len(t) == 5 and t[0].endswith("[1][0]") and \
                t[2].endswith("[1][2]") and t[3].endswith("[1][4]") and \
                "[1][3]" in t[4]:
            ok = True
    rep.check(ok, "R03.3", cf.qualname,
              "Attribute(name, value, quote, eq, space) takes each lexical "
              "field from its own tuple position", construct="attr-node",
              where=L.where(cf),
              detail=str([[A.show(x)[-14:] for x in a.args[:5]]
                          for a in attr_nodes][:1]))
    va = repo.func(COMP + "visit_Attribute")
    r = L.emission(repo, va.qualname)
    fmt = None
    for n in ast.walk(va.node):
        if isinstance(n, ast.Assign) and src(n.targets[0]) == "attr_format":
            fmt = n.value
    parts = []
    escaped = set()
    if fmt is not None:
        def flat(e, esc=False):
            if isinstance(e, ast.BinOp) and isinstance(e.op, ast.Add):
                flat(e.left, esc)
                flat(e.right, esc)
            elif isinstance(e, ast.Call) and isinstance(
                    e.func, ast.Attribute) and e.func.attr == "replace" \
                    and [getattr(a, "value", None) for a in e.args] == \
                    ["%", "%%"]:
                flat(e.func.value, True)
            else:
                parts.append(src(e))
                if esc:
                    escaped.add(src(e))
        flat(fmt)
    rep.check(parts == ["node.space", "node.name", "node.eq", "node.quote",
                        "'%s'", "node.quote"], "R03.3", va.qualname,
              "an attribute is written as space name eq quote VALUE quote",
              construct="attr-format", where=L.where(va), detail=str(parts))
    # the pieces in front of the value are template text (the space may hold
    # characters of the tag that match no attribute): used as a %-format,
    # their '%' has to be doubled or the text changes ('%%' -> '%') or the
    # compilation fails ('%d')
    rep.check({"node.space", "node.name", "node.eq"} <= escaped, "R03.3",
              va.qualname, "the literal text in front of an attribute value "
              "is %-escaped before it is used as a format",
              construct="attr-format-escaped", where=L.where(va),
              detail="escaped: %s" % sorted(escaped))
    static_emit = False
    for it, conds in A.flatten(r.emission):
        if isinstance(it, A.Internal) and it.kind == "EmitText" and \
                "node.expression.value" in A.show(it, limit=6) and \
                "attr_format" in A.show(it, limit=6):
            static_emit = True
    rep.check(static_emit, "R03.3", va.qualname,
              "a static attribute is emitted as the format applied to its "
              "source text", construct="attr-static", where=L.where(va))
    # ... and to nothing but the source text: both static sinks (plain and
    # filter-guarded) write `attr_format % node.expression.value` unchanged
    sinks = []
    for it, conds in A.flatten(r.emission):
        if isinstance(it, A.Internal) and it.kind == "EmitText":
            sinks.append(A.show(it.args[0], limit=8))
        elif isinstance(it, A.Frag) and "S" in it.slots and \
                L.frag_find(it, "__append(S)", "expr"):
            v = it.slots["S"]
            if isinstance(v, A.Py) and v.kind == "Constant":
                sinks.append(A.show(v.f.get("value"), limit=8))
    want = "`attr_format % node.expression.value`"
    rep.check(len(sinks) >= 2 and all(x == want for x in sinks), "R03.3",
              va.qualname, "every static attribute sink writes the value "
              "text itself into the format (no rewriting of the value)",
              construct="attr-static-verbatim", where=L.where(va),
              detail=str(sinks))
    # a static attribute is re-written (quoted, interpolated) only if it
    # holds a ${...}: every 'X in text' test of the node builder asks for
    # the same marker, the one the interpolation decision uses
    cn = repo.func(PROG + "_create_attributes_nodes")
    marks = {}
    for n_ in ast.walk(cn.node):
        if isinstance(n_, ast.Compare) and len(n_.ops) == 1 and isinstance(
                n_.ops[0], (ast.In, ast.NotIn)) and isinstance(
                    n_.left, ast.Constant) and isinstance(
                        n_.left.value, str) and \
                src(n_.comparators[0]) == "text":
            marks.setdefault(n_.left.value, []).append(n_.lineno)
    rep.check(len(marks) == 1 and "${" in marks and
              len(marks["${"]) >= 2, "R03.3", cn.qualname, "the tests that "
              "decide whether a static attribute value is computed (and so "
              "quoted / interpolated) all look for '${' -- a value with a "
              "lone '$' stays as written", construct="attr-marker-agrees",
              where=L.where(cn), detail=str(marks))
    # match_tag: value alternatives are folded into 'value'; suffix is what
    # follows the last attribute
    mt = repo.func(PARSER + ".match_tag")
    text = L.text(mt.node)
    for need, what in (
            ("attr['value'] = alt_value", "unquoted value kept as value"),
            ("d['suffix'] = token[m.end():]",
             "suffix is the text after the last attribute"),
            ("token = token[end:]", "attributes are searched after the name")):
        rep.check(need in text, "R03.3", mt.qualname, what,
                  construct="match_tag:" + need[:12], where=L.where(mt))
    # finditer skips text that matches no attribute: the loop has to account
    # for the gaps between consecutive matches (by their start offsets)
    loops = [n for n in ast.walk(mt.node) if isinstance(n, ast.For)
             and "finditer(" in src(n.iter)]
    rep.check(len(loops) == 1, "R03.3", mt.qualname, "attributes are found "
              "by one finditer scan of the tag's tail",
              construct="attr-scan", where=L.where(mt))
    if len(loops) == 1:
        lv = src(loops[0].target)
        # the skipped text is cut out (token[<end of previous>:<start of
        # this match>]) and stored into a field of the attribute
        uses_start = any(
            isinstance(n, ast.Assign) and isinstance(
                n.targets[0], ast.Subscript) and any(
                    isinstance(x, ast.Subscript) and isinstance(
                        x.slice, ast.Slice) and x.slice.upper is not None
                    and src(x.slice.upper) == lv + ".start()"
                    for x in ast.walk(n.value))
            for n in ast.walk(loops[0]))
        if uses_start:
            # ... in source order: the skipped text stands in front of the
            # match, so it is put in front of the field the match starts
            # with (the first group of the attribute pattern), and it begins
            # where the previous match ended
            import re as _re2
            rc_ = repo.const("chameleon.parser", "match_single_attribute")
            gi_ = _re2.compile(rc_.pattern, rc_.flags).groupindex
            first = min(gi_, key=gi_.get)
            okg = False
            gdetail = "no store of the skipped text found"
            for n in ast.walk(loops[0]):
                if not (isinstance(n, ast.Assign) and isinstance(
                        n.targets[0], ast.Subscript)):
                    continue
                v = n.value
                gaps = [x for x in ast.walk(v) if isinstance(
                    x, ast.Subscript) and isinstance(x.slice, ast.Slice)
                    and x.slice.upper is not None
                    and src(x.slice.upper) == lv + ".start()"]
                if not gaps:
                    continue
                fld = n.targets[0].slice
                lo = gaps[0].slice.lower
                init0 = lo is not None and any(
                    isinstance(a_, ast.Assign) and
                    src(a_.targets[0]) == src(lo) and
                    isinstance(a_.value, ast.Constant) and
                    a_.value.value == 0 and a_.lineno < loops[0].lineno
                    for a_ in ast.walk(mt.node))
                lo_ok = lo is not None and init0 and any(
                    isinstance(a_, ast.Assign) and
                    src(a_.targets[0]) == src(lo) and
                    src(a_.value) == lv + ".end()"
                    for a_ in ast.walk(loops[0]))
                # (the gap is cut out of the tag's own text: the token)
                tokprm = mt.node.args.args[0].arg
                okg = src(gaps[0].value) == tokprm and isinstance(
                    v, ast.BinOp) and isinstance(
                    v.op, ast.Add) and v.left is gaps[0] and \
                    src(v.right) == src(n.targets[0]) and isinstance(
                        fld, ast.Constant) and fld.value == first and lo_ok
                gdetail = "%s (first field of a match: %r; gap starts at "\
                          "the previous match's end: %s)" % (
                              src(n)[:90], first, lo_ok)
            rep.check(okg, "R03.3", mt.qualname, "the text between two "
                      "attribute matches is kept where it stands: in front "
                      "of the first field of the following match, from the "
                      "end of the previous one", construct="gap-in-front",
                      where=L.where(mt), detail=gdetail)
        agrees, adetail = unquoted_class_agrees(repo)
        rep.check(uses_start or agrees, "R03.3", mt.qualname,
                  "no text of a tag is skipped by the finditer scan: either "
                  "the scan accounts for where each match starts, or every "
                  "unquoted value the tokenizer admits is matched whole by "
                  "the attribute pattern (no gap can arise)",
                  construct="attribute-gaps", where=L.where(mt),
                  detail="only %s.end() of the last match is used and %s"
                         % (lv, adetail))
        # the prefix pattern's suffix group is optional (an end tag need not
        # be terminated: '</a' + blanks); with no attribute match either,
        # the text after the name has to become the suffix all the same
        inloop = {id(x) for x in ast.walk(loops[0])}
        tail = [n for n in ast.walk(mt.node) if isinstance(n, ast.Assign)
                and id(n) not in inloop
                and src(n.targets[0]) == "d['suffix']"
                and any(isinstance(x, ast.Name) and x.id == "token"
                        for x in ast.walk(n.value))]
        guarded = [n for n in tail if any(
            "suffix" in src(t_) and "None" in src(t_)
            for t_, v_ in L.guards_of(n, mt.node)
            if not isinstance(t_, ast.ExceptHandler))]
        # ... on every way out of the function (an early return for end
        # tags skips it exactly for the tokens it exists for)
        from .. import paths as P_
        around = []
        for pth in P_.enum_paths(mt.node.body):
            if pth[-1][0] not in ("return", "end"):
                continue
            passed = any(e[0] == "cond" and "suffix" in src(e[1]) and
                         "None" in src(e[1]) for e in pth) or any(
                e[0] == "assign" and e[1] == "d['suffix']" and
                id(e[3]) not in inloop for e in pth)
            if not passed:
                around.append(pth[-1][-1].lineno if len(pth[-1]) > 1 else 0)
        if around:
            guarded = []
        rep.check(bool(guarded), "R03.3", mt.qualname, "when neither the "
                  "prefix pattern nor an attribute match supplies a suffix "
                  "(unterminated end tag followed by blanks), the rest of "
                  "the token is the suffix", construct="suffix-total",
                  where=L.where(mt), detail="%d assignment(s) outside the "
                  "attribute loop%s" % (len(tail), "; return at line %s does "
                                        "not pass it" % around if around
                                        else ""))
    # an end tag is dissected by the same function: what it yields as
    # 'attrs' must be emitted or rejected
    used = set()
    for n in ast.walk(vfunc.node):
        if isinstance(n, ast.Subscript) and src(n.value) == "end" and \
                isinstance(n.slice, ast.Constant):
            used.add(n.slice.value)
    # ... unless an end tag token cannot carry any: the tokenizer's EndTagCE
    # is Name, white space, '>' -- attribute-like text after an end tag's
    # name is a text token of its own (and match_tag keeps the blanks,
    # suffix-total above)
    pieces = fold_collector(repo)
    etag, nm = pieces.get("EndTagCE"), pieces.get("Name")
    if etag is None or nm is None:
        raise AnalysisError("tokenizer pieces EndTagCE / Name vanished")
    bare_end = False
    edetail = "EndTagCE %r" % etag
    if etag.startswith(nm):
        tail = rx.all_chars(rx.parse(etag[len(nm):]))
        allowed = rx.in_set([(rx.C.CATEGORY, rx.C.CATEGORY_SPACE)]) | \
            rx.CharSet.of(">")
        bare_end = tail <= allowed
        edetail = "after the name an end tag token holds %s" % tail
    rep.check("attrs" in used or bare_end, "R03.3", vfunc.qualname,
              "attribute-like text inside an end tag is emitted (or "
              "rejected), like every other part of the tag -- or an end tag "
              "token cannot contain any",
              construct="end:attrs-dropped", where=L.where(vfunc),
              detail="the End node is built from %s only; %s" % (
                  sorted(used), edetail))
    for g in ("space", "name", "eq", "quote", "value", "alt_value",
              "simple_value"):
        rep.check(g in anames, "R03.3", PARSER + ".match_single_attribute",
                  "attribute regex captures '%s'" % g, construct="agroup:" + g)
    _eq_grammar(repo, rep)


def unquoted_class_agrees(repo):
    """Every character the tokenizer admits in an unquoted attribute value
    (third alternative of AttValSE) can be consumed by the parser's
    alt_value group: the parser then matches the whole value, and finditer
    has no gap to skip.  -> (ok, detail)"""
    from .. import rx
    import re as _re
    C = rx.C
    res = fold_collector(repo)
    att = res.get("AttValSE")
    if att is None:
        raise AnalysisError("tokenizer piece AttValSE vanished")
    tset = None
    for alt in rx.top_alternatives(rx.parse(att)):
        alt = list(alt)
        if len(alt) == 1 and alt[0][0] in (C.MAX_REPEAT, C.MIN_REPEAT) and \
                alt[0][1][0] >= 1:
            tset = rx.all_chars(alt[0][1][2])
    if tset is None:
        return False, "no unquoted alternative in AttValSE %r" % att
    # ... and the 'Simple' alternative of ElemTagCE (a value that starts
    # with a character AttValSE does not admit; it may even contain blanks)
    etag = res.get("ElemTagCE", "")
    simple = res.get("Simple")
    if simple is not None and simple in etag:
        tset = tset | rx.all_chars(rx.parse(simple))
    rc = repo.const("chameleon.parser", "match_single_attribute")
    pat = rc.pattern if isinstance(rc.pattern, str) else \
        rc.pattern.decode("latin-1")
    gi = _re.compile(pat, rc.flags).groupindex
    loc = rx.locate_group(rx.parse(pat, rc.flags), gi.get("alt_value"))
    if loc is None:
        return False, "no alt_value group"
    body = list(loc[0])
    if not (len(body) == 1 and body[0][0] in (C.MAX_REPEAT, C.MIN_REPEAT)
            and body[0][1][0] >= 1 and body[0][1][1] >= 65535):
        return False, "alt_value is not an unbounded repetition"
    pset = rx.all_chars(body)
    missing = tset - pset
    return not missing, "tokenizer admits %s, parser consumes %s%s" % (
        tset, pset, ", not: %s" % missing if missing else "")


def parser_details(repo, rep, rule="R03.3", slash=False):
    """Value-level obligations of the tag parser:
    * white space in the tag patterns is any white space, and a lazy
      white-space repeat never hands blanks to a captured field;
    * a '/' inside an unquoted value is one that is NOT followed by '>';
    * identify() recognises opening delimiters at the start of the token and
      closing ones at its end; '--' is looked for anywhere in a comment;
    * visit_end_tag counts one per implicitly closed element."""
    from .. import rx
    import re as _re
    C = rx.C
    for cname in ("match_single_attribute", "match_tag_prefix_and_name"):
        rc = repo.const("chameleon.parser", cname)
        probs, counts = L.regex_shape(rc.pattern, rc.flags)
        rep.check(not probs, rule, "chameleon.parser." + cname, "white space "
                  "in the tag pattern: total classes, no lazy repeat in "
                  "front of a field that admits white space",
                  construct="tag-space:" + cname,
                  detail="; ".join(sorted({t for k, t in probs})))
    rcn = repo.const("chameleon.parser", "match_tag_prefix_and_name")
    gin = _re.compile(rcn.pattern, rcn.flags).groupindex
    locn = rx.locate_group(rx.parse(rcn.pattern, rcn.flags), gin["name"])
    csn = rx.all_chars(locn[0]) if locn is not None else None
    rep.check(csn is not None and not any(ch in csn for ch in " \t\n\r")
              and all(ch in csn for ch in "a:-_."), rule,
              "chameleon.parser.match_tag_prefix_and_name", "a tag name "
              "(with its prefix) contains no white space",
              construct="tag-name-class", detail=str(csn))
    rc = repo.const("chameleon.parser", "match_single_attribute")
    gi = _re.compile(rc.pattern, rc.flags).groupindex
    # (the quote of a quoted value is recognised by the pattern -- a group
    # of its own, closed by a back reference --, the unquoted form has its
    # own group: a value that merely begins with a quote character is not
    # taken for a quoted one)
    have_q = {"quote", "value", "alt_value"} <= set(gi) and \
        "(?P=quote)" in rc.pattern
    rep.check(have_q, rule, "chameleon.parser.match_single_attribute",
              "quoted and unquoted attribute values are told apart by the "
              "pattern (groups quote / value / alt_value, closing back "
              "reference)", construct="attribute-quote-by-pattern",
              detail=str(sorted(gi)))
    loc = rx.locate_group(rx.parse(rc.pattern, rc.flags),
                          gi["alt_value"]) if "alt_value" in gi else None
    ok = False
    if loc is not None:
        for it in rx_walk(loc[0]):
            if it[0] is C.BRANCH:
                for alt in it[1][1]:
                    alt = list(alt)
                    if len(alt) == 2 and alt[0][0] is C.LITERAL and \
                            chr(alt[0][1]) == "/" and \
                            alt[1][0] is C.ASSERT_NOT and \
                            alt[1][1][0] == 1 and rx.all_chars(
                                alt[1][1][1]) == rx.CharSet.of(">"):
                        ok = True
    # (a statement-free tag renders the same either way -- text the
    # attribute pattern leaves over is kept --; what a dynamic value
    # replaces differs: the obligation is C07's)
    if slash:
        rep.check(ok, rule, "chameleon.parser.match_single_attribute", "a '/' "
                  "belongs to an unquoted attribute value unless a '>' "
                  "follows it (href=/a/b is one value; <br class=x/> ends "
                  "the tag)", construct="slash-not-before-gt")
    idf = repo.func(PARSER + ".identify")
    bad = []
    n = 0
    for c in ast.walk(idf.node):
        if isinstance(c, ast.Call) and isinstance(c.func, ast.Attribute) \
                and c.func.attr in ("startswith", "endswith") and c.args \
                and isinstance(c.args[0], ast.Constant) and isinstance(
                    c.args[0].value, str):
            v = c.args[0].value
            n += 1
            if v.startswith("<") and c.func.attr != "startswith":
                bad.append("%r is looked for at the end" % v)
            if v.endswith(">") and not v.startswith("<") and \
                    c.func.attr != "endswith":
                bad.append("%r is looked for at the start" % v)
    hy = [c for c in ast.walk(idf.node) if isinstance(c, ast.Call)
          and isinstance(c.func, ast.Attribute)
          and src(c.func.value) == "match_double_hyphen"]
    if not hy or any(c.func.attr != "search" for c in hy):
        bad.append("'--' is not searched for in the whole comment (%s)"
                   % [c.func.attr for c in hy])
    if n < 5:
        raise AnalysisError("identify(): delimiter tests vanished (%d)" % n)
    rep.check(not bad, rule, idf.qualname, "token "
              "classification: opening delimiters at the start, closing "
              "ones at the end, '--' anywhere in a comment (%d tests)" % n,
              construct="identify-ends", where=L.where(idf),
              detail="; ".join(bad))
    # ... and each delimiter names its own kind of token (the kind selects
    # the visitor: a CDATA section taken for a comment is interpolated and
    # escaped like one, an XML declaration taken for CDATA is no tag)
    kinds = {"<!--": "comment", "<![CDATA[": "cdata", "<!": "declaration",
             "<?xml": "xml_declaration", "<?": "processing_instruction",
             "</": "end_tag", "/>": "empty_tag", ">": "start_tag"}
    got = {}
    for n_ in ast.walk(idf.node):
        if isinstance(n_, ast.If) and isinstance(n_.test, ast.Call) and \
                isinstance(n_.test.func, ast.Attribute) and \
                n_.test.func.attr in ("startswith", "endswith") and \
                n_.test.args and isinstance(n_.test.args[0], ast.Constant):
            rets = [r_ for r_ in n_.body if isinstance(r_, ast.Return)]
            if rets and isinstance(rets[-1].value, ast.Constant):
                got[n_.test.args[0].value] = rets[-1].value.value
    wrong = {k: got.get(k) for k, v in kinds.items() if got.get(k) != v}
    rep.check(not wrong, rule, idf.qualname, "every delimiter classifies "
              "its token as its own kind (%d delimiters)" % len(kinds),
              construct="identify-kinds", where=L.where(idf),
              detail=str(wrong) if wrong else "")
    ve = repo.cls(PARSER + ".ElementParser").methods["visit_end_tag"]
    incs = [a for a in ast.walk(ve.node) if isinstance(a, ast.AugAssign)
            and isinstance(a.op, ast.Add)]
    rep.check(len(incs) == 1 and isinstance(incs[0].value, ast.Constant)
              and incs[0].value.value == 1, rule, ve.qualname, "each "
              "implicitly closed start tag counts one (its namespace map "
              "is dropped with it)", construct="unclosed-counts-one",
              where=L.where(ve), detail=str([src(a) for a in incs]))


def rx_walk(items):
    from .. import rx
    C = rx.C
    for op, av in items:
        yield (op, av)
        if op is C.SUBPATTERN:
            yield from rx_walk(av[3])
        elif op in (C.MAX_REPEAT, C.MIN_REPEAT):
            yield from rx_walk(av[2])
        elif op is C.BRANCH:
            for alt in av[1]:
                yield from rx_walk(alt)


def _pi_compare(repo, rep):
    """XML names are case sensitive: the target of a processing instruction
    is compared with 'python' as it is written."""
    vp = repo.func(PROG + "visit_processing_instruction")
    cmps = [c for c in ast.walk(vp.node) if isinstance(c, ast.Compare)
            and any(isinstance(x, ast.Constant) and x.value == "python"
                    for x in [c.left] + c.comparators)]
    ok = bool(cmps)
    for c in cmps:
        other = [x for x in [c.left] + c.comparators
                 if not isinstance(x, ast.Constant)]
        if len(c.ops) != 1 or not isinstance(c.ops[0], (ast.Eq, ast.NotEq)) \
                or any(isinstance(y, ast.Call) for x in other
                       for y in ast.walk(L.inline_locals(vp.node, x))):
            ok = False
    rep.check(ok, "R03.3", vp.qualname, "a processing instruction is a code "
              "block when its target equals 'python' as written (no case "
              "folding, no prefix test)", construct="pi-target-compare",
              where=L.where(vp), detail=str([src(c) for c in cmps]))


def _pi_target(repo, rep):
    """A processing instruction is a code block only if its target IS
    'python': the pattern's name group takes the whole target -- every name
    character of XML ('-', '.', ':' besides letters, digits and '_') -- so
    that <?python-config ...?> or <?python.x?> are reproduced as written."""
    from .. import rx
    import re as _re
    C = rx.C
    rc = repo.const("chameleon.parser", "match_processing_instruction")
    pat = rc.pattern if isinstance(rc.pattern, str) else \
        rc.pattern.decode("latin-1")
    gi = _re.compile(pat, rc.flags).groupindex
    loc = rx.locate_group(rx.parse(pat, rc.flags), gi.get("name"))
    if loc is None:
        raise AnalysisError("match_processing_instruction: no name group")
    body = list(loc[0])
    ok = len(body) == 1 and body[0][0] is C.MAX_REPEAT and \
        body[0][1][0] >= 1 and body[0][1][1] >= 65535
    cs = rx.all_chars(body)
    # (... and the name characters beyond ASCII that \\w does not know but
    # XML -- and Python, at the start of an identifier -- does: U+2118,
    # U+212E, U+00B7)
    need = rx.CharSet.of("abcxyzABCXYZ0189_-.:\u2118\u212e\u00b7")
    missing = need - cs
    rep.check(ok and not missing, "R03.3",
              "chameleon.parser.match_processing_instruction",
              "the name of a processing instruction is its whole target "
              "(greedy, all XML name characters): only the target 'python' "
              "itself is a code block", construct="pi-target-whole",
              detail="name characters not admitted: %s" % (missing,))


def _eq_grammar(repo, rep):
    """Eq ::= S? '=' S?  -- any amount of white space on either side of '='
    belongs to the captured 'eq' field (the tokenizer accepts it; a bounded
    repeat would make finditer resume in the middle of the attribute)."""
    from .. import rx
    import re as _re
    C = rx.C
    rc = repo.const("chameleon.parser", "match_single_attribute")
    pat = rc.pattern if isinstance(rc.pattern, str) else \
        rc.pattern.decode("latin-1")
    try:
        gi = _re.compile(pat, rc.flags).groupindex
    except _re.error as exc:
        raise AnalysisError("attribute regex does not compile: %s" % exc)

    def find(items, gid):
        for op, av in items:
            if op is C.SUBPATTERN:
                if av[0] == gid:
                    return list(av[3])
                r = find(av[3], gid)
                if r is not None:
                    return r
            elif op in (C.MAX_REPEAT, C.MIN_REPEAT):
                r = find(av[2], gid)
                if r is not None:
                    return r
            elif op is C.BRANCH:
                for alt in av[1]:
                    r = find(alt, gid)
                    if r is not None:
                        return r
        return None
    body = find(list(rx.parse(pat, rc.flags)), gi.get("eq"))

    def spaces(it):
        if it[0] not in (C.MAX_REPEAT,):
            return False
        lo, hi, b = it[1]
        b = list(b)
        return lo == 0 and hi >= 65535 and len(b) == 1 and \
            b[0][0] is C.IN and any(o is C.CATEGORY and "SPACE" in str(a)
                                    for o, a in b[0][1])
    # a value-less attribute is one that is *not* followed by white space
    # and '=': the look-ahead's class must be white space -- in a raw string
    # '[ \\n\\t\\r]' is the letters n, t, r and the backslash
    sv = find(list(rx.parse(pat, rc.flags)), gi.get("simple_value"))
    okl = False
    detail_l = str(sv)[:120]
    if sv and sv[0][0] is C.ASSERT_NOT:
        inner = list(sv[0][1][1])
        if len(inner) == 2 and inner[0][0] is C.MAX_REPEAT and \
                inner[1] == (C.LITERAL, ord("=")):
            b = list(inner[0][1][2])
            if len(b) == 1 and b[0][0] is C.IN:
                cs = rx.in_set(b[0][1])
                ws = rx.in_set([(C.CATEGORY, C.CATEGORY_SPACE)])
                need = rx.CharSet.of(" \n\t\r")
                okl = (cs <= ws) and (need <= cs)
                detail_l = "look-ahead class %s" % cs
    rep.check(okl, "R03.3", PARSER + ".match_single_attribute", "the "
              "look-ahead that tells a value-less attribute from 'name =' "
              "skips white space only (and at least blank, newline, tab, "
              "CR): an attribute name is never cut because of the letters "
              "that follow it", construct="simple-value-lookahead",
              detail=detail_l)
    ok = body is not None and len(body) == 3 and spaces(body[0]) and \
        body[1] == (C.LITERAL, ord("=")) and spaces(body[2])
    rep.check(ok, "R03.3", PARSER + ".match_single_attribute",
              "the 'eq' field is white space (any amount), '=', white space "
              "(any amount)", construct="eq-grammar", detail=str(body)[:160])


def _no_overlap(rep, f, groups, nest, what):
    for g in groups:
        inside = [a for a in nest.get(g, []) if a in groups]
        rep.check(not inside, "R03.3", f.qualname,
                  "%s tag: field '%s' is not emitted together with the "
                  "enclosing captured group (text would be doubled)" % (
                      what, g), construct="%s-overlap:%s" % (what, g),
                  where=L.where(f),
                  detail="'%s' is a sub-group of %s and both are emitted" % (
                      g, inside))


def _verbatim(repo, rep):
    def val(name):
        return L.emission(repo, PROG + name).value
    f = repo.func(PROG + "visit_default")
    rep.check(A.show(val("visit_default")) == "nodes.Text(node)", "R03.4",
              f.qualname, "declarations, doctype and unknown tokens become "
              "Text(token)", construct="default", where=L.where(f),
              detail=A.show(val("visit_default")))
    v = val("visit_cdata")
    ok = isinstance(v, A.Alt) and A.show(v.a) == "nodes.Text(node)" and \
        "'${' not in node" in v.test
    rep.check(ok, "R03.4", PROG + "visit_cdata",
              "a CDATA section without ${ is Text(token)", construct="cdata",
              detail=A.show(v, limit=2)[:120])
    v = val("visit_comment")
    texts = []

    def leaves(x, conds):
        if isinstance(x, A.Alt):
            leaves(x.a, conds + [x.test])
            leaves(x.b, conds + ["not(%s)" % x.test])
        else:
            texts.append((conds, x))
    leaves(v, [])
    plain = [x for c, x in texts if A.show(x) == "nodes.Text(node)"]
    dropped = [c for c, x in texts if A.show(x) == "None"]
    rep.check(len(plain) >= 2, "R03.4", PROG + "visit_comment",
              "an ordinary comment (no ${, or interpolation off) is "
              "Text(token)", construct="comment", detail=str(len(plain)))
    rep.check(len(dropped) == 1 and "'<!--!'" in dropped[0][0], "R03.4",
              PROG + "visit_comment", "only <!--! comments are dropped",
              construct="comment-drop", detail=str(dropped))
    # compiler.visit_Text
    f = repo.func(COMP + "visit_Text")
    r = L.emission(repo, f.qualname)
    rep.check(A.show(r.out) == "[EmitText(node.value)]", "R03.4", f.qualname,
              "Text emits its value unchanged", construct="emit-text",
              where=L.where(f), detail=A.show(r.out))
    # every attribute written on a tag is kept, also one whose name repeats
    # (in another case): the only thing the first loop of the attribute
    # preparation leaves out are the names to be dropped
    pa = repo.func("chameleon.tal.prepare_attributes")
    first = next((lp for lp in pa.node.body if isinstance(lp, ast.For)), None)
    skips = [c_ for c_ in ast.walk(first) if isinstance(c_, ast.Continue)] \
        if first is not None else []
    oks = first is not None
    for c_ in skips:
        g_ = [src(t_) for t_, v_ in L.guards_of(c_, first)
              if isinstance(t_, ast.expr)]
        if not any("drop" in x for x in g_):
            oks = False
    rep.check(oks, "R03.4", pa.qualname, "no static attribute is left out "
              "of the prepared list except the names to be dropped",
              construct="static-attributes-all-kept", where=L.where(pa))
    # an end tag is written from its pieces as they were read: nothing is
    # put in for a piece that is empty (an end tag cut off behind its name
    # has the empty suffix, and stays cut off)
    f = repo.func(COMP + "visit_End")
    ems = [c for c in ast.walk(f.node) if isinstance(c, ast.Call)
           and src(c.func) == "EmitText" and c.args]
    oke = bool(ems)
    for c in ems:
        e = L.inline_locals(f.node, c.args[0])
        parts = []
        todo = [e]
        while todo:
            x = todo.pop()
            if isinstance(x, ast.BinOp) and isinstance(x.op, ast.Add):
                todo += [x.left, x.right]
            else:
                parts.append(x)
        if not all(isinstance(x, ast.Attribute) and src(x.value) == "node"
                   for x in parts):
            oke = False
    rep.check(oke, "R03.4", f.qualname, "an end tag is emitted as the sum "
              "of its recorded pieces and nothing else",
              construct="end-tag-verbatim", where=L.where(f),
              detail="; ".join(src(c.args[0]) for c in ems))
    # _maybe_trim
    f = repo.func(PROG + "_maybe_trim")
    v = L.emission(repo, f.qualname).value
    ok = isinstance(v, A.Alt) and v.test == "self.trim_attribute_space" and \
        A.show(v.b) == "string"
    rep.check(ok, "R03.4", f.qualname, "tag text is altered only under "
              "trim_attribute_space", construct="trim", where=L.where(f),
              detail=A.show(v, limit=2))
    # processing instructions other than <?python are re-assembled
    f = repo.func(PROG + "visit_processing_instruction")
    text = L.text(f.node)
    assembled = any(
        isinstance(n, ast.BinOp) and src(L.inline_locals(f.node, n)).replace(
            " ", "") == "'<?'+node['name']+node['text']+'?>'"
        for n in ast.walk(f.node))
    rep.check(assembled, "R03.4",
              f.qualname, "a foreign processing instruction is re-assembled "
              "from all of its captured parts", construct="pi",
              where=L.where(f))
    # (what is handed on is the re-assembled text, carrying the position,
    # source and file name of the instruction's own name token)
    fpi = repo.func(PROG + "visit_processing_instruction")
    vt = [c for c in ast.walk(fpi.node) if isinstance(c, ast.Call)
          and src(c.func) == "self.visit_text"]
    tk = [c for c in ast.walk(fpi.node) if isinstance(c, ast.Call)
          and src(c.func) == "Token" and len(c.args) == 4]
    rep.check(bool(vt) and all(c.args and src(c.args[0]) == "text"
                               for c in vt) and bool(tk) and all(
        src(c.args[0]) == "text" and src(c.args[2]) == "name.source" and
        src(c.args[3]) == "name.filename" and
        src(c.args[1]).startswith("name.pos") for c in tk), "R03.4",
        fpi.qualname, "the re-assembled instruction is what is emitted, as "
        "a token of the name token's source and file",
        construct="pi-text-emitted", where=L.where(fpi))
    # ... and it is handed on: neither the parser's nor the program's
    # visitor of processing instructions has an exit without a value (a
    # visitor that returns nothing drops the token from the document)
    for fq in (PARSER + ".ElementParser.visit_processing_instruction",
               PROG + "visit_processing_instruction"):
        fp = repo.func(fq)
        rets = [r_ for r_ in ast.walk(fp.node) if isinstance(r_, ast.Return)]
        ends_ret = bool(fp.node.body) and isinstance(fp.node.body[-1],
                                                     (ast.Return, ast.Raise))
        rep.check(bool(rets) and ends_ret and not any(
            r_.value is None or (isinstance(r_.value, ast.Constant)
                                 and r_.value.value is None) for r_ in rets),
            "R03.4", fp.qualname, "every exit of the processing-instruction "
            "visitor hands a node on", construct="pi-returned",
            where=L.where(fp))
    # Compiler.visit joins adjacent EmitText without loss
    f = repo.func(COMP + "visit")
    text = L.text(f.node)
    rep.check("join((node.s for node in nodes))" in text.replace(
        "join(node.s for node in nodes)", "join((node.s for node in nodes))"),
        "R03.4", f.qualname, "adjacent text emissions are concatenated in "
        "order", construct="join", where=L.where(f))


def _newlines(repo, rep):
    f = repo.func("chameleon.zpt.template.PageTemplate.parse")
    site = f.qualname
    rewrites = []
    for n in ast.walk(f.node):
        if isinstance(n, ast.Assign) and src(n.targets[0]) == "body":
            rewrites.append(n)
    rep.check(len(rewrites) == 1, "R03.5", site,
              "the template source is rewritten at most once before it is "
              "tokenised", construct="rewrites", where=L.where(f),
              detail=str([src(r) for r in rewrites]))
    for r in rewrites:
        ok = src(r.value) == "body.replace('\\r\\n', '\\n').replace('\\r', " \
                             "'\\n')"
        rep.check(ok, "R03.5", site, "the rewrite is CRLF/CR -> LF",
                  construct="newline-rewrite", where=L.where(f, r.lineno),
                  detail=src(r.value))
        gs = [(src(t), v) for t, v in L.guards_of(r, f.node)
              if not isinstance(t, ast.ExceptHandler)]
        rep.check(len(gs) == 1 and L.cond_holds(
            gs, "self.content_type != 'text/xml'", True), "R03.5", site,
            "newlines are normalised outside XML mode, always and only "
            "there (the mode is the one condition on the rewrite)",
            construct="newline-guard", where=L.where(f, r.lineno),
            detail=str(gs))
