"""C12 -- render errors keep their type and name the failing expression and
position."""
from __future__ import annotations

import ast

from .. import absint as A
from .. import lib as L
from .. import paths as P
from ..core import AnalysisError, src

COMP = "chameleon.compiler."
CC = COMP + "Compiler."
BT = "chameleon.template.BaseTemplate."


def run(repo, rep, tier):
    rep.explanation = (
        "How a render error is reported is fixed by (1) where the compiler "
        "plants 'token references' (an assignment __token = <offset>) "
        "relative to the code that evaluates an expression, (2) which string "
        "the recorded (offset, length) pairs are re-sliced from, (3) the "
        "handler that every render function installs, and (4) the handler "
        "in BaseTemplate.render that decorates the exception.  All four are "
        "code shapes: a token reference is inserted at position 0 of every "
        "expression's statements; the source handed to the compiler must be "
        "the text the program tokenised (def-use across parse/_compile/"
        "ElementProgram); the per-function handler appends "
        "(text, line, column, filename, exc) and re-raises with a bare "
        "raise; render() lets RecursionError through first, decorates only "
        "Exceptions, and returns the joined stream only on the normal path; "
        "create_formatted_exception derives from (original class, "
        "RenderError) and copies args and __dict__.")
    rep.assumptions = [
        "the text of the source marker lines under a frame is not decided",
        "entity-decoded expression text changes the recorded extent (known "
        "finding, see R12.2b)",
    ]
    rep.rule("R12.1", "a token reference precedes every expression "
                      "evaluation; adjacent references keep the last; "
                      "internal macro calls clear it")
    rep.rule("R12.2", "source identity: the compiler re-slices recorded "
                      "offsets from the text that was tokenised")
    rep.rule("R12.2b", "extent faithfulness: the token a reference is taken "
                       "from has not passed a content-changing step")
    rep.rule("R12.3", "RecursionError passes through; only Exceptions are "
                      "re-typed")
    rep.rule("R12.4", "per-function handler records the failing site and "
                      "re-raises; no partial output is returned")
    rep.rule("R12.5", "the decorated exception is an instance of the "
                      "original class with the original args")
    rep.rule("R12.6", "message layout: every recorded frame contributes its "
                      "Expression, Filename and Location lines on every path "
                      "through the formatter's loop, frames in recorded "
                      "order")
    _tokenrefs(repo, rep)
    _layout(repo, rep)
    _handled(repo, rep)
    _formatter_total(repo, rep)
    _source_identity(repo, rep)
    _extent(repo, rep)
    _rebuilt(repo, rep)
    _reopen(repo, rep)
    _retype(repo, rep)
    _handler(repo, rep)
    _functions(repo, rep)
    _formatted(repo, rep)
    # 'the line and column at which that text stands': the message takes
    # them from Token.location (C11 owns its closed form)
    from . import c11
    L.borrow(repo, rep, "R12.6", "C11", c11._location,
             ("location-line", "location-column", "location-pair"),
             minimum=3)
    # a string expression keeps the position of its text (C04 owns it)
    from . import c04 as _c04
    L.borrow(repo, rep, "R12.2", "C04", _c04.tales_details,
             ("token-rewrap-guard", "slice-one-group"), minimum=2)
    vi = repo.func("chameleon.compiler.ExpressionTransform."
                   "visit_Interpolation")
    gcs = [c for c in ast.walk(vi.node) if isinstance(c, ast.Call)
           and src(c.func).endswith(".get_compiler")]
    gc_def = repo.func("chameleon.compiler.ExpressionEngine.get_compiler")
    pnames = [x.arg for x in gc_def.node.args.args][1:]
    okh = bool(gcs) and "handle_errors" in pnames
    for c in gcs:
        given = dict(zip(pnames, c.args))
        given.update({k.arg: k.value for k in c.keywords if k.arg})
        h = given.get("handle_errors")
        if not (isinstance(h, ast.Constant) and h.value is True):
            okh = False
    rep.check(okh, "R12.1", vi.qualname, "the compiler of a ${...} text "
              "records its token (handle_errors=True): a failure inside the "
              "interpolation machinery itself is located",
              construct="interpolation-handles-errors", where=L.where(vi))
    # a template pulled in through load: / use-macro is re-read when it
    # changed, like the one that pulled it in: it inherits the options
    # (C16 owns the loader)
    from . import c16 as _c16
    L.borrow(repo, rep, "R12.2", "C16", _c16._loader, ("config-undivided",))
    # the engine hands the expression's own text and its settings on to the
    # compiler in their places; the copy of an exception is allocated as an
    # instance of the decorated class
    pf = repo.func("chameleon.compiler.ExpressionEngine.parse")
    gc_ = [c for c in ast.walk(pf.node) if isinstance(c, ast.Call)
           and src(c.func) == "self.get_compiler"]
    rep.check(bool(gc_) and all(
        [src(a) for a in c.args] == ["expression", "string", "handle_errors",
                                     "char_escape"] for c in gc_), "R12.1",
        pf.qualname, "parse() passes (expression, string, handle_errors, "
        "char_escape) to the compiler factory in this order",
        construct="parse-forwards", where=L.where(pf))
    cf = repo.func("chameleon.utils.create_formatted_exception")
    made_ = {src(a_.targets[0]) for a_ in ast.walk(cf.node)
             if isinstance(a_, ast.Assign) and isinstance(a_.value, ast.Call)
             and src(a_.value.func) == "type" and len(a_.value.args) == 3}
    alloc_ = {a_.targets[0].id for a_ in ast.walk(cf.node)
              if isinstance(a_, ast.Assign)
              and isinstance(a_.targets[0], ast.Name)
              and "__new__" in src(a_.value)}
    al = [c for c in ast.walk(cf.node) if isinstance(c, ast.Call) and (
        isinstance(c.func, ast.Name) and c.func.id in alloc_ or
        isinstance(c.func, ast.Attribute) and c.func.attr == "__new__")]
    rep.check(len(al) >= 2 and bool(made_) and all(
        c.args and src(c.args[0]) in made_ for c in al), "R12.5",
        cf.qualname,
              "both allocations make an instance of the decorated class",
              construct="allocated-as-decorated-class", where=L.where(cf))
    L.state_rule(repo, rep)


def _tokenrefs(repo, rep):
    f = repo.func(COMP + "ExpressionEngine.get_compiler")
    inner = [n for n in ast.walk(f.node) if isinstance(n, ast.FunctionDef)
             and n is not f.node]
    if not inner:
        raise AnalysisError("get_compiler has no inner compiler function")
    comp = inner[0]
    ins = [n for n in ast.walk(comp) if isinstance(n, ast.Call)
           and src(n.func) == "stmts.insert"]
    ok = len(ins) == 1 and isinstance(ins[0].args[0], ast.Constant) and \
        ins[0].args[0].value == 0 and \
        src(ins[0].args[1]).startswith("TokenRef(")
    rep.check(ok, "R12.1", f.qualname, "the token reference is inserted at "
              "position 0 of the expression's statements (before anything "
              "of it is evaluated)", construct="tokenref-first",
              where=L.where(f), detail=str([src(i) for i in ins]))
    if ok:
        arg = ins[0].args[1].args[0]
        rep.check(src(arg) == "string.strip()", "R12.1",
                  f.qualname, "the reference is taken from the expression's "
                  "own text, without the blanks around it (the reported "
                  "column is that of the expression)",
                  construct="tokenref-token", where=L.where(f),
                  detail=src(arg))
        guard = getattr(ins[0], "_parent", None)
        while guard is not None and not isinstance(guard, ast.If):
            guard = getattr(guard, "_parent", None)
        rep.check(guard is not None and "isinstance(string, Token)" in
                  src(guard.test) and "handle_errors" in src(guard.test),
                  "R12.1", f.qualname, "every expression that comes from "
                  "template text (a Token) gets a reference unless error "
                  "handling is switched off (exists:)",
                  construct="tokenref-guard", where=L.where(f))
        last = comp.body[-1]
        rep.check(isinstance(last, ast.Return) and src(last.value) == "stmts",
                  "R12.1", f.qualname, "the statements with the reference "
                  "are what the compiler returns", construct="tokenref-ret",
                  where=L.where(f))
    # handle_errors defaults to True in parse()
    pf = repo.func(COMP + "ExpressionEngine.parse")
    d = pf.node.args.defaults
    names = [a.arg for a in pf.node.args.args]
    hv = None
    if "handle_errors" in names:
        i = names.index("handle_errors") - (len(names) - len(d))
        if i >= 0:
            hv = d[i]
    rep.check(isinstance(hv, ast.Constant) and hv.value is True, "R12.1",
              pf.qualname, "error handling (token references) is on by "
              "default", construct="handle-errors-default", where=L.where(pf))
    # other evaluation sites
    for name, what in (("visit_UseExternalMacro", "node.expression.value"),
                       ("visit_CodeBlock", "node.source")):
        g = repo.func(CC + name)
        r = L.emission(repo, g.qualname)
        lin = L.Lin(r.emission)
        refs = [i for i, (it, c, p) in enumerate(lin.rows)
                if isinstance(it, A.Internal) and it.kind == "TokenRef"]
        ok = len(refs) == 1 and A.show(lin.item(refs[0]).args[0]) == what
        rep.check(ok, "R12.1", g.qualname, "%s plants a reference to %s" % (
            name, what), construct="tokenref:" + name, where=L.where(g))
        if ok and name == "visit_UseExternalMacro":
            call = lin.index(lambda it: isinstance(it, A.Frag) and bool(
                L.frag_find(it, "__m = __macro.include")))
            rep.check(0 <= refs[0] < call, "R12.1", g.qualname,
                      "the reference precedes the call of the macro",
                      construct="tokenref-before-call", where=L.where(g))
            ev = lin.index(lambda it: isinstance(it, A.Eval))
            rep.check(0 <= ev < refs[0], "R12.1", g.qualname,
                      "the reference to the whole use-macro expression is "
                      "planted after the expression was evaluated (before "
                      "it, it would be merged with the expression's own "
                      "leading reference and the call site would be lost)",
                      construct="tokenref-after-eval", where=L.where(g))
        if ok and name == "visit_CodeBlock":
            rep.check(refs[0] == 0, "R12.1", g.qualname, "the reference "
                      "precedes the code block", construct="tokenref-block",
                      where=L.where(g))
    # Compiler.visit: last of adjacent refs
    v = repo.func(CC + "visit")
    text = L.text(v.node)
    rep.check("if key is TokenRef: nodes = [nodes[-1]]" in text, "R12.1",
              v.qualname, "of adjacent references the last one (the "
              "innermost expression about to run) is kept",
              construct="tokenref-last", where=L.where(v))
    # UseInternalMacro clears the token
    g = repo.func(CC + "visit_UseInternalMacro")
    r = L.emission(repo, g.qualname)
    lin = L.Lin(r.emission)
    reset = lin.index(lambda it: isinstance(it, A.Frag) and bool(
        L.frag_find(it, "__token = None")))
    call = lin.index(lambda it: isinstance(it, A.Frag) and bool(
        L.frag_find(it, "_F(__stream, econtext.copy(), rcontext, "
                        "__i18n_domain, __i18n_context, target_language)",
                    "expr")))
    rep.check(0 <= reset < call, "R12.1", g.qualname, "an internal macro "
              "call clears the caller's token first (the callee's own site "
              "is reported, the caller adds none)", construct="token-reset",
              where=L.where(g))
    # Generator.visit_TokenRef
    init = repo.func(CC + "__init__")
    vt = [n for n in ast.walk(init.node) if isinstance(n, ast.FunctionDef)
          and n.name == "visit_TokenRef"]
    ok = False
    if vt:
        t = L.text(vt[0])
        ok = "self.tokens.append((node.token.pos, len(node.token)))" in t \
            and "ast.Assign([store('__token')], ast.Constant(node.token.pos))" \
            in t
    rep.check(ok, "R12.1", init.qualname + ".Generator.visit_TokenRef",
              "a reference becomes '__token = <offset>' and records "
              "(offset, length) for the module's token table",
              construct="tokenref-codegen", where=L.where(init))
    rep.count("functions_interpreted", 3)


def _source_identity(repo, rep, rule="R12.2"):
    """R12.2: def-use of the source text across parse / _compile / program"""
    comp = repo.func(BT + "_compile")
    calls = [n for n in ast.walk(comp.node) if isinstance(n, ast.Call)
             and src(n.func) == "Compiler"]
    if len(calls) != 1:
        raise AnalysisError("_compile: Compiler(...) call not found")
    c = calls[0]
    # positional: engine_factory, node, filename, source
    source_arg = c.args[3] if len(c.args) > 3 else None
    for k in c.keywords:
        if k.arg == "source":
            source_arg = k.value
    if source_arg is None:
        raise AnalysisError("_compile: source argument not found")
    # which parse implementations rewrite their parameter before tokenising?
    rewriters = []
    for ci in repo.classes.values():
        m = ci.methods.get("parse")
        if m is None or ci.module.name not in ("chameleon.template",
                                               "chameleon.zpt.template"):
            continue
        params = [a.arg for a in m.node.args.args[1:]]
        for n in ast.walk(m.node):
            if isinstance(n, ast.Assign) and params and \
                    src(n.targets[0]) == params[0]:
                rewriters.append((m, n))
    rep.count("parse_implementations_rewriting_source", len(rewriters))
    uses_program_source = "program" in src(source_arg) and \
        "source" in src(source_arg)
    if rewriters:
        m, n = rewriters[0]
        rep.check(uses_program_source, rule, comp.qualname,
                  "%s rewrites its copy of the source (line %d: %s), so the "
                  "compiler must re-slice from the text the program "
                  "tokenised, not from the caller's string" % (
                      m.qualname, n.lineno, src(n)[:50]),
                  construct="compiler-source", where=L.where(comp, c.lineno),
                  detail="Compiler(source=%s)" % src(source_arg))
    else:
        rep.ok(rule, comp.qualname, "no parse() implementation rewrites "
               "the source: caller's string == tokenised string")
    if uses_program_source:
        ep = repo.func("chameleon.program.ElementProgram.__init__")
        stored = tok = None
        reassigned = []
        for st in ep.node.body:
            for n in ast.walk(st):
                if isinstance(n, ast.Assign):
                    t = src(n.targets[0])
                    if t == "self.source":
                        stored = (n.lineno, src(n.value))
                    if t == "source":
                        reassigned.append(n.lineno)
                if isinstance(n, ast.Call) and src(n.func) == "tokenizer":
                    tok = (n.lineno, src(n.args[0]) if n.args else "")
        ok = stored is not None and tok is not None and \
            stored[1] == tok[1] == "source" and not any(
                min(stored[0], tok[0]) <= r <= max(stored[0], tok[0])
                for r in reassigned)
        rep.check(ok, rule, ep.qualname, "the program records exactly the "
                  "string it hands to the tokenizer", construct="program-source",
                  where=L.where(ep), detail="stored=%s tokenised=%s" % (
                      stored, tok))
    # Compiler re-slices from its source parameter with the recorded pairs
    init = repo.func(CC + "__init__")
    text = L.text(init.node)
    rep.check("Token(source[pos:pos + length], pos, source)" in text and
              "in generator.tokens" in text, rule,
              init.qualname, "the token table is built by slicing "
              "source[offset:offset+length] for every recorded reference",
              construct="token-table", where=L.where(init))
    rep.check("(token,) + token.location" in text, rule, init.qualname,
              "each entry is (text, line, column) of that slice",
              construct="token-entry", where=L.where(init))


def _extent(repo, rep):
    """R12.2b: statement values and ${} candidates are entity-decoded
    (Token.replace keeps pos, changes length) before the reference is made."""
    sites = []
    ve = repo.func("chameleon.zpt.program.MacroProgram.visit_element")
    for n in ast.walk(ve.node):
        if isinstance(n, ast.Assign) and \
                "decode_htmlentities(encoded)" in src(n.value) and \
                src(n.targets[0]).startswith("ns["):
            sites.append((ve, n, "statement-values"))
    ip = repo.func(COMP + "Interpolator.__call__")
    for n in ast.walk(ip.node):
        if isinstance(n, ast.Assign) and src(n.targets[0]) == "string" and \
                "decode_htmlentities(string)" in src(n.value):
            sites.append((ip, n, "interpolation-candidate"))
    dh = repo.func("chameleon.utils.decode_htmlentities")
    text = L.text(dh.node, body_only=True)
    keeps_pos_only = "string.replace(string, decoded)" in text
    for f, n, what in sites:
        rep.check(not keeps_pos_only, "R12.2b", f.qualname,
                  "the expression text a reference is made from has its "
                  "source extent (entity decoding before the reference "
                  "shortens it: the reported excerpt is cut)",
                  construct="decoded-before-ref:" + what,
                  where=L.where(f, n.lineno), detail=src(n)[:90])
    # same kind, other step: ';;' is un-doubled in every part that
    # split_parts returns -- each escape makes the part one character shorter
    # than its extent in the source, and the excerpt is cut by that much
    sp = repo.func("chameleon.tal.split_parts")
    shortens = [n for n in ast.walk(sp.node) if isinstance(n, ast.Call)
                and isinstance(n.func, ast.Attribute)
                and n.func.attr == "replace" and len(n.args) == 2
                and all(isinstance(a, ast.Constant) for a in n.args)
                and isinstance(n.args[0].value, str)
                and len(n.args[0].value) != len(n.args[1].value)]
    rep.check(not shortens, "R12.2b", sp.qualname, "the parts of a statement "
              "keep their source extent (the ';;' escape is un-doubled "
              "without shortening the text a reference is made from)",
              construct="unescaped-before-ref:split-parts",
              where=L.where(sp, shortens[0].lineno if shortens else None),
              detail=src(shortens[0])[:80] if shortens else "")
    # ... and no text is shortened *before* it is cut into parts: the parts
    # are slices of the argument, or the pieces of a split of the argument
    # itself -- a replace of unequal length in front of the split moves
    # every later part to the left of where it stands in the source
    moved = []
    for n in ast.walk(sp.node):
        if isinstance(n, ast.Call) and isinstance(n.func, ast.Attribute) \
                and n.func.attr in ("split", "rsplit", "partition",
                                    "rpartition", "splitlines"):
            recv = L.inline_locals(sp.node, n.func.value)
            for c_ in ast.walk(recv):
                if isinstance(c_, ast.Call) and isinstance(
                        c_.func, ast.Attribute) and \
                        c_.func.attr == "replace" and len(c_.args) >= 2 and \
                        all(isinstance(a, ast.Constant) and
                            isinstance(a.value, str) for a in c_.args[:2]) \
                        and len(c_.args[0].value) != len(c_.args[1].value):
                    moved.append(n)
    rep.check(not moved, "R12.2b", sp.qualname, "the statement is cut into "
              "parts as written (nothing of unequal length is substituted "
              "before the cut: later parts keep their source position)",
              construct="shortened-before-split",
              where=L.where(sp, moved[0].lineno if moved else None),
              detail=src(moved[0])[:80] if moved else "")
    rep.require_min("R12.2b", 3, "statement values, ${} candidates, parts")
    # the file name reported in a frame is the constant __filename of the
    # compiled module: a module may be reused from the cache only for the
    # very same path
    from .c15 import full_path_in_key
    okp, shown = full_path_in_key(repo)
    dg = repo.func(BT + "digest")
    rep.check(okp, "R12.2", dg.qualname, "the module cache key carries the "
              "template's complete path, so a cached module's __filename is "
              "the file the failing expression stands in",
              construct="filename-in-key", where=L.where(dg),
              detail=str(shown)[:200])
    # whatever it does to the extent, the decoder must hand back a Token:
    # every return value is the argument itself or the result of a method
    # that Token overrides, called on the argument (a plain str has no
    # position: no reference is emitted and the failure is attributed to
    # the previously evaluated expression)
    tok = repo.cls("chameleon.tokenize.Token")
    keeps = set(tok.methods) - {"__new__", "__init__", "__getitem__",
                                "location"}
    param = dh.node.args.args[0].arg if dh.node.args.args else None
    rets = [n for n in ast.walk(dh.node) if isinstance(n, ast.Return)]
    bad = []

    def token_valued(e):
        if isinstance(e, ast.Name) and e.id == param:
            return True
        if isinstance(e, ast.IfExp):
            return token_valued(e.body) and token_valued(e.orelse)
        if isinstance(e, ast.Subscript):
            return token_valued(e.value)
        if isinstance(e, ast.Call) and isinstance(e.func, ast.Attribute) \
                and e.func.attr in keeps:
            return token_valued(e.func.value)
        return False
    for r_ in rets:
        if r_.value is None or not token_valued(r_.value):
            bad.append(src(r_))
    rep.check(bool(rets) and not bad, "R12.2", dh.qualname, "entity decoding "
              "returns a Token on every path (the argument, or a "
              "Token-preserving method applied to it)",
              construct="decode-keeps-token", where=L.where(dh),
              detail="; ".join(bad)[:160])


def _reopen(repo, rep):
    """The message is computed when str(exc) is called: the formatter
    re-opens the template file to quote the source line.  The file is in the
    template's encoding, not necessarily the locale's -- reading it must not
    be able to raise (a UnicodeDecodeError out of __str__ leaves the caller
    without any message)."""
    m = repo.modules["chameleon.exc"]
    n = 0
    for q, f in sorted(repo.funcs.items()):
        if f.module is not m:
            continue
        for c in ast.walk(f.node):
            if not (isinstance(c, ast.Call) and src(c.func) == "open"):
                continue
            n += 1
            kw = {k.arg: k.value for k in c.keywords}
            mode = c.args[1] if len(c.args) > 1 else kw.get("mode")
            binary = isinstance(mode, ast.Constant) and "b" in str(mode.value)
            lenient = isinstance(kw.get("errors"), ast.Constant) and \
                kw["errors"].value in ("replace", "ignore",
                                       "backslashreplace",
                                       "surrogateescape")
            # or every use of the file object sits under a handler that
            # catches the decoding error
            covered = False
            a = getattr(c, "_parent", None)
            while a is not None and a is not f.node:
                if isinstance(a, ast.Try) and any(
                        h.type is None or any(
                            x in src(h.type) for x in (
                                "UnicodeError", "UnicodeDecodeError",
                                "ValueError", "Exception"))
                        for h in a.handlers):
                    # the reading has to be inside the same try
                    covered = any(isinstance(x, ast.For) or (
                        isinstance(x, ast.Call) and src(x.func) in (
                            "list", "iter_source_marker_lines"))
                        for b_ in a.body for x in ast.walk(b_))
                a = getattr(a, "_parent", None)
            rep.check(binary or lenient or covered, "R12.6", f.qualname,
                      "the template file re-opened for the source line is "
                      "read leniently (errors=...), as bytes, or under a "
                      "handler of the decoding error: computing the message "
                      "cannot raise", construct="reopen-lenient:" + f.name,
                      where=L.where(f, c.lineno), detail=src(c))
    if n < 2:
        raise AnalysisError("only %d open() call(s) in chameleon.exc" % n)


def _rebuilt(repo, rep):
    # the excerpt and the column of a failing ${...} inside a processing
    # instruction are taken from a token the program assembles by hand
    from .c11 import rebuilt_tokens
    rebuilt_tokens(repo, rep, rule="R12.2")


def _retype(repo, rep):
    f = repo.func(BT + "render")
    site = f.qualname
    wh = L.where(f)
    tries = [n for n in f.node.body if isinstance(n, ast.Try)]
    if len(tries) != 1:
        raise AnalysisError("render: expected one top-level try")
    t = tries[0]
    types = [src(h.type) if h.type is not None else "<bare>"
             for h in t.handlers]
    rep.check(types[:1] == ["RecursionError"] and
              len(t.handlers[0].body) == 1 and
              isinstance(t.handlers[0].body[0], ast.Raise) and
              t.handlers[0].body[0].exc is None, "R12.3", site,
              "RecursionError is caught first and re-raised untouched",
              construct="recursion-first", where=wh, detail=str(types))
    deco = None
    for h in t.handlers:
        if any(isinstance(n, ast.Call) and
               src(n.func) == "create_formatted_exception"
               for n in ast.walk(h)):
            deco = h
    rep.check(deco is not None, "R12.3", site, "a handler decorates the "
              "exception", construct="decorating-handler", where=wh)
    if deco is not None:
        # the handler's own look-ups cannot fail (nor consume what they
        # read): the recorded positions are fetched with .get(); a
        # subscript or a pop() without default raises KeyError when nothing
        # was recorded, and that KeyError would replace the exception
        risky = []
        for n in ast.walk(deco):
            if isinstance(n, ast.Subscript) and src(n.value) in (
                    "rcontext", "econtext") and isinstance(
                        n.ctx, ast.Load):
                risky.append(src(n))
            elif isinstance(n, ast.Call) and isinstance(
                    n.func, ast.Attribute) and src(n.func.value) in (
                        "rcontext", "econtext") and n.func.attr != "get":
                risky.append(src(n))
        rep.check(not risky, "R12.3", site, "the decorating handler reads "
                  "the render context with .get() only (no look-up of its "
                  "own can raise or remove an entry)",
                  construct="handler-lookups-total", where=wh,
                  detail=str(risky))
        ty = src(deco.type) if deco.type is not None else "<bare>"
        rep.check(ty == "Exception", "R12.3", site,
                  "the handler that re-types the exception (adds RenderError, "
                  "an Exception subclass) sees only Exceptions: "
                  "KeyboardInterrupt / SystemExit are never turned into "
                  "Exception instances", construct="retype-scope", where=wh,
                  detail="except %s" % ty)
        calls = [n for n in ast.walk(deco) if isinstance(n, ast.Call)
                 and src(n.func) == "create_formatted_exception"]
        a = [src(x) for x in calls[0].args]
        rep.check(a[:2] == ["exc", "cls"] and a[3:4] == ["RenderError"],
                  "R12.3", site, "the new class is derived from the original "
                  "class and RenderError", construct="retype-args", where=wh,
                  detail=str(a))
        text = L.text(deco)
        rep.check("raise_with_traceback(exc, tb)" in text, "R12.3", site,
                  "the decorated exception keeps the original traceback",
                  construct="traceback", where=wh)
        # ... and leaves: the call that raises it is not inside the body
        # of a try statement that has handlers (a decorated TypeError would
        # be caught by 'except TypeError' meant for the class creation, and
        # the undecorated original re-raised)
        rw = [n for n in ast.walk(deco) if isinstance(n, ast.Call)
              and src(n.func) == "raise_with_traceback"]
        caught = []
        for n in rw:
            prev, a_ = n, getattr(n, "_parent", None)
            while a_ is not None and a_ is not deco:
                if isinstance(a_, ast.Try) and a_.handlers and any(
                        prev is st or any(prev is x for x in ast.walk(st))
                        for st in a_.body):
                    caught.append(src(a_.handlers[0].type)
                                  if a_.handlers[0].type is not None
                                  else "<bare>")
                prev, a_ = a_, getattr(a_, "_parent", None)
        rep.check(bool(rw) and not caught, "R12.3", site, "the decorated "
                  "exception is raised outside every try body that has "
                  "handlers of its own (whatever its class, it reaches the "
                  "caller)", construct="decorated-escapes", where=wh,
                  detail="raised under 'except %s'" % ", ".join(caught)
                  if caught else "")
        # without recorded errors: plain re-raise
        paths = P.enum_paths(deco.body)
        ok = any(any(e[0] == "cond" and src(e[1]) == "errors" and not e[2]
                     for e in p) and p[-1][0] == "raise" and p[-1][1] is None
                 for p in paths)
        rep.check(ok, "R12.3", site, "an exception with no recorded site is "
                  "re-raised unchanged", construct="plain-reraise", where=wh)
    # return join(stream) after the try only
    last = f.node.body[-1]
    rets = [n for n in ast.walk(f.node) if isinstance(n, ast.Return)]
    rep.check(isinstance(last, ast.Return) and src(last.value) ==
              "join(stream)" and len(rets) == 1, "R12.4", site,
              "the output is returned only on the normal path (no partial "
              "output after an exception)", construct="no-partial-output",
              where=wh)
    for h in t.handlers:
        paths = P.enum_paths(h.body)
        ok = all(p[-1][0] == "raise" for p in paths)
        rep.check(ok, "R12.4", site, "every path through 'except %s' ends in "
                  "a raise" % (src(h.type) if h.type else "<bare>"),
                  construct="handler-raises", where=wh)


def _handler(repo, rep):
    f = repo.func(CC + "visit_Macro")
    res = L.emission(repo, f.qualname)
    site = f.qualname
    wh = L.where(f)
    tries = [w for w in A.walk(res.emission) if isinstance(w, A.Py)
             and w.kind == "Try"]
    rep.check(len(tries) == 1, "R12.4", site, "the macro body is wrapped in "
              "one try statement", construct="macro-try", where=wh)
    if len(tries) != 1:
        return
    t = tries[0]
    rep.check("Child(each(node.body))" in A.show(t.f.get("body"), limit=6),
              "R12.4", site, "the try body is the whole macro body",
              construct="macro-try-body", where=wh)
    hs = [it for it, _ in A.flatten(t.f.get("handlers", A.Seq()))]
    ok = len(hs) == 1
    rep.check(ok, "R12.4", site, "one handler", construct="macro-handler",
              where=wh)
    if not ok:
        return
    hb = list(A.flatten(hs[0].f.get("body")))
    rec = None
    for it, c in hb:
        if isinstance(it, A.Frag):
            for node, b in L.frag_find(
                    it, "if _P is not None: rcontext.setdefault('__error__', "
                        "[]).append(_T + (__filename, _E))"):
                rec = (it, b)
    rep.check(rec is not None, "R12.4", site, "the handler appends the "
              "failing site to rcontext['__error__'] when a token is set",
              construct="record", where=wh)
    if rec:
        it, b = rec
        pv = L.slot_value(it, b["_P"])
        tv = L.slot_value(it, b["_T"])
        evv = L.slot_value(it, b["_E"])
        rep.check(A.show(pv).strip("'") == "__token", "R12.4", site,
                  "the guard tests the current token", construct="record-pos",
                  where=wh)
        ok = isinstance(tv, A.Frag) and bool(L.frag_find(
            tv, "__tokens[_P]", "expr")) and A.show(
            tv.slots.get("pos")).strip("'") == "__token"
        rep.check(ok, "R12.4", site, "the recorded site is the token table "
                  "entry of the current token", construct="record-token",
                  where=wh)
        ok = isinstance(evv, A.Frag) and bool(L.frag_find(
            evv, "_X()[1]", "expr")) and "exc_info" in A.show(evv, limit=4)
        rep.check(ok, "R12.4", site, "the recorded exception is the one "
                  "being handled", construct="record-exc", where=wh)
    last = hb[-1][0] if hb else None
    ok = isinstance(last, A.Frag) and last.tree is not None and \
        len(last.tree.body) == 1 and isinstance(last.tree.body[0], ast.Raise) \
        and last.tree.body[0].exc is None
    rep.check(ok, "R12.4", site, "the handler ends with a bare raise (the "
              "exception propagates unchanged to the caller's handler: call "
              "sites accumulate innermost first)", construct="bare-raise",
              where=wh)
    init = [w for w in A.walk(res.emission) if isinstance(w, A.Frag)
            and L.frag_find(w, "__token = None")]
    rep.check(bool(init), "R12.4", site, "each render function starts with "
              "no current token", construct="token-init", where=wh)


def _functions(repo, rep):
    """Every function the compiler emits keeps its own token and records
    failures itself (render functions *and* slot fillers); before control
    passes to another emitted function the caller's token is cleared or
    points at the call site."""
    for name in ("visit_Macro", "visit_UseExternalMacro"):
        f = repo.func(CC + name)
        res = L.emission(repo, f.qualname)
        fds = [w for w in A.walk(res.emission) if isinstance(w, A.Py)
               and w.kind == "FunctionDef"]
        rep.check(len(fds) == 1, "R12.4", f.qualname, "one function is "
                  "emitted", construct="funcdef:" + name, where=L.where(f))
        for fd in fds:
            body = fd.f.get("body")
            lin = L.Lin(body)
            init = lin.index(lambda it: isinstance(it, A.Frag) and bool(
                L.frag_find(it, "__token = None")))
            tries = lin.all(L.is_py("Try"))
            childs = lin.all(lambda it: isinstance(it, A.Child))
            ok = init >= 0 and bool(tries) and bool(childs) and \
                init < tries[0] and all(
                    lin.inside(c, "Try", "body") is not None for c in childs)
            rep.check(ok, "R12.4", f.qualname,
                      "the emitted function starts with no current token and "
                      "runs its body inside the error-recording handler (an "
                      "exception is attributed to this function's own "
                      "expression, file and token table)",
                      construct="own-handler:" + name, where=L.where(f),
                      detail="init=%s tries=%s children=%s" % (
                          init, tries, childs))
            if tries:
                t = lin.item(tries[0])
                hs = [it for it, _ in A.flatten(t.f.get("handlers", A.Seq()))]
                rec = any(isinstance(w, A.Frag) and L.frag_find(
                    w, "if _P is not None: rcontext.setdefault('__error__', "
                       "[]).append(_T + (__filename, _E))")
                    for h in hs for w in A.walk(h))
                last = None
                for h in hs:
                    items = list(A.flatten(h.f.get("body")))
                    last = items[-1][0] if items else None
                bare = isinstance(last, A.Frag) and last.tree is not None \
                    and isinstance(last.tree.body[-1], ast.Raise) and \
                    last.tree.body[-1].exc is None
                rep.check(rec and bare, "R12.4", f.qualname,
                          "its handler records (token entry, file name, "
                          "exception) and re-raises", construct="handler:" +
                          name, where=L.where(f))
    transfers(repo, rep)


def transfers(repo, rep, rule="R12.1"):
    """the caller's token is cleared before control passes to another
    emitted function (inline macro, slot filler)"""
    for name, callpat in (
            ("visit_UseInternalMacro",
             "_F(__stream, econtext.copy(), rcontext, __i18n_domain, "
             "__i18n_context, target_language)"),
            ("visit_DefineSlot", "_F(__stream, econtext.copy(), rcontext)")):
        f = repo.func(CC + name)
        res = L.emission(repo, f.qualname)
        lin = L.Lin(res.emission)
        call = lin.index(lambda it: isinstance(it, A.Frag) and bool(
            L.frag_find(it, callpat, "expr")))
        resets = [i for i in lin.all(lambda it: isinstance(it, A.Frag) and
                                     bool(L.frag_find(it, "__token = None")))
                  if i < call]
        same = bool(resets) and L.cond_signature(lin.conds(resets[-1])) <= \
            L.cond_signature(lin.conds(call)) if call >= 0 else False
        rep.check(call >= 0 and same, rule, f.qualname,
                  "the caller's token is cleared before control passes to "
                  "another emitted function (which reports its own "
                  "position; a stale token would add an unrelated call "
                  "site)", construct="reset-before-call:" + name,
                  where=L.where(f))


def _formatted(repo, rep):
    f = repo.func("chameleon.utils.create_formatted_exception")
    site = f.qualname
    wh = L.where(f)
    calls = [n for n in ast.walk(f.node) if isinstance(n, ast.Call)
             and src(n.func) == "type" and len(n.args) == 3]
    bases = L.inline_locals(f.node, calls[0].args[1]) if calls else None
    alts = []
    if isinstance(bases, ast.IfExp):
        alts = [(src(bases.test).replace(" ", ""), src(bases.body),
                 src(bases.orelse))]
        plain = src(bases.orelse) if "issubclass" in src(bases.test) and \
            not src(bases.test).startswith("not ") else src(bases.body)
    else:
        plain = src(bases) if bases is not None else ""
    ok = bool(calls) and plain == "(cls, base)"
    rep.check(ok, "R12.5", site, "the new class derives from (original "
              "class, base) in this order: isinstance(original class) holds "
              "and the original class wins method resolution",
              construct="bases", where=wh,
              detail=src(calls[0].args[1]) if calls else "no type() call")
    # (cls, base) cannot be linearised when cls is an ancestor of base:
    # render() passes RenderError, a subclass of Exception, and an
    # expression may raise a plain Exception (or a RenderError) -- that case
    # needs bases (base,), or the except TypeError fallback silently returns
    # the undecorated class (no expression, no position in the message)
    r = repo.func(BT + "render")
    passed = [src(c.args[3]) for c in ast.walk(r.node)
              if isinstance(c, ast.Call) and
              src(c.func) == "create_formatted_exception" and len(c.args) > 3]
    base_cls = repo.cls("chameleon.exc." + passed[0]) if passed else None
    anc = set()
    if base_cls is not None:
        own, ext = L.class_closure(repo, base_cls)
        anc = set(ext)
    handled = any(isinstance(n, ast.Call) and src(n.func) == "issubclass"
                  and [src(a) for a in n.args] == ["base", "cls"]
                  for n in ast.walk(f.node)) and any(
                      "(base,)" in src(n).replace(" ", "")
                      for n in ast.walk(f.node) if isinstance(n, ast.Tuple))
    rep.check(not ("Exception" in anc) or handled, "R12.5", site,
              "an original class that is an ancestor of the mixin base (a "
              "plain Exception, the base itself) gets bases (base,): the "
              "decorated class always exists", construct="bases-linearisable",
              where=wh, detail="render() passes %s (ancestors %s); no "
              "issubclass(base, cls) case" % (passed, sorted(anc)))
    text = L.text(f.node)
    rep.check("BaseException.__init__(inst, *exc.args)" in text, "R12.5",
              site, "the original arguments are copied", construct="args",
              where=wh)
    rep.check("inst.__dict__ = exc.__dict__" in text, "R12.5", site,
              "the original attributes are kept", construct="dict", where=wh)
    # the copy is allocated by __new__ of some class; BaseException.__new__
    # ignores arguments, every other allocator (the original class's own,
    # used where BaseException's is refused: OSError, ExceptionGroup) may
    # require the original ones -- ExceptionGroup does
    # (an allocator is X.__new__ called directly, or a local bound to some
    # class's __new__ -- picked from the original class's MRO)
    alloc_names = {}
    for n in ast.walk(f.node):
        if isinstance(n, ast.Assign) and isinstance(n.targets[0], ast.Name) \
                and any(isinstance(x, ast.Attribute) and x.attr == "__new__"
                        for x in ast.walk(n.value)):
            alloc_names[n.targets[0].id] = n.value
    allocs = [n for n in ast.walk(f.node) if isinstance(n, ast.Call)
              and (isinstance(n.func, ast.Attribute)
                   and n.func.attr == "__new__"
                   or isinstance(n.func, ast.Name)
                   and n.func.id in alloc_names)]
    bare = [n for n in allocs if not (isinstance(n.func, ast.Attribute) and
                                      src(n.func.value) == "BaseException")
            and not any(isinstance(a, ast.Starred) and
                        src(a.value) == "exc.args" for a in n.args)]
    rep.check(len(allocs) >= 2 and not bare, "R12.5", site, "an allocator "
              "other than BaseException.__new__ is handed the original "
              "arguments (an ExceptionGroup cannot be allocated without "
              "them; the failure would leave the exception undecorated)",
              construct="allocator-args", where=L.where(
                  f, bare[0].lineno) if bare else wh,
              detail=", ".join(src(n) for n in bare))
    # the classes made here carry BaseException.__new__ in their own dict:
    # when an exception is decorated a second time (nested rendering, the
    # formatter un-wrapping it) ``cls`` is such a class and ``cls.__new__``
    # is the allocator that was just refused -- the fallback looks past the
    # classes made here (those with the dict's marker key)
    made = calls[0].args[2] if calls else None
    hides = isinstance(made, ast.Dict) and any(
        isinstance(k, ast.Constant) and k.value == "__new__"
        for k in made.keys)
    keys = {k.value for k in made.keys if isinstance(k, ast.Constant)} \
        if isinstance(made, ast.Dict) else set()
    direct = [n for n in allocs if isinstance(n.func, ast.Attribute)
              and src(n.func.value) != "BaseException"]
    # (the marker is a key only the classes made here have: not a name
    # every class dictionary carries; and the allocator is the first such
    # class's, taken with next() -- the bare generator is not callable)
    own_keys = {k for k in keys if not (k.startswith("__") and
                                        k.endswith("__"))}
    past = [v for v in alloc_names.values()
            if "__mro__" in src(v) and isinstance(v, ast.Call) and
            src(v.func) == "next" and any(
                isinstance(c, ast.Compare) and
                isinstance(c.ops[0], ast.NotIn) and
                isinstance(c.left, ast.Constant) and
                c.left.value in own_keys
                and src(c.comparators[0]).endswith(".__dict__")
                for c in ast.walk(v))]
    rep.check(not hides or (not direct and bool(past)), "R12.5", site,
              "the fallback allocator is the original class's, found past "
              "the classes made here (an exception decorated twice can "
              "still be allocated and formatted)",
              construct="allocator-past-wrappers", where=L.where(
                  f, direct[0].lineno) if direct else wh,
              detail=", ".join(src(n.func) for n in direct))
    # the fallback to the undecorated class is for a class that cannot be
    # derived from, and for nothing else: the try block it guards holds the
    # derivation only (an allocator refusing the derived class -- the OSError
    # family -- must not take it)
    tnames = {src(n.targets[0]) for n in ast.walk(f.node)
              if isinstance(n, ast.Assign) and n.value in calls}
    wide = []
    for t_ in ast.walk(f.node):
        if not isinstance(t_, ast.Try):
            continue
        for h in t_.handlers:
            undec = [n for n in ast.walk(h) if isinstance(n, ast.Assign)
                     and src(n.targets[0]) in tnames
                     and n.value not in calls]
            if undec and any(isinstance(n, ast.Call) and
                             isinstance(n.func, ast.Attribute) and
                             n.func.attr == "__new__"
                             for st in t_.body for n in ast.walk(st)):
                wide.append(undec[0])
    rep.check(bool(tnames) and not wide, "R12.5", site, "only a failed "
              "derivation falls back to the undecorated class (a refused "
              "allocation keeps the derived class)",
              construct="undecorated-fallback-scope", where=L.where(
                  f, wide[0].lineno) if wide else wh,
              detail=", ".join(src(n) for n in wide))
    rep.check("'__str__': formatter" in text, "R12.5", site,
              "the message is produced by the formatter",
              construct="formatter", where=wh)
    d = f.node.args.defaults
    rep.check(bool(d) and src(d[-1]) == "Exception", "R12.5", site,
              "the default base is Exception", construct="base-default",
              where=wh)


def _layout(repo, rep):
    f = repo.func("chameleon.exc.ExceptionFormatter.__call__")
    wh = L.where(f)
    loops = [n for n in f.node.body if isinstance(n, ast.For)
             and src(n.iter) == "self._errors"]
    rep.check(len(loops) == 1, "R12.6", f.qualname, "the formatter walks the "
              "recorded frames once, in recorded order (innermost first)",
              construct="frames-loop", where=wh)
    if len(loops) != 1:
        return
    loop = loops[0]
    # names of the frame's fields
    unpack = [st for st in loop.body if isinstance(st, ast.Assign)
              and isinstance(st.targets[0], ast.Tuple)
              and src(st.value) == src(loop.target)]
    fields = [src(e) for e in unpack[0].targets[0].elts] if unpack else []
    rep.check(len(fields) == 5, "R12.6", f.qualname, "a frame is (expression, "
              "line, column, filename, exception)", construct="frame-fields",
              where=wh, detail=str(fields))
    if len(fields) != 5:
        return
    e_, l_, c_, fn_, x_ = fields
    paths = P.enum_paths([loop], unroll=1)
    rep.count("formatter_paths", len(paths))
    n = 0
    bad = ""
    for p in paths:
        iters = [i for i, ev in enumerate(p) if ev[0] == "loop" and ev[1] == 1]
        if not iters:
            continue
        n += 1
        seen = []
        for c, i in P.calls_on_path(p[:iters[0]]):
            if src(c.func).endswith(".append") and c.args and isinstance(
                    c.args[0], ast.BinOp) and isinstance(
                        c.args[0].op, ast.Mod) and isinstance(
                            c.args[0].left, ast.Constant):
                lab = str(c.args[0].left.value).strip(" -").split(":")[0]
                seen.append((lab, src(c.args[0].right)))
        labs = [x for x in seen if x[0] in ("Expression", "Filename",
                                            "Location")]
        want_l = "(%s, %s)" % (l_, c_)
        ok = [x[0] for x in labs] == ["Expression", "Filename", "Location"] \
            and labs[0][1] == e_ and labs[2][1] == want_l
        if not ok and not bad:
            bad = "%s on path %s" % (labs, P.path_text(p, 14))
    rep.check(n >= 1 and not bad, "R12.6", f.qualname, "every frame "
              "contributes 'Expression: <text>', 'Filename', 'Location: "
              "(line, column)' on every path through the loop body "
              "(including line or column 0)", construct="frame-lines",
              where=wh, detail=bad[:300])


def _handled(repo, rep):
    """Frames are recorded in rcontext['__error__'] by every function the
    exception passes.  tal:on-error ends the propagation: the frames
    recorded so far belong to a failure that is no longer reported, and must
    be dropped before anything else is evaluated -- or they are listed in
    the message of the next, unrelated failure."""
    f = repo.func(COMP + "Compiler.visit_OnError")
    r = L.emission(repo, f.qualname)
    handlers = [w for w in A.walk(r.emission) if isinstance(w, A.Py)
                and w.kind == "ExceptHandler"]
    ok = False
    detail = "no handler"
    for h in handlers:
        items = [w for w in A.walk(h.f.get("body"))
                 if isinstance(w, (A.Frag, A.Child))]
        drop = [i for i, w in enumerate(items) if isinstance(w, A.Frag) and (
            L.frag_find(w, "rcontext.pop('__error__', None)", "expr") or
            L.frag_find(w, "rcontext.pop('__error__')", "expr") or
            L.frag_find(w, "del rcontext['__error__']") or
            L.frag_find(w, "del rcontext['__error__'][_N:]") or
            L.frag_find(w, "rcontext['__error__'].clear()", "expr"))]
        kid = [i for i, w in enumerate(items) if isinstance(w, A.Child)]
        ok = bool(drop) and bool(kid) and drop[0] < kid[0]
        detail = "handler body: %s" % [A.show(w, limit=2)[:40] for w in items]
    rep.check(ok, "R12.4", f.qualname, "a failure handled by tal:on-error "
              "leaves no recorded frames behind: the handler drops "
              "rcontext['__error__'] before the fallback is rendered",
              construct="handled-frames-dropped", where=L.where(f),
              detail=detail[:300])


def _formatter_total(repo, rep):
    """The message is computed from the recorded frames whenever it is asked
    for (frames of outer call sites are appended while the exception
    travels), it lists every record, and formatting the render arguments
    cannot fail because of a hostile argument object."""
    f = repo.func("chameleon.exc.ExceptionFormatter.__call__")
    wh = L.where(f)
    stores = [src(n) for n in ast.walk(f.node)
              if isinstance(n, (ast.Assign, ast.AugAssign, ast.AnnAssign))
              for t in (n.targets if isinstance(n, ast.Assign) else [n.target])
              if isinstance(t, ast.Attribute) and src(t.value) == "self"]
    paths = [p for p in P.enum_paths(f.node.body, unroll=1)
             if p[-1][0] == "return"]
    skipping = [p for p in paths if not any(
        e[0] == "loop" and isinstance(e[2], ast.For) and
        src(e[2].iter) == "self._errors" for e in p)]
    rep.check(not stores and bool(paths) and not skipping, "R12.6",
              f.qualname, "every call formats the frames recorded so far "
              "(no memoised message, no return that by-passes the loop over "
              "self._errors): frames added by outer call sites show up",
              construct="formatter-stateless", where=wh,
              detail=("stores %s" % stores[:2]) if stores else (
                  P.path_text(skipping[0], 8) if skipping else ""))
    # nested render: the inner formatter takes over the whole list of the
    # outer context
    r = repo.func(BT + "render")
    ext = [n for n in ast.walk(r.node) if isinstance(n, ast.Call)
           and src(n.func).endswith("._errors.extend")]
    okx = len(ext) == 1 and len(ext[0].args) == 1 and \
        isinstance(ext[0].args[0], ast.Name)
    detail = src(ext[0])[:120] if ext else "no extend"
    if okx:
        gs = [src(t).replace(" ", "") for t, v in L.guards_of(ext[0], r.node)
              if not isinstance(t, ast.ExceptHandler)]
        name = ext[0].args[0].id
        okx = any(g in ("%sisnotformatter._errors" % name,
                        "formatter._errorsisnot%s" % name) for g in gs)
        detail += " under %s" % gs
    rep.check(okx, "R12.6", r.qualname, "when an already decorated exception "
              "passes an outer render(), all frames recorded there are "
              "appended (the only test is whether it is the very same list): "
              "equal-looking frames of a recursive template are kept",
              construct="nested-frames-all", where=L.where(r), detail=detail)
    # value_repr is total
    v = repo.func("chameleon.utils.value_repr")
    risky = [n for n in ast.walk(v.node) if isinstance(n, ast.Call)
             and src(n.func) in ("getattr", "repr")]
    okv = bool(risky)
    detail = ""
    for c in risky:
        prot = False
        for t, _ in L.guards_of(c, v.node):
            pass
        a = getattr(c, "_parent", None)
        while a is not None and a is not v.node:
            if isinstance(a, ast.Try) and any(c is x for b in [a.body]
                                              for s_ in b
                                              for x in ast.walk(s_)):
                if any(h.type is None or src(h.type) in (
                        "Exception", "BaseException") for h in a.handlers):
                    prot = True
            a = getattr(a, "_parent", None)
        if not prot:
            okv = False
            detail = src(c)
    rep.check(okv, "R12.6", v.qualname, "describing a render argument never "
              "raises: attribute access on the user's object is wrapped in a "
              "handler for every Exception", construct="value-repr-total",
              where=L.where(v), detail=detail)
