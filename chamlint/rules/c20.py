"""C20 -- text-mode templates copy their source verbatim except for ${...}
and $$."""
from __future__ import annotations

import ast

from .. import absint as A
from .. import lib as L
from .. import paths as P
from ..core import AnalysisError, src

ZT = "chameleon.zpt.template."
PROG = "chameleon.zpt.program.MacroProgram."


def run(repo, rep, tier):
    rep.explanation = (
        "In text mode nothing but ${...} and $$ may be interpreted.  That is "
        "a routing property: the single token produced by iter_text must "
        "reach MacroProgram.visit_text without passing the markup "
        "classifier (parser.identify / ElementParser), for every source "
        "string, because no path from the text tokenizer to the classifier "
        "exists in ElementProgram.__init__; visit_text must build the "
        "substitution with an empty escape set when escape is off, and "
        "escape is off exactly in text mode; text that contains no ${ is "
        "emitted with only $$ un-doubled; the file-based text template "
        "encodes the rendered string with the template's encoding.")
    rep.assumptions = [
        "${...} delimiting itself is C06's subject",
        "CR/CRLF rewriting applies to text templates as to HTML (by design)",
    ]
    rep.rule("R20.1", "routing: in text mode every token is delivered as "
                      "'text'; the markup classifier is not on the path")
    rep.rule("R20.2", "escape is off exactly in text mode; visit_text uses "
                      "an empty escape set then; plain text only un-doubles "
                      "$$")
    rep.rule("R20.3", "the file-based text template returns the rendered "
                      "text encoded with the template's encoding")
    _routing(repo, rep)
    _escape(repo, rep)
    _bytes(repo, rep)
    _file_decoding(repo, rep)
    # in text mode the whole template is one run of the interpolator: its
    # loop (candidate search, '$' run parity, un-doubling, literal tail) is
    # what "only ${...} and $$ are interpreted" rests on -- C06's loop-shape
    # rules are part of this property as well
    rep.rule("R20.4", "loop shape of Interpolator.__call__ (shared with "
                      "C06.R06.4) and value conversion of a lone ${...}")
    from .c06 import _loop, marker_on_text
    _loop(repo, rep, rule="R20.4")
    # 'each ${expr} is replaced': the whole source is one text node, and
    # whether it is interpolated at all is the marker test of visit_text
    L.borrow(repo, rep, "R20.4", "C06", marker_on_text,
             ("marker-on-text:visit_text",))
    _lone_value(repo, rep)
    # 'the string form of expr's value': a name is the template variable of
    # that name whenever it is bound -- also to 0, '' or None -- and a
    # Python builtin only otherwise (C04 owns the lookup-order rules)
    from . import c04
    L.borrow(repo, rep, "R20.4", "C04", c04._lookup,
             ("builtin-default", "lookup-order", "name-"), minimum=1)
    # a name loaded as text is a text template: the loader's registry tells
    # the formats (template classes) of one file apart (C14 owns the key)
    from . import c14
    L.borrow(repo, rep, "R20.1", "C14", c14._publish, ("registry-key",))
    L.option_defaults_rule(repo, rep, "R20.1", ("mode", "encoding"))
    # a bare '$name' is ordinary text unless the expression type says that
    # braces are optional: the pattern is chosen by braces_required
    ii = repo.func("chameleon.compiler.Interpolator.__init__")
    sel = [a.value for a in ast.walk(ii.node) if isinstance(a, ast.Assign)
           and src(a.targets[0]) == "self.regex"
           and isinstance(a.value, ast.IfExp)]
    oks = bool(sel)
    for v in sel:
        pt, flip = L._CanonIf._pos(v.test)
        on = v.orelse if flip else v.body
        if src(pt) != "braces_required" or \
                "braces_required_regex" not in src(on):
            oks = False
    rep.check(oks, "R20.2", ii.qualname, "the pattern that requires braces "
              "is used exactly when braces are required",
              construct="regex-by-braces-required", where=L.where(ii))
    L.state_rule(repo, rep)


def _routing(repo, rep):
    f = repo.func("chameleon.program.ElementProgram.__init__")
    site = f.qualname
    wh = L.where(f)
    paths = P.enum_paths(f.node.body, unroll=1)
    rep.count("paths", len(paths))
    ok = True
    seen_text = 0
    detail = ""
    for p in paths:
        conds = [(src(e[1]), e[2]) for e in p if e[0] == "cond"]
        text = any(c.replace(" ", "") in ("mode=='text'", "'text'==mode")
                   and v for c, v in conds) or \
            any(c.replace(" ", "") in ("mode!='text'",) and not v
                for c, v in conds)
        if not text:
            continue
        seen_text += 1
        calls = [src(c) for c, _ in P.calls_on_path(p)]
        if any(c.startswith("ElementParser(") for c in calls):
            ok = False
            detail = "text-mode path constructs ElementParser: " + \
                P.path_text(p, 10)
    rep.check(seen_text >= 1, "R20.1", site, "ElementProgram distinguishes "
              "text mode when it sets up the token stream",
              construct="text-branch", where=wh,
              detail="no branch on mode == 'text': the text token goes "
                     "through parser.identify like markup")
    rep.check(ok and seen_text >= 1, "R20.1", site, "on the text-mode path "
              "the markup classifier (ElementParser / identify) is not "
              "constructed", construct="classifier-bypassed", where=wh,
              detail=detail)
    # the text branch delivers ('text', (token,)) for every token
    good = False
    for n in ast.walk(f.node):
        if isinstance(n, (ast.If, ast.IfExp)) and "mode" in src(n.test) \
                and "'text'" in src(n.test):
            # the branch taken in text mode, whichever way the test is
            # written (statement or conditional expression)
            pt, flip = L._CanonIf._pos(n.test)
            if src(pt).replace(" ", "") not in ("mode=='text'",
                                                "'text'==mode"):
                continue
            branch = n.orelse if flip else n.body
            if isinstance(n, ast.IfExp):
                branch = [ast.Expr(branch)]
            for g in ast.walk(ast.Module(body=branch, type_ignores=[])):
                if isinstance(g, (ast.GeneratorExp, ast.ListComp)):
                    elt = src(g.elt).replace(" ", "")
                    it = src(g.generators[0].iter)
                    tgt = src(g.generators[0].target)
                    if elt == "('text',(%s,))" % tgt and it == "tokens" \
                            and not g.generators[0].ifs:
                        good = True
    rep.check(good, "R20.1", site, "every text-mode token is delivered as "
              "('text', (token,)) -- none dropped, none classified",
              construct="text-delivery", where=wh)
    # dispatch: kind 'text' -> visit_text
    v = repo.func("chameleon.program.ElementProgram.visit")
    t = L.text(v.node, body_only=True)
    rep.check("getattr(self, 'visit_%s' % kind)" in t and
              "visitor(*args)" in t, "R20.1", v.qualname,
              "kind 'text' is dispatched to visit_text", construct="dispatch",
              where=L.where(v))
    tk = repo.cls("chameleon.program.ElementProgram").attrs.get("tokenizers")
    ok = isinstance(tk, ast.Dict) and {
        k.value: src(v_) for k, v_ in zip(tk.keys, tk.values)} == {
            "xml": "iter_xml", "text": "iter_text"}
    rep.check(ok, "R20.1", "chameleon.program.ElementProgram.tokenizers",
              "mode 'text' selects the single-token tokenizer",
              construct="tokenizer-table")
    it = repo.func("chameleon.tokenize.iter_text")
    r = L.emission(repo, it.qualname)
    toks = [w for w in A.walk(r.out) if isinstance(w, A.CallV)
            and w.name == "Token"]
    rep.check(len(toks) == 1 and [A.show(x) for x in toks[0].args[:3]] == [
        "body", "0", "body"], "R20.1", it.qualname, "the text tokenizer "
        "yields the whole source as one token", construct="one-token",
        where=L.where(it))
    # the classes
    for cls in ("PageTextTemplate", "PageTextTemplateFile"):
        ci = repo.cls(ZT + cls)
        mv = ci.attrs.get("mode")
        rep.check(isinstance(mv, ast.Constant) and mv.value == "text",
                  "R20.1", ci.qualname, "%s runs in text mode" % cls,
                  construct="mode:" + cls)
    p = repo.func(ZT + "PageTemplate.parse")
    call = [n for n in ast.walk(p.node) if isinstance(n, ast.Call)
            and src(n.func) == "MacroProgram"]
    ok = bool(call) and len(call[0].args) >= 2 and \
        src(call[0].args[1]) == "self.mode"
    rep.check(ok, "R20.1", p.qualname, "the template's mode is handed to the "
              "program", construct="mode-passed", where=L.where(p))


def _escape(repo, rep):
    p = repo.func(ZT + "PageTemplate.parse")
    call = [n for n in ast.walk(p.node) if isinstance(n, ast.Call)
            and src(n.func) == "MacroProgram"]
    esc = None
    if call:
        for k in call[0].keywords:
            if k.arg == "escape":
                esc = src(k.value)
    rep.check(esc is not None and esc.replace(" ", "") in (
        "Trueifself.mode=='xml'elseFalse", "self.mode=='xml'",
        "self.mode!='text'", "Falseifself.mode=='text'elseTrue"), "R20.2",
        p.qualname, "escaping is on in XML mode and off in text mode",
        construct="escape-flag", where=L.where(p), detail=str(esc))
    f = repo.func(PROG + "visit_text")
    v = L.emission(repo, f.qualname).value
    subs = [w for w in A.walk(v) if isinstance(w, A.NodeV)
            and w.kind == "Substitution"]
    ok = False
    for s_ in subs:
        ce = s_.args[1] if len(s_.args) > 1 else None
        if isinstance(ce, A.Alt) and L.norm_test(ce.test) == "self.escape" \
                and A.show(ce.b) == "()":
            ok = True
    rep.check(ok, "R20.2", f.qualname, "with escape off, ${...} values are "
              "inserted with an empty escape set (unescaped string form)",
              construct="unescaped", where=L.where(f))
    # entities are a markup concept: no decoding inside ${...} in text mode
    interp = [w for w in A.walk(v) if isinstance(w, A.NodeV)
              and w.kind == "Interpolation"]
    okd = bool(interp)
    for w in interp:
        d = w.kwargs.get("decode_htmlentities")
        if d is None and len(w.args) > 5:
            d = w.args[5]
        t = A.show(d) if d is not None else ""
        if "self.escape" not in t:
            okd = False
    rep.check(okd, "R20.2", f.qualname, "whether character entities in the "
              "expression text are decoded follows the escape flag (off in "
              "text mode: '&amp;' inside ${...} is ordinary text)",
              construct="entities-in-text-mode", where=L.where(f),
              detail=str([A.show(w.kwargs.get("decode_htmlentities"))
                          for w in interp]))
    # ... and the flag arrives: it is passed by keyword, so either the node
    # class declares it as a field or the node base class stores every
    # keyword it is given (not only declared fields)
    icls = repo.cls("chameleon.nodes.Interpolation")
    fields = icls.attrs.get("_fields")
    declared = isinstance(fields, ast.Tuple) and any(
        isinstance(e, ast.Constant) and e.value == "decode_htmlentities"
        for e in fields.elts)
    ni = repo.func("chameleon.astutil.Node.__init__")
    kw = ni.node.args.kwarg.arg if ni.node.args.kwarg else None
    stores_all = False
    for n in ast.walk(ni.node):
        if isinstance(n, ast.Call) and src(n.func) == "self.__dict__.update" \
                and n.args and src(n.args[0]) == kw and not L.guards_of(
                    n, ni.node):
            stores_all = True
        if isinstance(n, ast.For) and kw and src(n.iter) == kw + ".items()" \
                and not L.guards_of(n, ni.node) and any(
                    isinstance(c, ast.Call) and src(c.func) == "setattr"
                    and not [g_ for g_ in L.guards_of(c, n)]
                    for c in ast.walk(n)):
            stores_all = True
    rep.check(declared or stores_all, "R20.2", ni.qualname, "a keyword "
              "given to a node constructor reaches the node: "
              "decode_htmlentities is a declared field of Interpolation, or "
              "Node.__init__ stores every keyword unconditionally",
              construct="node-keywords-stored", where=L.where(ni))
    g = repo.func("chameleon.compiler.ExpressionTransform.visit_Interpolation")
    calls = [n for n in ast.walk(g.node) if isinstance(n, ast.Call)
             and src(n.func) == "Interpolator"]
    okg = len(calls) == 1 and any(
        k.arg == "decode_htmlentities" and
        src(k.value) == "node.decode_htmlentities" for k in calls[0].keywords)
    rep.check(okg, "R20.2", g.qualname, "the interpolator decodes entities "
              "only if the interpolation node says so",
              construct="decode-from-node", where=L.where(g))
    ic = repo.cls("chameleon.nodes.Interpolation")
    dv = ic.attrs.get("decode_htmlentities")
    rep.check(isinstance(dv, ast.Constant) and dv.value is True, "R20.2",
              ic.qualname, "decoding is the default (markup contexts)",
              construct="decode-default")
    # plain text: only $$ -> $
    texts = [w for w in A.walk(v) if isinstance(w, A.NodeV)
             and w.kind == "Text"]
    shown = {A.show(t.args[0], limit=6) for t in texts}
    rep.check("node.replace('$$', '$')" in shown, "R20.2", f.qualname,
              "text without ${ is emitted with only $$ un-doubled",
              construct="plain-text", where=L.where(f), detail=str(sorted(
                  shown))[:160])
    rep.check(isinstance(v, A.Alt) and "'${' in node" in v.test and
              "self._interpolation[-1]" in v.test, "R20.2", f.qualname,
              "text is handed to the interpolator only if it contains ${ "
              "and interpolation is on", construct="interp-guard",
              where=L.where(f))
    # with ${...} present the interpolator cuts the text into literal
    # pieces and expressions: every literal piece of the source text it
    # emits has passed '$$' -> '$' (and nothing else)
    from .c11 import _chains
    ic = repo.func("chameleon.compiler.Interpolator.__call__")
    pieces = []
    for n in ast.walk(ic.node):
        if isinstance(n, ast.Call) and src(n.func) == "ast.Constant" and \
                len(n.args) == 1:
            chains = _chains(ic.node, n.args[0], n.lineno + 1)
            roots = {c[-1] for c in chains}
            # pieces of the source: chains that end in the expression text
            if not any(r.startswith("attr:expression") or
                       r == "root:self" for r in roots):
                continue
            # a literal piece is cut out of the text by slicing only: its
            # chain has no call and no match-group step
            chains = [c for c in chains
                      if not any(x.startswith("call:") or x == "method:group"
                                 or x in ("item", "elem", "each")
                                 for x in c)]
            if not chains:
                continue   # the text of a matched ${...} / its expression
            pieces.append((n, chains))
    okp = bool(pieces)
    detail = ""
    for n, chains in pieces:
        for c in chains:
            steps = [x for x in c if x not in ("slice", "slice-neg")]
            if not steps or steps[0] != "method:replace":
                okp = False
                detail = "%s: %s" % (src(n), " <- ".join(c))
    rep.check(len(pieces) >= 2 and okp, "R20.2", ic.qualname, "every literal "
              "piece of text between / after the ${...} expressions is "
              "emitted with '$$' un-doubled (last step before the constant "
              "is built)", construct="pieces-undoubled", where=L.where(ic),
              detail=detail or "%d piece(s)" % len(pieces))
    repl = [n for n in ast.walk(ic.node) if isinstance(n, ast.Call)
            and isinstance(n.func, ast.Attribute) and n.func.attr == "replace"
            and isinstance(n.func.value, ast.Name)]
    rep.check(bool(repl) and all(
        [src(a) for a in r_.args] == ["'$$'", "'$'"] for r_ in repl),
        "R20.2", ic.qualname, "the only rewriting of literal text is "
        "'$$' -> '$'", construct="pieces-only-dollar", where=L.where(ic),
        detail=str([src(r_) for r_ in repl]))
    mp = repo.cls(PROG[:-1])
    dv = mp.attrs.get("escape")
    rep.check(isinstance(dv, ast.Constant) and dv.value is True, "R20.2",
              mp.qualname + ".escape", "escape defaults to on",
              construct="escape-default")
    # _pop_defaults must be able to switch escape off (False is not None)
    pd = repo.func(PROG + "_pop_defaults")
    t = L.text(pd.node)
    rep.check("if value is not None: setattr(self, attribute, value)" in t,
              "R20.2", pd.qualname, "a False option value overrides the "
              "class default (tested with 'is not None')",
              construct="false-overrides", where=L.where(pd))
    init = repo.func(PROG + "__init__")
    t = L.text(init.node)
    rep.check("'escape'" in t, "R20.2", init.qualname, "'escape' is among "
              "the options the program accepts", construct="escape-option",
              where=L.where(init))


def _file_decoding(repo, rep):
    """In text mode '<meta ... charset=...>' and '<?xml ... encoding=...?>'
    are ordinary text, not declarations: a text template *file* must not be
    decoded according to markup it happens to contain.  The file classes
    share BaseTemplateFile.read -> utils.read_bytes, which sniffs the XML
    declaration and the meta element unless the text class overrides it."""
    ci = repo.cls(ZT + "PageTextTemplateFile")
    own = None
    for k in repo.mro(ci):
        if "read" in k.methods:
            own = k
            break
    sniffs = False
    if own is not None:
        rd = own.methods["read"]
        sniffs = any(isinstance(n, ast.Call) and src(n.func) == "read_bytes"
                     for n in ast.walk(rd.node)) and not any(
                         "mode" in src(n.test) for n in ast.walk(rd.node)
                         if isinstance(n, ast.If))
    rep.check(own is not None and not sniffs, "R20.1", ci.qualname,
              "a text template file is decoded without consulting markup "
              "conventions (XML declaration, meta charset)",
              construct="text-file-sniffs-markup",
              where=L.where(own.methods["read"]) if own else "",
              detail="read() of %s calls read_bytes for every mode" % (
                  own.qualname if own else "?"))


def _bytes(repo, rep):
    f = repo.func(ZT + "PageTextTemplateFile.render")
    t = L.text(f.node, body_only=True)
    rep.check("result = super().render(**vars)" in t and
              "return result.encode(self.encoding or 'utf-8')" in t, "R20.3",
              f.qualname, "render() returns the rendered text encoded with "
              "the template's encoding (utf-8 by default)",
              construct="encode", where=L.where(f), detail=t)


def _lone_value(repo, rep):
    """A template that is exactly one ${expr} takes the single-node path of
    the interpolator: the value is converted by emit_convert -- only None
    is 'nothing to insert'; 0 / False / '' are values."""
    ip = L.interp(repo)
    mod = repo.module("chameleon.compiler")
    if "emit_convert" not in mod.assigns:
        raise AnalysisError("emit_convert vanished")
    fac = ip._factory(mod.assigns["emit_convert"][-1], mod, "emit_convert")
    if fac is None:
        raise AnalysisError("emit_convert factory vanished")
    import textwrap
    tree = ast.parse(textwrap.dedent(fac.node[1]["source"]))
    first = tree.body[0] if tree.body else None
    ok = isinstance(first, ast.If) and \
        src(first.test).replace(" ", "") == "targetisNone"
    rep.check(ok, "R20.4", "chameleon.compiler.emit_convert", "the inline "
              "conversion skips None only (identity test, first test): a "
              "false value such as 0 is converted to text",
              construct="convert-none-only",
              detail=src(first.test) if isinstance(first, ast.If) else "")
    # python expressions: the only rewriting of the expression text before
    # it is parsed is line continuation and newline -> blank (the text of
    # string literals inside ${...} must survive)
    f = repo.func("chameleon.tales.PythonExpr.translate")
    rew = []
    for n in ast.walk(f.node):
        if isinstance(n, ast.Assign) and src(n.targets[0]) == "string":
            rew.append(src(n.value).replace(" ", ""))
    # compare structurally instead of textually
    okp = True
    line_ends = set()
    for n in ast.walk(f.node):
        if isinstance(n, ast.Assign) and src(n.targets[0]) == "string":
            v = n.value
            good = False
            if isinstance(v, ast.Call) and isinstance(v.func, ast.Attribute) \
                    and src(v.func.value) in ("string", "expression"):
                if v.func.attr == "strip" and not v.args:
                    good = True
            # a chain of .replace(<line end>, ' ') on the text
            chain, cur = [], v
            while isinstance(cur, ast.Call) and isinstance(
                    cur.func, ast.Attribute) and cur.func.attr == "replace" \
                    and len(cur.args) == 2 and all(
                        isinstance(a, ast.Constant) for a in cur.args):
                chain.append((cur.args[0].value, cur.args[1].value))
                cur = cur.func.value
            if chain and src(cur) in ("string", "expression") and all(
                    a in ("\n", "\r") and b == " " for a, b in chain):
                good = True
                line_ends |= {a for a, b in chain}
            if isinstance(v, ast.Call) and src(v.func) == "substitute" and \
                    len(v.args) == 3 and src(v.args[0]) == "re_continuation":
                good = True
            if not good:
                okp = False
                rew = [src(v)]
    # (both line-end characters: an XML document keeps its carriage
    # returns, and Python ends a line at either)
    rep.check(line_ends == {"\n", "\r"}, "R20.4", f.qualname, "both "
              "line-end characters of a multi-line expression are turned "
              "into blanks (a document with CR LF line ends in XML mode is "
              "not rejected)", construct="python-line-ends",
              where=L.where(f), detail=str(sorted(line_ends)))
    rep.check(okp, "R20.4", f.qualname, "a python expression's text is only "
              "stripped, joined over line continuations and has its newlines "
              "turned into blanks before it is parsed (white space inside "
              "string literals is left alone)",
              construct="python-text-rewrites", where=L.where(f),
              detail=str(rew)[:160])
