"""C08 -- tal:repeat iterates any iterable and exposes correct repeat
variables (structural clauses and the linear closed forms only)."""
from __future__ import annotations

import ast

from .. import absint as A
from .. import lib as L
from .. import paths as P
from ..core import AnalysisError, src

TAL = "chameleon.tal."
COMP = "chameleon.compiler.Compiler."


def run(repo, rep, tier):
    rep.explanation = (
        "Most of this property is arithmetic over run-time positions and is "
        "NOT decided (letter / roman numerals, the iterator's length hint).  "
        "Decided are (1) the identity on which all position arithmetic "
        "rests: RepeatDict.__call__ materialises the iterable (None -> "
        "empty), and the iterator it returns to the loop is the very object "
        "stored in the RepeatItem (same definition), together with the "
        "length; (2) the loop skeleton emitted by visit_Repeat: the pair is "
        "unpacked into the loop iterable and a per-node counter, every loop "
        "name is pre-bound to None, the separator is appended after the body "
        "only while the decremented counter is positive, the separator is "
        "the whitespace captured for the element; (3) every repeat attribute "
        "is a function of the position index and the length only (def-use), "
        "and those that are linear in them (number, start, end, parity "
        "tests) normalise to the documented closed forms.")
    rep.assumptions = [
        "list_iterator.__length_hint__ counts the remaining items",
        "letter/Letter/roman/Roman digit loops are value-level: not decided",
    ]
    rep.rule("R08.1", "iterator identity: what the loop consumes is what the "
                      "RepeatItem watches; None and one-shot iterables are "
                      "materialised")
    rep.rule("R08.2", "loop skeleton: unpacking, pre-binding, counter, "
                      "separator only between iterations")
    rep.rule("R08.3", "repeat attributes depend on index/length only; linear "
                      "ones equal their closed forms")
    rep.rule("R08.4", "separator whitespace is captured from the text "
                      "preceding the element")
    rep.rule("R08.5", "digit loops: divmod by the radix / table value, "
                      "letter digits prepended (most significant first), "
                      "roman symbols appended over the standard descending "
                      "table")
    _identity(repo, rep)
    _skeleton(repo, rep)
    _attributes(repo, rep)
    _whitespace(repo, rep)
    _entry_restored(repo, rep)
    _iterable_expressions(repo, rep)
    _digits(repo, rep)
    # 'unpacking into several': the name list "(a, b, c)" is cut at every
    # comma by Token.split, which has to split like str.split (C11 owns the
    # Token algebra)
    from . import c11
    L.borrow(repo, rep, "R08.2", "C11", c11._algebra,
             ("str-signature:split",))
    lt = repo.func("chameleon.tal.RepeatItem._letter")
    wl = [n for n in ast.walk(lt.node) if isinstance(n, ast.While)]
    rep.check(len(wl) == 1 and isinstance(wl[0].test, ast.Constant)
              and wl[0].test.value is True, "R08.5", lt.qualname, "the digit "
              "loop of letter() runs until the index is used up (while "
              "True ... return)", construct="letter-loop-runs",
              where=L.where(lt))
    # the loop variable of a nested loop gives the outer binding back
    # (C05 owns the save / restore brackets)
    from . import c05 as _c05
    L.borrow(repo, rep, "R08.2", "C05", _c05.brackets,
             ("bracket-present", "restore-condition", "marker"), minimum=2)
    # the items of "x a; y b" style repeat clauses are split as written
    # (C09 owns the element details)
    from . import c09 as _c09
    L.borrow(repo, rep, "R08.1", "C09", _c09.element_details,
             ("multipart-complete",))
    # the loop variable of a global repeat is the item too (C05 owns the
    # contexts)
    from . import c05 as _c05
    L.borrow(repo, rep, "R08.1", "C05", _c05.repeat_first_context,
             ("repeat-first-context",))
    # the numeral that the loop over the value table builds is what Roman
    # returns (and roman, in lower case)
    ro = repo.cls("chameleon.tal.RepeatItem").methods["Roman"]
    acc = [a_ for a_ in ast.walk(ro.node) if isinstance(a_, ast.Assign)
           and isinstance(a_.targets[0], ast.Name)
           and isinstance(getattr(a_, "_parent", None), ast.For)]
    rets_ = [r_ for r_ in ast.walk(ro.node) if isinstance(r_, ast.Return)]
    rep.check(bool(acc) and len(rets_) == 1 and isinstance(
        rets_[0].value, ast.Name) and rets_[0].value.id in {
            a_.targets[0].id for a_ in acc}, "R08.3", ro.qualname,
        "Roman returns the numeral it has put together",
        construct="roman-returned", where=L.where(ro))
    # the position values are numbers that may also be called (the legacy
    # spelling repeat.x.number()): the descriptor wraps what it computes
    di = repo.cls("chameleon.utils.descriptorint").methods["__get__"]
    rets = [r_ for r_ in ast.walk(di.node) if isinstance(r_, ast.Return)]
    rep.check(bool(rets) and all(
        isinstance(r_.value, ast.Call) and src(r_.value.func) == "callableint"
        for r_ in rets), "R08.3", di.qualname, "position values are handed "
        "out as callable integers", construct="position-callable",
        where=L.where(di))
    L.state_rule(repo, rep)


ROMAN = ((1000, 'M'), (900, 'CM'), (500, 'D'), (400, 'CD'), (100, 'C'),
         (90, 'XC'), (50, 'L'), (40, 'XL'), (10, 'X'), (9, 'IX'), (5, 'V'),
         (4, 'IV'), (1, 'I'))


def _digits(repo, rep):
    """Shape of the two digit loops (the numeric results stay value-level;
    these are the structural facts without which no result can be right)."""
    ri = repo.cls(TAL + "RepeatItem")
    m = ri.methods["_letter"]
    site = m.qualname
    wh = L.where(m)
    loops = [n for n in ast.walk(m.node) if isinstance(n, ast.While)]
    ok = len(loops) == 1
    rep.check(ok, "R08.5", site, "one digit loop", construct="letter-loop",
              where=wh)
    if ok:
        lp = loops[0]
        dm = [n for n in ast.walk(lp) if isinstance(n, ast.Assign)
              and isinstance(n.value, ast.Call)
              and src(n.value.func) == "divmod"]
        good = len(dm) == 1 and [src(a) for a in dm[0].value.args] == [
            "index", "radix"] and src(dm[0].targets[0]).replace(" ", "") in (
                "(index,off)", "index,off")
        rep.check(good, "R08.5", site, "each step splits the position into "
                  "quotient and digit by the radix (index, off = "
                  "divmod(index, radix))", construct="letter-divmod",
                  where=wh)
        acc = [n for n in ast.walk(lp) if isinstance(n, (ast.Assign,
                                                         ast.AugAssign))
               and src(n.targets[0] if isinstance(n, ast.Assign)
                       else n.target) == "s"]
        good = len(acc) == 1 and isinstance(acc[0], ast.Assign) and \
            isinstance(acc[0].value, ast.BinOp) and \
            isinstance(acc[0].value.op, ast.Add) and \
            src(acc[0].value.right) == "s" and \
            src(acc[0].value.left).replace(" ", "") == "chr(base+off)"
        rep.check(good, "R08.5", site, "divmod yields the least significant "
                  "digit first, so each new digit chr(base + off) is "
                  "*prepended* to the result", construct="letter-prepend",
                  where=wh, detail=src(acc[0]) if acc else "")
        ends = [n for n in ast.walk(lp) if isinstance(n, ast.If)
                and src(n.test) == "not index" and
                isinstance(n.body[0], ast.Return)
                and src(n.body[0].value) == "s"]
        rep.check(len(ends) == 1, "R08.5", site, "the loop ends when the "
                  "quotient is exhausted and returns the digits",
                  construct="letter-exit", where=wh)
    d = m.node.args.defaults
    names = [a.arg for a in m.node.args.args]
    dv = dict(zip(names[len(names) - len(d):], [src(x) for x in d]))
    rep.check(dv.get("base") == "ord('a')" and dv.get("radix") == "26",
              "R08.5", site, "letters count in base 26 from 'a'",
              construct="letter-base", where=wh, detail=str(dv))
    neg = [n for n in ast.walk(m.node) if isinstance(n, ast.If)
           and src(n.test) == "index < 0"
           and isinstance(n.body[0], ast.Raise)]
    rep.check(len(neg) == 1, "R08.5", site, "no position before the first "
              "item has a letter", construct="letter-negative", where=wh)
    rep.check(src(ri.attrs.get("letter")) == "descriptorstr(_letter)"
              if ri.attrs.get("letter") is not None else False, "R08.5",
              ri.qualname, "repeat.letter is the lower-case digit string",
              construct="letter-attr")
    r = ri.methods["Roman"]
    site = r.qualname
    wh = L.where(r)
    d = r.node.args.defaults
    table = None
    if d:
        try:
            table = repo.fold(d[-1], r.module)
        except Exception:
            table = None
    rep.check(table == ROMAN, "R08.5", site, "the roman table is the "
              "standard subtractive table in descending order",
              construct="roman-table", where=wh, detail=str(table)[:120])
    loops = [n for n in ast.walk(r.node) if isinstance(n, ast.For)]
    ok = len(loops) == 1 and src(loops[0].iter) == "rnvalues"
    rep.check(ok, "R08.5", site, "one pass over the table",
              construct="roman-loop", where=wh)
    if ok:
        body = [src(x) for x in loops[0].body]
        tgt = src(loops[0].target).replace(" ", "")
        good = tgt in ("(v,r)", "v,r") and len(body) == 2 and \
            body[0].replace(" ", "") in ("(rct,n)=divmod(n,v)",
                                         "rct,n=divmod(n,v)") and \
            body[1].replace(" ", "") in ("s=s+r*rct", "s+=r*rct",
                                         "s=s+rct*r", "s+=rct*r")
        rep.check(good, "R08.5", site, "each table value is taken as often "
                  "as it fits (divmod) and its symbol is *appended* that "
                  "many times", construct="roman-step", where=wh,
                  detail=str(body))


def _identity(repo, rep):
    f = repo.func(TAL + "RepeatDict.__call__")
    site = f.qualname
    wh = L.where(f)
    paths = P.enum_paths(f.node.body)
    ok = len(paths) >= 1
    for p in paths:
        st = {}
        for ev in p:
            if ev[0] == "assign":
                st[ev[1]] = ev[2]
        ret = p[-1][1] if p[-1][0] == "return" else None
        good = isinstance(ret, ast.Tuple) and len(ret.elts) == 2 and \
            [src(e) for e in ret.elts] == ["iterator", "length"]
        item = st.get("self[key]")
        good = good and item is not None and \
            src(item) == "RepeatItem(iterator, length)"
        good = good and src(st.get("iterator", ast.Constant(None))) == \
            "iter(iterable)" and src(st.get("length", ast.Constant(None))) \
            == "len(iterable)"
        ok = ok and good
    rep.check(ok, "R08.1", site, "the iterator returned to the loop is the "
              "object stored in the RepeatItem, with the length of the "
              "materialised sequence", construct="same-iterator", where=wh)
    mat = [n for n in ast.walk(f.node) if isinstance(n, ast.Assign)
           and src(n.targets[0]) == "iterable"]
    ok = len(mat) == 1 and isinstance(mat[0].value, ast.IfExp) and \
        src(mat[0].value.test) == "iterable is not None" and \
        src(mat[0].value.body) in ("list(iterable)", "tuple(iterable)") and \
        src(mat[0].value.orelse) in ("()", "[]")
    rep.check(ok, "R08.1", site, "any iterable (incl. one-shot iterators) is "
              "materialised once; None repeats nothing",
              construct="materialise", where=wh,
              detail=src(mat[0]) if mat else "")
    ri = repo.cls(TAL + "RepeatItem")
    init = ri.methods["__init__"]
    t = L.text(init.node, body_only=True)
    rep.check("self.length = length" in t and "self._iterator = iterator"
              in t, "R08.1", init.qualname, "the RepeatItem keeps that "
              "iterator and length", construct="item-fields",
              where=L.where(init))
    idx = ri.methods["index"]
    t = L.text(idx.node)
    rep.check("remaining = self._iterator.__length_hint__()" in t, "R08.1",
              idx.qualname, "the position is derived from what remains in "
              "the shared iterator", construct="index-source",
              where=L.where(idx))
    lin = _linear(idx.node.body[-1].value, {"remaining": "remaining"}) \
        if isinstance(idx.node.body[-1], ast.Return) else None
    rep.check(lin == {"length": 1, "remaining": -1, "": -1}, "R08.1",
              idx.qualname, "index = length - remaining - 1",
              construct="index-form", where=L.where(idx), detail=str(lin))


def _linear(e, env=None):
    """Normalise an integer expression to {name: coeff, '': const}; names
    are 'index' / 'length' (self.index, self.length) or locals in env."""
    env = env or {}
    if isinstance(e, ast.Constant) and isinstance(e.value, int) and \
            not isinstance(e.value, bool):
        return {"": e.value}
    if isinstance(e, ast.Attribute) and src(e.value) == "self":
        return {e.attr: 1}
    if isinstance(e, ast.Name) and e.id in env:
        return {env[e.id]: 1}
    if isinstance(e, ast.BinOp) and isinstance(e.op, (ast.Add, ast.Sub)):
        a, b = _linear(e.left, env), _linear(e.right, env)
        if a is None or b is None:
            return None
        sign = 1 if isinstance(e.op, ast.Add) else -1
        out = dict(a)
        for k, v in b.items():
            out[k] = out.get(k, 0) + sign * v
        return {k: v for k, v in out.items() if v != 0 or k == ""} or {"": 0}
    if isinstance(e, ast.UnaryOp) and isinstance(e.op, ast.USub):
        a = _linear(e.operand, env)
        return None if a is None else {k: -v for k, v in a.items()}
    return None


def _norm(d):
    if d is None:
        return None
    out = {k: v for k, v in d.items() if v != 0}
    return out


def _attributes(repo, rep):
    ri = repo.cls(TAL + "RepeatItem")
    allowed = {"self.index", "self.length", "self._iterator", "self._letter",
               "self.Roman"}
    for name, m in sorted(ri.methods.items()):
        if name in ("__init__", "__iter__", "next"):
            continue
        reads = {src(n) for n in ast.walk(m.node)
                 if isinstance(n, ast.Attribute) and src(n.value) == "self"}
        other = {r for r in reads if r not in allowed}
        rep.check(not other, "R08.3", m.qualname, "repeat.%s is a function "
                  "of the position and the length only" % name,
                  construct="reads:" + name, where=L.where(m),
                  detail=str(sorted(other)))
    # closed forms of the linear attributes
    def ret(name):
        m = ri.methods[name]
        r = [n for n in m.node.body if isinstance(n, ast.Return)]
        return m, (r[-1].value if r else None)
    m, v = ret("number")
    rep.check(_norm(_linear(v)) == {"index": 1, "": 1}, "R08.3", m.qualname,
              "number = index + 1", construct="number", where=L.where(m),
              detail=src(v) if v is not None else "")
    m, v = ret("start")
    ok = isinstance(v, ast.Compare) and isinstance(v.ops[0], ast.Eq) and \
        _norm(_sub(_linear(v.left), _linear(v.comparators[0]))) == \
        {"index": 1}
    rep.check(ok, "R08.3", m.qualname, "start <=> index == 0",
              construct="start", where=L.where(m), detail=src(v))
    m, v = ret("end")
    ok = isinstance(v, ast.Compare) and isinstance(v.ops[0], ast.Eq) and \
        _norm(_sub(_linear(v.left), _linear(v.comparators[0]))) in (
            {"index": 1, "length": -1, "": 1},
            {"index": -1, "length": 1, "": -1})
    rep.check(ok, "R08.3", m.qualname, "end <=> index == length - 1",
              construct="end", where=L.where(m), detail=src(v))
    for nm, rem, yes, no in (("odd", 1, "odd", ""), ("even", 0, "even", ""),
                             ("parity", 0, "even", "odd")):
        m, v = ret(nm)
        ok = False
        # (self.index % 2 == R and YES) or NO
        if isinstance(v, ast.BoolOp) and isinstance(v.op, ast.Or) and \
                len(v.values) == 2 and isinstance(v.values[0], ast.BoolOp) \
                and isinstance(v.values[0].op, ast.And):
            test, y = v.values[0].values
            n_ = v.values[1]
            ok = isinstance(test, ast.Compare) and \
                isinstance(test.ops[0], ast.Eq) and \
                src(test.left) == "self.index % 2" and \
                src(test.comparators[0]) == str(rem) and \
                isinstance(y, ast.Constant) and y.value == yes and \
                isinstance(n_, ast.Constant) and n_.value == no
        elif isinstance(v, ast.IfExp):
            test = v.test
            ok = isinstance(test, ast.Compare) and \
                src(test.left) == "self.index % 2" and \
                src(test.comparators[0]) == str(rem) and \
                isinstance(test.ops[0], ast.Eq) and \
                getattr(v.body, "value", None) == yes and \
                getattr(v.orelse, "value", None) == no
        rep.check(ok, "R08.3", m.qualname, "%s: '%s' when index %% 2 == %d "
                  "else '%s'" % (nm, yes, rem, no), construct=nm,
                  where=L.where(m), detail=src(v) if v is not None else "")
    # Roman uses index + 1; letters use index
    m = ri.methods["Roman"]
    t = L.text(m.node)
    rep.check("n = self.index + 1" in t, "R08.3", m.qualname,
              "roman numerals count from 1", construct="roman-base",
              where=L.where(m))
    m = ri.methods["roman"]
    rep.check("self.Roman().lower()" in src(m.node.body[-1]), "R08.3",
              m.qualname, "roman = Roman in lower case", construct="roman",
              where=L.where(m))
    m = ri.methods["Letter"]
    rep.check("self._letter(base=ord('A'))" in src(m.node.body[-1]), "R08.3",
              m.qualname, "Letter = letter with base 'A'",
              construct="Letter", where=L.where(m))
    rep.note("not decided (value-level): numeric results of the digit loops "
             "beyond their shape (R08.5), boundaries 26 / 3999, the "
             "iterator's length hint")


def _sub(a, b):
    if a is None or b is None:
        return None
    out = dict(a)
    for k, v in b.items():
        out[k] = out.get(k, 0) - v
    return out


def _skeleton(repo, rep):
    f = repo.func(COMP + "visit_Repeat")
    res = L.emission(repo, f.qualname)
    L.require_no_opaque(res.emission, f.qualname)
    lin = L.Lin(res.emission)
    site = f.qualname
    wh = L.where(f)
    call = None
    for i, (it, c, p) in enumerate(lin.rows):
        if isinstance(it, A.Frag):
            for node, b in L.frag_find(
                    it, "_I, _N = getname('repeat')(_K, _I)"):
                call = (i, it, b)
    rep.check(call is not None, "R08.2", site, "the repeat dictionary is "
              "called with (key, evaluated iterable) and its result unpacked "
              "into (iterator, counter)", construct="repeat-call", where=wh)
    if call is None:
        return
    i, it, b = call
    ev = lin.index(lambda x: isinstance(x, A.Eval))
    rep.check(0 <= ev < i and A.ident_key(lin.item(ev).target) ==
              L.name_key(it, b["_I"]), "R08.2", site, "the argument is the "
              "value the expression engine assigned",
              construct="call-arg", where=wh)
    nv = L.slot_value(it, b["_N"])
    okp, why = A.per_node(nv) if nv is not None else (False, "missing")
    rep.check(okp, "R08.2", site, "the remaining-iterations counter is a "
              "per-node local (nested loops do not share it)",
              construct="counter-per-node", where=wh, detail=why)
    kv = L.slot_value(it, b["_K"])
    kt = A.show(kv, limit=8) if kv is not None else ""
    rep.check("node.names" in kt and "Tuple" in kt and "Constant" in kt,
              "R08.2", site, "the repeat key is the name, or the tuple of "
              "names for an unpacking loop", construct="repeat-key",
              where=wh, detail=kt[:120])
    fors = lin.all(L.is_py("For"))
    if len(fors) != 1:
        rep.bad("R08.2", site, "one for loop", "for-count", where=wh)
        return
    fo = lin.item(fors[0])
    rep.check(A.ident_key(fo.f.get("iter")) == L.name_key(it, b["_I"]) and
              fors[0] > i, "R08.2", site, "the loop consumes the iterator "
              "returned by the repeat dictionary", construct="loop-iter",
              where=wh)
    # pre-binding to None between the call and the loop
    pre = [j for j in range(i, fors[0])
           if isinstance(lin.item(j), A.Py) and lin.item(j).kind == "Assign"
           and "load('None')" in A.show(lin.item(j).f.get("value"))
           and "econtext" in A.show(lin.item(j).f.get("targets"), limit=8)
           and "node.names" in A.show(lin.item(j).f.get("targets"), limit=8)]
    rep.check(bool(pre), "R08.2", site, "every loop name is bound to None "
              "before the loop (an empty sequence leaves them defined)",
              construct="prebind", where=wh)
    # 'binding the loop variable (or unpacking into several) to each item':
    # the item is assigned ONCE per iteration -- a chained assignment to one
    # target per context unpacks a one-shot iterator item a second time
    fr = repo.func(COMP + "visit_Repeat") if "COMP" in globals() else \
        repo.func("chameleon.compiler.Compiler.visit_Repeat")
    items = [c for c in ast.walk(fr.node) if isinstance(c, ast.Call)
             and src(c.func) == "ast.Assign" and any(
                 k.arg == "value" and "__item" in src(k.value)
                 for k in c.keywords)]
    oku = len(items) == 1
    udetail = "%d item assignment(s)" % len(items)
    if not items:
        # emitted some other way: judge by the emission tree -- one
        # assignment of __item whose targets are not built per context
        arows = [lin.item(j) for j in range(len(lin.rows))
                 if isinstance(lin.item(j), A.Py)
                 and lin.item(j).kind == "Assign"
                 and "__item" in A.show(lin.item(j).f.get("value"))]
        frs = [x for j in range(len(lin.rows)) for x in [lin.item(j)]
               if isinstance(x, A.Frag) and L.frag_find(x, "_T = __item")]
        oku = (len(arows) + len(frs) == 1) and not any(
            "'rcontext'" in A.show(a_.f.get("targets"), limit=12)
            for a_ in arows)
        udetail = "%d assignment(s) of __item in the emission" % (
            len(arows) + len(frs))
    elif oku:
        tv = [k.value for k in items[0].keywords if k.arg == "targets"]
        t_ = tv[0] if tv else None
        single = (isinstance(t_, ast.List) and len(t_.elts) == 1) or (
            isinstance(t_, ast.Subscript) and isinstance(
                t_.slice, ast.Slice) and t_.slice.lower is None
            and isinstance(t_.slice.upper, ast.Constant)
            and t_.slice.upper.value == 1)
        oku = single
        udetail = "targets=%s" % (src(t_) if t_ is not None else None)
    rep.check(oku, "R08.2", site, "each item is assigned (unpacked) once "
              "per iteration; other contexts get copies of the values",
              construct="item-unpacked-once", where=wh, detail=udetail)
    rows = [j for j in range(len(lin.rows))
            if any(n is fo and fld == "body" for n, fld in lin.path(j))]
    child = [j for j in rows if isinstance(lin.item(j), A.Child)]
    dec = sep = None
    for j in rows:
        x = lin.item(j)
        if isinstance(x, A.Frag):
            for node, bb in L.frag_find(x, "_N -= 1"):
                dec = (j, L.name_key(x, bb["_N"]))
            for node, bb in L.frag_find(x, "if _N > 0: __append(_W)"):
                sep = (j, L.name_key(x, bb["_N"]), L.slot_value(x, bb["_W"]))
    ck = A.ident_key(nv) if nv is not None else None
    ok = dec is not None and sep is not None and child and \
        child[-1] < dec[0] < sep[0] and dec[1] == sep[1] == ck
    rep.check(ok, "R08.2", site, "after the body the counter is decremented "
              "and the separator is appended only while it is still "
              "positive (nothing after the last item)",
              construct="separator", where=wh,
              detail="child=%s dec=%s sep=%s" % (child, dec and dec[0],
                                                 sep and sep[0]))
    if sep:
        rep.check("node.whitespace" in A.show(sep[2], limit=4), "R08.2",
                  site, "the separator is the whitespace captured for this "
                  "element", construct="separator-text", where=wh)
    rep.check(not fo.f.get("orelse") or not list(A.flatten(
        fo.f.get("orelse"))), "R08.2", site, "the loop has no else branch",
        construct="no-orelse", where=wh)


def _iterable_expressions(repo, rep):
    # 'any iterable', 'one-shot iterators': a generator expression or a
    # comprehension written in the repeat clause binds its own variable, it
    # must not store to (or read from) the template variables of enclosing
    # loops -- the scope-aware handlers of the name rewriter (shared with
    # C04.R04.6)
    from .c04 import _binders
    _binders(repo, rep, rule="R08.1", handlers=True,
             only=("GeneratorExp", "ListComp", "SetComp", "DictComp"))
    # the loop variable's name goes into generated locals (backup, index):
    # any name of the clause grammar must give an identifier
    from .c05 import identifiers_safe
    identifiers_safe(repo, rep, rule="R08.1")
    # 'unpacking into several': the name list of the clause grammar admits
    # any number of names
    from .. import rx
    C = rx.C
    rc = repo.const("chameleon.tal", "DEFINE_RE")
    pat = rc.pattern if isinstance(rc.pattern, str) else \
        rc.pattern.decode("latin-1")
    reps = []

    def walk(items):
        for op, av in items:
            if op in (C.MAX_REPEAT, C.MIN_REPEAT):
                body = list(av[2])
                flat = body
                if len(body) == 1 and body[0][0] is C.SUBPATTERN:
                    flat = list(body[0][1][3])
                if flat and flat[0] == (C.LITERAL, ord(",")):
                    reps.append((av[0], av[1]))
                walk(av[2])
            elif op is C.SUBPATTERN:
                walk(av[3])
            elif op is C.BRANCH:
                for a in av[1]:
                    walk(a)
    walk(list(rx.parse(pat, rc.flags)))
    rep.check(len(reps) == 1 and reps[0][0] == 0 and reps[0][1] >= 65535,
              "R08.2", "chameleon.tal.DEFINE_RE", "a parenthesised name "
              "list may have any number of further ', name' items",
              construct="name-list-unbounded", detail=str(reps))


def _entry_restored(repo, rep):
    """repeat[name] must report the *current* position also after a nested
    loop that reuses the name: the loop variable is saved and restored by
    the enter/leave brackets, the entry in the repeat dictionary needs the
    same -- the emitter registers the inner loop's item under the shared key
    and the outer item is never put back."""
    f = repo.func(COMP + "visit_Repeat")
    res = L.emission(repo, f.qualname)
    lin = L.Lin(res.emission)
    reg = lin.index(lambda it: isinstance(it, A.Frag) and bool(L.frag_find(
        it, "(_I, _X) = getname('repeat')(_K, _I)")) or bool(
            isinstance(it, A.Frag) and L.frag_find(
                it, "_I, _X = getname('repeat')(_K, _I)")))
    loops = lin.all(L.is_py("For"))
    saved = restored = False
    if reg >= 0 and loops:
        for i in range(reg):
            it = lin.item(i)
            if isinstance(it, A.Frag) and it.tree is not None and \
                    "getname('repeat')" in src(it.tree) and any(
                        isinstance(n, ast.Subscript) or (
                            isinstance(n, ast.Attribute) and n.attr == "get")
                        for n in ast.walk(it.tree)):
                saved = True
        for i in range(loops[-1] + 1, len(lin.rows)):
            it = lin.item(i)
            if isinstance(it, A.Frag) and it.tree is not None and any(
                    isinstance(n, ast.Assign) and isinstance(
                        n.targets[0], ast.Subscript) and
                    "getname('repeat')" in src(n.targets[0])
                    for n in ast.walk(it.tree)):
                restored = True
    rep.check(reg >= 0 and saved and restored, "R08.2", f.qualname,
              "the repeat dictionary's entry for the loop's key is saved "
              "before the loop registers its own item and put back after "
              "the loop (an enclosing loop of the same name reports its own "
              "position again)", construct="repeat-entry-restored",
              where=L.where(f), detail="registration found: %s, saved: %s, "
              "restored: %s" % (reg >= 0, saved, restored))


def _whitespace(repo, rep):
    f = repo.func("chameleon.zpt.program.MacroProgram.visit_element")
    t = L.text(f.node)
    site = f.qualname
    wh = L.where(f)
    INDENT = "self._last.rsplit('\\n',1)[-1]"
    caps = [n for n in ast.walk(f.node) if isinstance(n, ast.Assign)
            and src(n.targets[0]) == "self._whitespace"
            and INDENT in src(L.inline_locals(f.node, n.value)).replace(
                " ", "")]
    rep.check(len(caps) == 1 and "if self._last is not None:" in t, "R08.4",
              site, "the separator is computed from the text after the last "
              "line break before the element", construct="capture", where=wh)
    verbatim = False
    detail = ""
    if caps:
        v = L.inline_locals(f.node, caps[0].value)
        detail = src(v)[:140]
        if isinstance(v, ast.BinOp) and isinstance(v.op, ast.Add) and \
                isinstance(v.left, ast.Constant) and v.left.value == "\n":
            r = v.right
            if isinstance(r, ast.IfExp):
                tt = src(r.test).replace(" ", "")
                space_test = (INDENT + ".strip()" in tt or
                              INDENT + ".isspace()" in tt)
                yes, no = r.body, r.orelse
                if tt.startswith("not") and ".isspace()" not in tt:
                    pass        # 'not INDENT.strip()' : body is the blank case
                elif ".strip()" in tt and not tt.startswith("not"):
                    yes, no = r.orelse, r.body
                verbatim = space_test and src(yes).replace(
                    " ", "") == INDENT
            elif src(r).replace(" ", "") == INDENT:
                verbatim = True
    rep.check(verbatim, "R08.4", site, "when the element starts on its own "
              "line the separator is a line break plus that line's "
              "indentation *as written* (tabs stay tabs)",
              construct="indent-as-written", where=wh, detail=detail)
    rep.check("whitespace = self._whitespace" in t, "R08.4", site,
              "the value is taken before the children change it",
              construct="element-local", where=wh)
    res = L.emission(repo, f.qualname)
    reps = [w for w in A.walk(res.value) if isinstance(w, A.NodeV)
            and w.kind == "Repeat"]
    ok = bool(reps) and len(reps[0].args) == 5
    if ok:
        ws = reps[0].args[3]
        tst = "start['namespace'] == TAL"
        ok = L.decides_on(ws, tst) and \
            A.show(L.branch(ws, tst, True)) == "''" and \
            "_whitespace" in A.show(L.branch(ws, tst, False), limit=6)
    rep.check(ok, "R08.4", site, "an ordinary element repeats with the "
              "captured separator; a tal: element (no tag of its own) with "
              "none", construct="repeat-whitespace", where=wh)
    vt = repo.func("chameleon.zpt.program.MacroProgram.visit_text")
    rep.check(src(vt.node.body[0]) == "self._last = node", "R08.4",
              vt.qualname, "the preceding text is remembered",
              construct="last-text", where=L.where(vt))
