"""C09 -- METAL: using a macro equals inlining it with its slots filled."""
from __future__ import annotations

import ast

from .. import absint as A
from .. import lib as L
from .. import paths as P
from ..core import AnalysisError, src

COMP = "chameleon.compiler.Compiler."
VE = "chameleon.zpt.program.MacroProgram.visit_element"
TPL = "chameleon.zpt.template."
PROG = "chameleon.zpt.program.MacroProgram."


def run(repo, rep, tier):
    rep.explanation = (
        "Equality with the hand-inlined template is a value-level claim and "
        "is NOT decided.  Decided are the structural conditions without "
        "which it cannot hold, for every macro library and caller at once: "
        "the key under which a caller stores its slot fillers is built by "
        "the same expression shape as the key the macro prologue pops and "
        "the define-slot emitter tests; fillers are stacked so that the "
        "outermost caller wins through extend chains (push-left / pop-"
        "right); a define-slot region is 'if filler is None: default else: "
        "filler(stream, copy of scope, rcontext)'; both kinds of macro call "
        "pass a copy of the scope and merge the globals back; 'macroname' is "
        "a local definition around the use; the compile-time stack that "
        "collects fill-slots is balanced on every path; public macro access "
        "goes through cook_check.")
    rep.assumptions = [
        "collections.deque semantics (appendleft / pop)",
        "rendered equality with the inlined template is not computed",
    ]
    rep.rule("R09.1", "writer/reader agreement of the slot key and of render "
                      "function names")
    rep.rule("R09.2", "slot discipline: one pop per slot name in the "
                      "prologue; default vs filler call; extend pushes left, "
                      "use replaces; prologue pops right")
    rep.rule("R09.3", "macro calls: copy of scope in, globals merged out; "
                      "macroname is a local definition around the use")
    rep.rule("R09.4", "G-PAIR: the fill-slot collector stack is balanced and "
                      "fill-slot outside a use is rejected")
    rep.rule("R09.5", "public macro access passes through cook_check before "
                      "touching compiled functions")
    _keys(repo, rep)
    _slots(repo, rep)
    _calls(repo, rep)
    _collector(repo, rep)
    _public(repo, rep)
    # a generated local is '__' + kind + '_' + what it is for: the KIND (the
    # prefix handed to identifier()) is a word of the compiler -- a constant,
    # or a constant format -- unless the suffix is an object identity; with
    # template text as the prefix, an attribute named 'slot_x' would spell
    # the slot variable '__slot_x_attr'
    badp = []
    n_id = 0
    for q_, f_ in sorted(repo.funcs.items()):
        if f_.module.name != "chameleon.compiler":
            continue
        for c_ in ast.walk(f_.node):
            if isinstance(c_, ast.Call) and src(c_.func) == "identifier" \
                    and c_.args:
                n_id += 1
                pre = L.inline_locals(f_.node, c_.args[0])
                suf = c_.args[1] if len(c_.args) > 1 else None
                const = isinstance(pre, ast.Constant) or (
                    isinstance(pre, ast.BinOp) and isinstance(
                        pre.op, ast.Mod) and isinstance(
                            pre.left, ast.Constant))
                ident = any(x is not None and isinstance(x, ast.Call) and
                            src(x.func) == "id" for x in (suf, pre))
                if not const and not ident:
                    badp.append("%s: %s" % (f_.name, src(c_)[:60]))
    rep.check(n_id >= 10 and not badp, "R09.1",
              "chameleon.compiler.identifier", "the prefix of every "
              "generated identifier is a word of the compiler (%d call "
              "sites)" % n_id, construct="identifier-kind-constant",
              detail="; ".join(badp))
    L.whitelist_rule(repo, rep, "R09.3", ("chameleon.metal",))
    # a whole template used as a macro is entered through include(): what
    # the caller hands over (stream, scopes, translation domain, context and
    # target language) all reaches the render function
    inc = repo.func("chameleon.zpt.template.PageTemplate.include")
    ia = inc.node.args
    calls_ = [c for c in ast.walk(inc.node) if isinstance(c, ast.Call)
              and src(c.func) == "self._render"]
    oki = bool(calls_)
    for c in calls_:
        star = any(isinstance(a, ast.Starred) for a in c.args) and any(
            k.arg is None for k in c.keywords)
        if ia.vararg is not None and ia.kwarg is not None:
            oki = oki and star and \
                any(isinstance(a, ast.Starred) and
                    src(a.value) == ia.vararg.arg for a in c.args) and \
                any(k.arg is None and src(k.value) == ia.kwarg.arg
                    for k in c.keywords)
        else:
            used = {x.id for x in ast.walk(c) if isinstance(x, ast.Name)}
            names_ = {x.arg for x in ia.args[1:] + ia.kwonlyargs}
            oki = oki and names_ <= used
    rep.check(oki, "R09.3", inc.qualname, "include() hands every argument "
              "on to the render function", construct="include-forwards-all",
              where=L.where(inc))
    # a failure that comes out of a slot filler (or a macro rendered in
    # place) has no token: the on-error handler of the macro that guards its
    # slot must still be able to record it (C13 owns the handler)
    from . import c13 as _c13
    L.borrow(repo, rep, "R09.2", "C13",
             lambda r_, p_: _c13.run(r_, p_, "quick"),
             ("position-arity", "position-unknown-none", "token-guard"),
             minimum=2)
    # 'macroname' is the name the caller used: it is bound where a macro is
    # used and nowhere else (a define-macro element rendered in place, or
    # nested in a used macro, sees the caller's)
    ve_ = repo.func(PROG + "visit_element")
    binds = [n_ for n_ in ast.walk(ve_.node) if isinstance(n_, ast.Constant)
             and n_.value == "macroname"]
    rep.check(len(binds) == 1, "R09.3", ve_.qualname, "'macroname' is bound "
              "at one place: the element that uses a macro",
              construct="macroname-bound-once", where=L.where(ve_),
              detail="lines %s" % [n_.lineno for n_ in binds])
    # "rendered in the caller's context" on a copy of it (C05 owns Scope)
    from . import c05 as _c05
    L.borrow(repo, rep, "R09.2", "C05", _c05._scope_rule,
             ("copy-returns-new-layer", "copy"), minimum=2)
    # data-metal-* is metal:* (C18 owns the conversion)
    from . import c18 as _c18
    L.borrow(repo, rep, "R09.3", "C18", _c18._keyed, ("convert-first",))
    # a slot may stand anywhere in a template that is used as a whole: the
    # only combinations that are rejected are those the messages name (C11
    # owns the message / guard agreement)
    from . import c11 as _c11
    L.borrow(repo, rep, "R09.3", "C11", _c11.language_error_guards,
             ("language-error-guard",), minimum=2)
    L.state_rule(repo, rep)


def _fmt_sites(func, literal_prefix):
    """BinOp ``"<prefix>%s" % X`` sites in a function -> list of X source"""
    out = []
    for n in ast.walk(func.node):
        if isinstance(n, ast.BinOp) and isinstance(n.op, ast.Mod) and \
                isinstance(n.left, ast.Constant) and \
                isinstance(n.left.value, str) and \
                n.left.value == literal_prefix:
            out.append(n.right)
    return out


MACRO_CALL = ("__m(__stream, _C, rcontext, __i18n_domain, __i18n_context, "
              "target_language)")


def slot_stores(lin):
    """fragments that store a filler stack under a slot key:
    [(index, frag, binds, target)] with target 'caller' (econtext[...]) or
    the key of the generated local stored into"""
    out = []
    for i, (it, conds, path) in enumerate(lin.rows):
        if isinstance(it, A.Frag):
            for node, b in L.frag_find(it, "_S = _C[_K] = _D((_N,))"):
                c = b["_C"]
                if src(c) == "econtext" and "econtext" not in it.slots:
                    out.append((i, it, b, "caller"))
                elif isinstance(c, ast.Name):
                    out.append((i, it, b, L.name_key(it, c)))
    return out


def _keys(repo, rep):
    use = repo.func(COMP + "visit_UseExternalMacro")
    ds = repo.func(COMP + "visit_DefineSlot")
    w = _fmt_sites(use, "__slot_%s")
    r = _fmt_sites(ds, "__slot_%s")
    rep.check(len(w) == 1 and len(r) == 1, "R09.1", use.qualname,
              "caller and macro both build the slot key as '__slot_%s' % ...",
              construct="slot-key-sites", detail="%d / %d" % (len(w), len(r)))
    if len(w) == 1 and len(r) == 1:
        def shape(n):
            if isinstance(n, ast.Call) and src(n.func) == "mangle" and \
                    isinstance(n.args[0], ast.Attribute) and \
                    n.args[0].attr == "name":
                return "mangle(<node>.name)"
            return src(n)
        rep.check(shape(w[0]) == shape(r[0]) == "mangle(<node>.name)",
                  "R09.1", use.qualname,
                  "the key a caller writes and the key a macro reads are the "
                  "same function of the slot name (mangled)",
                  construct="slot-key-shape",
                  detail="writer %s / reader %s" % (src(w[0]), src(r[0])))
    # the same for macro names: the compiler names a macro's render function
    # 'render_' + mangle(name); template.macros[name] has to look it up under
    # the same function of the name (a macro called 'a.b' must be found)
    comp_sites = []
    for fq in (COMP + "visit_MacroProgram", COMP + "visit_UseInternalMacro",
               COMP + "visit_Macro"):
        if repo.has_func(fq):
            comp_sites += [src(x) for x in _fmt_sites(repo.func(fq),
                                                      "render_%s")]
    gi_ = repo.func("chameleon.zpt.template.Macros.__getitem__")
    look = None
    for n in ast.walk(gi_.node):
        if isinstance(n, ast.Call) and src(n.func) == "getattr" and \
                len(n.args) >= 2:
            k = L.inline_locals(gi_.node, n.args[1])
            for t_, a_, n_ in L.fmt_sites(k):
                if t_ == "_render_%s" and len(a_) == 1:
                    look = a_[0]
    # the parameter 'name' is re-bound by the key function: follow it
    keyfun = None
    if look is not None:
        e = look
        for _ in range(4):
            if not isinstance(e, ast.Name):
                break
            defs = [a.value for a in ast.walk(gi_.node)
                    if isinstance(a, ast.Assign)
                    and src(a.targets[0]) == e.id and a.value is not e]
            if not defs:
                break
            e = defs[-1]
        keyfun = src(e)
    okm = bool(comp_sites) and all(
        c_.startswith("mangle(") for c_ in comp_sites) and \
        keyfun is not None and keyfun.startswith("mangle(") and \
        repo.resolve(gi_.module, "mangle") is not None and \
        repo.resolve(gi_.module, "mangle")[0] == "func" and \
        repo.resolve(gi_.module, "mangle")[1].qualname == \
        "chameleon.compiler.mangle"
    rep.check(okm, "R09.1", gi_.qualname, "template.macros[name] looks the "
              "macro up under the key function the compiler publishes it "
              "under (mangle): a macro named 'a.b' or 'a b' is found",
              construct="macro-key-agreement", where=L.where(gi_),
              detail="compiler: %s; lookup: %s" % (sorted(set(comp_sites)),
                                                   keyfun))
    # ... and an injective one: two different slot names must not share a
    # key.  mangle() replaces every character outside [A-Za-z0-9_] by '_',
    # a character it keeps -- 'x-y' and 'x_y' (and 'x.y') become one key
    mg = repo.func("chameleon.compiler.mangle")
    subs = [n for n in ast.walk(mg.node) if isinstance(n, ast.Call)
            and isinstance(n.func, ast.Attribute)
            and n.func.attr in ("sub", "replace") and len(n.args) >= 2]
    injective = bool(subs)
    idetail = []
    for c_ in subs:
        repl = c_.args[0] if c_.func.attr == "sub" else c_.args[1]
        if isinstance(repl, ast.Constant) and isinstance(repl.value, str):
            if repl.value != "":
                # a constant replacement maps every replaced character (and
                # the replacement itself, which is kept) to the same text
                injective = False
                idetail.append(src(c_)[:60])
            elif c_.func.attr == "replace":
                injective = False      # a character is dropped
                idetail.append(src(c_)[:60])
    rep.check(injective, "R09.1", mg.qualname, "the key function is "
              "injective on slot names (each replaced character gets its "
              "own escape and the escape character is escaped too)",
              construct="slot-key-injective", where=L.where(mg),
              detail="; ".join(idetail))
    # the caller stores under that key; the prologue pops that key
    res = L.emission(repo, use.qualname)
    lin_ = L.Lin(res.emission)
    ci_, ck_ = L.scoped_call(lin_, MACRO_CALL)
    stores = [(fr_, b_) for i_, fr_, b_, tg_ in slot_stores(lin_)
              if tg_ == "caller" or tg_ == ck_]
    rep.check(len(stores) >= 1, "R09.1", use.qualname,
              "a caller stores its filler under the slot key in the variable "
              "scope handed to the macro", construct="slot-store")
    for wv, b in stores:
        kv = L.slot_value(wv, b["_K"])
        nv = L.slot_value(wv, b["_N"])
        dv = L.slot_value(wv, b["_D"])
        rep.check(kv is not None and "Ident('slot'" in A.show(kv, limit=6),
                  "R09.1", use.qualname, "the stored key is the slot key",
                  construct="slot-store-key", detail=A.show(kv, limit=3))
        rep.check(nv is not None and "Ident('fill'" in A.show(nv, limit=6),
                  "R09.1", use.qualname, "the stored value is the fill "
                  "function defined for that slot",
                  construct="slot-store-fn", detail=A.show(nv, limit=3))
        rep.check(dv is not None and "deque" in A.show(dv), "R09.1",
                  use.qualname, "fillers are kept in a deque",
                  construct="slot-deque")
    # render function names: definition, internal use, public lookup, cook
    mac = repo.func(COMP + "visit_Macro")
    uim = repo.func(COMP + "visit_UseInternalMacro")
    a = _fmt_sites(mac, "render_%s")
    b = _fmt_sites(uim, "render_%s")
    ok = len(a) == 1 and len(b) == 1 and src(a[0]) == src(b[0]) == \
        "mangle(node.name)"
    rep.check(ok, "R09.1", mac.qualname, "a macro's render function is named "
              "by the same expression where it is defined and where it is "
              "used inside its template", construct="render-name",
              detail="%s / %s" % ([src(x) for x in a], [src(x) for x in b]))
    for f in (mac, uim):
        text = L.text(f.node)
        rep.check(("node.name is None" in text or
                   "node.name is not None" in text) and "'render'" in text,
                  "R09.1", f.qualname, "the whole template is the macro "
                  "named None -> 'render'", construct="render-default",
                  where=L.where(f))
    cook = repo.func("chameleon.template.BaseTemplate.cook")
    text = L.text(cook.node)
    rep.check("setattr(self, '_' + name, function)" in text, "R09.1",
              cook.qualname, "compiled functions are published as _<name>",
              construct="publish", where=L.where(cook))
    gi = repo.func(TPL + "Macros.__getitem__")
    text = L.text(gi.node)
    rep.check(any(isinstance(n, ast.Call) and src(n.func) == "getattr"
                  and len(n.args) >= 2 and src(n.args[0]) == "self.template"
                  and any(t_ == "_render_%s" and len(a_) == 1 for t_, a_, n_
                          in L.fmt_sites(L.inline_locals(gi.node, n.args[1])))
                  for n in ast.walk(gi.node)),
              "R09.1", gi.qualname, "public lookup reads _render_<name>",
              construct="public-name", where=L.where(gi))


def _slots(repo, rep):
    mac = repo.func(COMP + "visit_Macro")
    res = L.emission(repo, mac.qualname)
    site = mac.qualname
    pops = []
    for wv in A.walk(res.emission):
        if isinstance(wv, A.Frag) and wv.tree is not None:
            for n in ast.walk(wv.tree):
                if isinstance(n, ast.Try):
                    pops.append((wv, n))
    slot_pop = None
    for wv, tr in pops:
        m = L.find_all(L.pat("_N = econtext[_K].pop()"), tr)
        if m:
            slot_pop = (wv, tr, m[0][1])
    rep.check(slot_pop is not None, "R09.2", site, "the macro prologue takes "
              "one filler per slot from the caller's scope "
              "(econtext[key].pop())", construct="prologue-pop",
              where=L.where(mac))
    if slot_pop:
        wv, tr, b = slot_pop
        loops = L.enclosing_loops(res.emission, wv)
        rep.check(bool(loops) and "_slots" in A.show(loops[-1].iter),
                  "R09.2", site, "one pop per slot *name* collected in the "
                  "macro body (same-named slots share one filler)",
                  construct="pop-per-name", where=L.where(mac),
                  detail=A.show(loops[-1].iter) if loops else "no loop")
        kv, nv = L.slot_value(wv, b["_K"]), L.slot_value(wv, b["_N"])
        rep.check(kv is not None and nv is not None and
                  A.show(kv.f["value"] if isinstance(kv, A.Py) else kv) ==
                  A.show(nv.ident if isinstance(nv, A.NameRef) else nv),
                  "R09.2", site, "the popped filler is bound to the local "
                  "named like the key (what define-slot tests)",
                  construct="pop-binding", where=L.where(mac))
        h = tr.handlers[0] if tr.handlers else None
        ok = h is not None and len(h.body) == 1 and L.match(
            L.pat("_N = None"), h.body[0], {}) is not None
        rep.check(ok, "R09.2", site, "without a filler the local is None "
                  "(default content)", construct="pop-default",
                  where=L.where(mac))
        # pops come after the body was visited at compile time (names known)
        # and before the body in the emitted function
        lin = L.Lin(res.emission)
        ip = lin.index(lambda it: it is wv)
        ib = lin.index(lambda it: isinstance(it, A.Child))
        rep.check(0 <= ip < ib, "R09.2", site, "slots are resolved before "
                  "the macro body runs", construct="pop-before-body",
                  where=L.where(mac))
    tr = list(A.flatten(res.trace))
    reset = [i for i, (it, c) in enumerate(tr) if isinstance(it, A.Effect)
             and it.kind == "set" and it.target == "self._slots" and not c]
    child = [i for i, (it, c) in enumerate(tr) if isinstance(it, A.Child)]
    rep.check(reset and child and reset[0] < child[0], "R09.2", site,
              "the set of slot names is reset per macro before its body is "
              "compiled", construct="slots-reset", where=L.where(mac))

    ds = repo.func(COMP + "visit_DefineSlot")
    r = L.emission(repo, ds.qualname)
    ifs = [w for w in A.walk(r.emission) if isinstance(w, A.Py)
           and w.kind == "If"]
    ok = False
    detail = ""
    if len(ifs) == 1:
        i = ifs[0]
        test = i.f.get("test")
        tt = A.show(test, limit=6)
        body = A.show(i.f.get("body"), limit=6)
        orelse = i.f.get("orelse")
        calls = [w for w in A.walk(orelse) if isinstance(w, A.Frag) and
                 L.frag_find(w, "_S(__stream, econtext.copy(), rcontext)",
                             "expr")] if orelse is not None else []
        same = False
        if calls:
            b = L.frag_find(calls[0], "_S(__stream, econtext.copy(), "
                                      "rcontext)", "expr")[0][1]
            sv = L.slot_value(calls[0], b["_S"])
            same = sv is not None and A.show(sv) in tt
        ok = "Py.Is()" in tt and "load('None')" in tt and \
            "Child(node.node)" in body and bool(calls) and same
        detail = "test=%s" % tt[:100]
    rep.check(ok, "R09.2", ds.qualname, "define-slot: 'if <filler> is None: "
              "default content else: <filler>(stream, copy of scope, "
              "rcontext)' on the same local", construct="define-slot-if",
              where=L.where(ds), detail=detail)
    trd = list(A.flatten(r.trace))
    rep.check(any(isinstance(it, A.Effect) and it.kind == "add"
                  and it.target == "self._slots" for it, c in trd), "R09.2",
              ds.qualname, "define-slot registers its name for the prologue",
              construct="slot-register", where=L.where(ds))

    use = repo.func(COMP + "visit_UseExternalMacro")
    r = L.emission(repo, use.qualname)
    lin = L.Lin(r.emission)
    ext = plain = None
    for i, (it, conds, path) in enumerate(lin.rows):
        if isinstance(it, A.Frag):
            if L.frag_find(it, "_S.appendleft(_N)", "expr"):
                ext = (i, conds, path)
            if any(i_ == i for i_, fr_, b_, tg_ in slot_stores(lin)):
                pol = L.polarity(conds, "node.extend")
                if pol is False:
                    plain = (i, conds, path)
    rep.check(ext is not None and L.polarity(ext[1], "node.extend") is True,
              "R09.2", use.qualname, "extend-macro adds its filler on the "
              "left of the existing stack (outer callers keep priority)",
              construct="extend-left", where=L.where(use))
    if ext:
        tries = [n for n, fld in ext[2] if isinstance(n, A.Py)
                 and n.kind == "Try"]
        ok = bool(tries) and any(fld == "orelse" for n, fld in ext[2]
                                 if n is tries[-1])
        rep.check(ok, "R09.2", use.qualname, "the left push happens only "
                  "when a stack already exists (else branch of the lookup)",
                  construct="extend-else", where=L.where(use))
    rep.check(plain is not None, "R09.2", use.qualname, "use-macro replaces "
              "the stack with its own filler", construct="use-replaces",
              where=L.where(use))
    # direction agreement: appendleft + pop()   (or append + popleft())
    rep.check(ext is not None and slot_pop is not None, "R09.2",
              use.qualname, "fillers are pushed on the left and taken from "
              "the right: the outermost caller's filler is used first",
              construct="deque-direction", where=L.where(use))
    # fill function: own context prologue + the filler node
    fds = [w for w in A.walk(r.emission) if isinstance(w, A.Py)
           and w.kind == "FunctionDef"]
    ok = False
    own_stream = False
    if fds:
        fbody = fds[0].f.get("body")
        inner = list(A.walk(fbody))
        args = A.show(fds[0].f.get("args"), limit=8)
        ok = any(isinstance(w, A.Frag) and
                 L.frag_find(w, "getname = econtext.get_name")
                 for w in inner) and \
            any(isinstance(w, A.Child) and
                A.show(w) == "Child(each(node.slots).node)" for w in inner) \
            and all(p in args for p in ("param('__stream')",
                                        "param('econtext')",
                                        "param('rcontext')"))
        # the filler writes to the stream it is called with: the macro may
        # call it while capturing output (i18n:translate / i18n:name)
        tcs = [w for w in inner if isinstance(w, A.Internal)
               and w.kind == "TranslationContext"]
        for tc in tcs:
            if len(tc.args) >= 3 and A.show(tc.args[1]) == "None" and \
                    A.show(tc.args[2]) == "None":
                first = [w for w in A.walk(tc.args[0])
                         if isinstance(w, (A.Frag, A.Child))]
                kid = [i for i, w in enumerate(first)
                       if isinstance(w, A.Child)]
                app = [i for i, w in enumerate(first) if isinstance(w, A.Frag)
                       and L.frag_find(w, "__append = __stream.append")]
                own_stream = bool(app) and bool(kid) and app[0] < kid[0]
    rep.check(ok, "R09.2", use.qualname, "a filler is a function of (stream, "
              "scope, rcontext) that renders the fill-slot element in the "
              "scope it is given", construct="fill-function",
              where=L.where(use))
    rep.check(own_stream, "R09.2", use.qualname, "a filler writes to the "
              "stream it is called with (__append rebound from its own "
              "__stream parameter, outside the writer's capture context): "
              "the macro may call it while capturing output for translation",
              construct="fill-own-stream", where=L.where(use),
              detail="the filler body uses the enclosing function's __append")
    # what the caller stores for the macro does not stay in its own scope:
    # it goes into the copy handed to the macro, or is taken back afterwards
    callx, ckey = L.scoped_call(lin, MACRO_CALL)
    sts = slot_stores(lin)
    stores = [i for i, fr_, b_, tg_ in sts]
    in_caller = [i for i, fr_, b_, tg_ in sts if tg_ == "caller"]
    stray = [i for i, fr_, b_, tg_ in sts if tg_ != "caller" and tg_ != ckey]
    cleanup = [i for i, (it, c_, p_) in enumerate(lin.rows)
               if i > callx >= 0 and isinstance(it, A.Frag) and (
                   L.frag_find(it, "del econtext[_K]") or
                   L.frag_find(it, "econtext.pop(_K, _X)", "expr") or
                   L.frag_find(it, "econtext[_K] = _B") or
                   L.frag_find(it, "_S.remove(_N)", "expr"))]
    if not in_caller and not stray and stores and callx >= 0:
        cleanup = ["stored in the copy"]
    rep.check(bool(stores) and bool(cleanup), "R09.2", use.qualname,
              "the fillers a use-macro element stores in the caller's scope "
              "are removed (or the previous binding restored) after the "
              "macro call, so that a fill-slot which names no slot is "
              "discarded and cannot reach a later macro use",
              construct="slot-store-cleanup", where=L.where(use),
              detail="%d store fragment(s), %d clean-up fragment(s) after "
                     "the call" % (len(stores), len(cleanup)))
    # 'fill-slots that name no slot [are] discarded': the copy a plain
    # use-macro hands over still holds the filler stacks its caller
    # inherited (from ITS caller); unless they are hidden, a filler that
    # names no slot of the used macro falls through to a macro used inside it
    hides = False
    for i_, (it_, c_, p_) in enumerate(lin.rows):
        if isinstance(it_, A.Frag) and it_.tree is not None and \
                L.polarity(c_, "node.extend") is False:
            for n_ in ast.walk(it_.tree):
                if isinstance(n_, ast.Constant) and n_.value == "__slot_":
                    hides = True
    rep.check(hides, "R09.2", use.qualname, "a plain (non-extend) use-macro "
              "hides the filler stacks inherited through the caller's scope "
              "before its own fillers are stored: a filler for a slot the "
              "used macro does not define cannot reach a macro used inside "
              "it", construct="inherited-fillers-hidden", where=L.where(use))
    # fillers are defined before the macro is called
    call = callx
    fdi = lin.index(L.is_py("FunctionDef"))
    rep.check(0 <= fdi < call, "R09.2", use.qualname, "fillers are defined "
              "and stored before the macro is called",
              construct="fill-before-call", where=L.where(use))


def _calls(repo, rep):
    ve = L.emission(repo, VE)
    f = repo.func(VE)
    uses = [w for w in A.walk(ve.value) if isinstance(w, A.NodeV)
            and w.kind == "UseExternalMacro"]
    rep.check(len(uses) == 2, "R09.3", f.qualname, "use-macro and extend-"
              "macro both build a UseExternalMacro node",
              construct="use-nodes", detail=str(len(uses)))
    flags = sorted(A.show(u.args[2]) for u in uses if len(u.args) == 3)
    rep.check(flags == ["False", "True"], "R09.3", f.qualname,
              "extend=False for use-macro, True for extend-macro",
              construct="extend-flag", detail=str(flags))
    for u in uses:
        key = "use-macro" if A.show(u.args[2]) == "False" else "extend-macro"
        rep.check(key in A.show(u.args[0], limit=6), "R09.3", f.qualname,
                  "the %s expression is the macro that is called" % key,
                  construct="macro-expr:" + key)
    defs = [w for w in A.walk(ve.value) if isinstance(w, A.NodeV)
            and w.kind == "Define" and any(x is u for u in uses
                                           for x in A.walk(w))
            and "macroname" in A.show(w.args[0], limit=5)]
    ok = False
    if defs:
        asg = [w for w in A.walk(defs[0].args[0]) if isinstance(w, A.NodeV)
               and w.kind == "Assignment"]
        # the 'local' flag must be given as True at the construction site
        # (an omitted argument falls back to whatever the node class says)
        local = asg[0].arg("local", ("names", "expression", "local")) \
            if asg else None
        ok = bool(asg) and local is not None and A.show(local) == "True" \
            and len(asg[0].args) > 1 and \
            "rsplit" in A.show(asg[0].args[1], limit=8)
    rep.check(ok, "R09.3", f.qualname, "'macroname' is a *local* definition "
              "wrapped around the macro use, bound to the last path segment "
              "of the name used", construct="macroname",
              where=L.where(f))
    # slots list shared between the node and the collector stack
    tr = list(A.flatten(ve.trace))
    push = [it for it, c in tr if isinstance(it, A.Effect)
            and it.kind == "push" and it.target == "self._use_macro"]
    ok = bool(push) and all(
        any(x is u.args[1] or A.show(x) == A.show(u.args[1])
            for x in A.walk(push[0].arg)) for u in uses)
    rep.check(ok, "R09.3", f.qualname, "the list pushed on the collector "
              "stack is the node's slots list (fill-slots of the children "
              "reach the node)", construct="slots-shared", where=L.where(f))
    # merge-out for both (also C05.R05.3) -- cheap to restate here
    from .c05 import merge_after_macro
    for name in ("visit_UseInternalMacro", "visit_UseExternalMacro"):
        mo = merge_after_macro(repo, name)
        g = mo["func"]
        rep.check(mo["call"] is not None and mo["upd"] is not None and
                  mo["call"] < mo["upd"], "R09.3", g.qualname,
                  "macro call with a copy of the scope, then the globals are "
                  "merged into the caller's scope (econtext.update(...))",
                  construct="call-merge", where=L.where(g))
        # unconditional: a re-assigned global changes no length or key set,
        # so the merge must not depend on either -- every global whose value
        # object differs from before the call is written
        rep.check(mo["top"] and mo["filter_ok"], "R09.3", g.qualname,
                  "the merge of the globals into the caller's scope is "
                  "unconditional and passes every new or re-assigned global "
                  "(a macro may re-assign an existing global)",
                  construct="merge-unconditional", where=L.where(g),
                  detail=mo["detail"])
        # ... and nothing else: using a macro that defines no global leaves
        # the caller's scope as an inlined copy of the macro would
        rep.check(mo["upd"] is not None and not mo["bare"], "R09.3",
                  g.qualname, "the merge writes only globals the macro "
                  "(re)defined: a caller's local that shadows an older "
                  "global is not replaced by using a macro  [shared with "
                  "C05 R05.3]", construct="macro-merge-overwrites-shadow",
                  where=L.where(g))
    # the same for a slot filler, seen from the macro body that calls it
    from .c05 import _filler_merge
    L.borrow(repo, rep, "R09.3", "C05", _filler_merge, ("filler-merge-out",))
    # the symbols 'macros' / 'template' of a macro body are those of the
    # template that defines it: they are compiled as builtins and looked up
    # in the variable scope first, and the scope is copied into every macro
    # call -- so render() must not seed the scope with a builtin's name
    bnames = set()
    for q in (TPL + "PageTemplate._builtins",
              TPL + "PageTemplateFile._builtins"):
        bf = repo.func(q)
        for n in ast.walk(bf.node):
            if isinstance(n, ast.Dict):
                bnames |= {k.value for k in n.keys
                           if isinstance(k, ast.Constant)}
            elif isinstance(n, ast.Assign):
                for t in n.targets:
                    if isinstance(t, ast.Subscript) and isinstance(
                            t.slice, ast.Constant):
                        bnames.add(t.slice.value)
    if not {"macros", "template"} <= bnames:
        raise AnalysisError("builtins of PageTemplate not found: %s" % bnames)
    for q in (TPL + "PageTemplate.render",
              "chameleon.template.BaseTemplate.render"):
        rf = repo.func(q)
        seeded = set()
        alias = {"_kw", "__kw", "vars", "kwargs"}
        for n in ast.walk(rf.node):
            if isinstance(n, ast.Assign) and isinstance(
                    n.value, ast.Attribute) and n.value.attr in (
                        "setdefault", "__setitem__") and \
                    isinstance(n.targets[0], ast.Name):
                alias.add(n.targets[0].id)
        for n in ast.walk(rf.node):
            if isinstance(n, ast.Call) and n.args and isinstance(
                    n.args[0], ast.Constant):
                fn = src(n.func)
                if fn in alias or fn.endswith(".setdefault") or \
                        fn.endswith(".__setitem__"):
                    seeded.add(n.args[0].value)
            elif isinstance(n, ast.Assign):
                for t in n.targets:
                    if isinstance(t, ast.Subscript) and isinstance(
                            t.slice, ast.Constant) and isinstance(
                                t.value, ast.Name):
                        seeded.add(t.slice.value)
            elif isinstance(n, ast.Call) and src(n.func).endswith(".update"):
                for k in n.keywords:
                    if k.arg:
                        seeded.add(k.arg)
        hit = sorted(x for x in seeded if x in bnames)
        rep.check(not hit, "R09.3", rf.qualname, "render() seeds the "
                  "variable scope with private names only (%s): a builtin "
                  "symbol (%s) placed there would follow the scope into "
                  "every macro call and shadow the defining template's own"
                  % (sorted(seeded), sorted(bnames)),
                  construct="scope-seeds", where=L.where(rf),
                  detail="seeds %s" % hit)
    from . import c01, c18
    L.borrow(repo, rep, "R09.2", "C01", c01.order,
             ("order:define-slot><define>",))
    L.borrow(repo, rep, "R09.3", "C18", c18._tables, ("declare-first",))
    # a macro removed from (or renamed in) a template is gone from
    # template.macros once the template is compiled again: the entry points
    # of the previous version are retired (C16 owns the rule)
    from . import c16
    element_details(repo, rep)
    L.borrow(repo, rep, "R09.3", "C16", c16._retire,
             ("retire-filter", "stale-entry-points"), minimum=2)
    # define-macro: stored, and rendered in place through an internal use
    eff = [it for it, c in tr if isinstance(it, A.Effect)
           and it.kind == "setitem" and it.target == "self._macros"]
    rep.check(len(eff) == 1, "R09.3", f.qualname, "a define-macro element is "
              "stored as a macro of its template", construct="macro-store")
    prop = repo.func("chameleon.zpt.program.MacroProgram.macros")
    text = L.text(prop.node)
    rep.check("macros.append((None, nodes.Sequence(self.body)))" in text and
              "nodes.Macro(name, [nodes.Context(node)])" in text, "R09.3",
              prop.qualname, "the template body itself is the macro named "
              "None; every macro gets its own context prologue",
              construct="macros-property", where=L.where(prop))


def _collector(repo, rep):
    f = repo.func(VE)
    res = L.emission(repo, VE)
    L.g_pair_stack(rep, "R09.4", f, res, "self._use_macro")
    rep.require_min("R09.4", 1, "the fill-slot collector stack")
    # fill-slot outside a use is rejected
    tr = list(A.flatten(res.trace))
    ok = any(isinstance(it, A.Raise) and
             "Cannot use metal:fill-slot without metal:use-macro" in A.show(
                 it.exc, limit=4) for it, c in tr)
    rep.check(ok, "R09.4", f.qualname, "a fill-slot with no collecting use-"
              "macro is rejected with a LanguageError",
              construct="stray-fill-slot", where=L.where(f))
    # index: a fill-slot on an element that itself uses a macro belongs to
    # the enclosing use
    text = L.text(f.node)
    rep.check("index = -(1 + int(bool(use_macro or extend_macro)))" in text,
              "R09.4", f.qualname, "a fill-slot on a use-macro element is "
              "collected by the enclosing use", construct="fill-index",
              where=L.where(f))
    fs = [n for n in ast.walk(f.node) if isinstance(n, ast.Call)
          and src(n.func) == "nodes.FillSlot" and len(n.args) == 2]

    def level(e):
        # the slot-level node, possibly inside the element's on-error wrapper
        if isinstance(e, ast.Call) and src(e.func) == "wrap" and \
                len(e.args) == 2 and src(e.args[1]) == "ON_ERROR":
            e = e.args[0]
        return src(e)
    okf = len(fs) == 1 and src(fs[0].args[0]) == "clause" and \
        level(fs[0].args[1]) == "slot" and \
        isinstance(getattr(fs[0], "_parent", None), ast.Call) and \
        src(fs[0]._parent.func) == "slots.append"
    rep.check(okf, "R09.4",
              f.qualname, "the filler is the element with its define/guard "
              "wrappers (slot level)", construct="fill-node", where=L.where(f))


def _public(repo, rep):
    for q, what in ((TPL + "Macros.__getitem__", "getattr"),
                    (TPL + "Macros.names", "__dict__"),
                    (TPL + "PageTemplate.include", "_render")):
        f = repo.func(q)
        paths = P.enum_paths(f.node.body)
        ok = True
        n = 0
        for p in paths:
            seen_check = False
            for call, i in P.calls_on_path(p):
                t = src(call)
                if t.endswith("cook_check()"):
                    seen_check = True
                if ("_render" in t or "__dict__" in t) and \
                        not t.endswith("cook_check()"):
                    n += 1
                    if not seen_check:
                        ok = False
            for ev in p:
                if ev[0] == "assign" and "__dict__" in src(ev[2]) and \
                        not seen_check:
                    ok = False
        # names iterates self.template.__dict__ in a for header
        text = L.text(f.node, body_only=True)
        first = src(f.node.body[0]) if f.node.body else ""
        rep.check(ok and first.endswith("cook_check()") or
                  (ok and "cook_check()" in src(f.node.body[1])
                   if len(f.node.body) > 1 else False),
                  "R09.5", f.qualname, "cook_check() runs before compiled "
                  "render functions are looked up or called",
                  construct="cook-check-first", where=L.where(f),
                  detail=first)


def last_any(ve):
    """{(target text, line): statement name} for 'x = ns[NS, "name"]'"""
    out = {}
    for n in ast.walk(ve.node):
        if isinstance(n, ast.Assign) and isinstance(n.value, ast.Subscript) \
                and src(n.value.value) == "ns" and isinstance(
                    n.value.slice, ast.Tuple) and len(n.value.slice.elts) == 2 \
                and isinstance(n.value.slice.elts[1], ast.Constant):
            out[(src(n.targets[0]), n.lineno)] = n.value.slice.elts[1].value
    return out


def element_details(repo, rep, rule="R09.3"):
    """Value-level facts of MacroProgram.visit_element that several
    properties rest on:
    * TAL and METAL statement values are entity-decoded where the element is
      visited, except the multi-part TAL statements (split first);
    * the element that uses a macro renders no tag of its own (omit);
    * 'macroname' is what follows the last '/' of the use-macro expression;
    * the 'attrs' alias is the FIRST definition of the element (tal:define
      parts may read it);
    * an unquoted attribute value gets quotes when a computed value goes
      into it: tal:attributes expression, or '${' in the text."""
    ve = repo.func(PROG + "visit_element")
    wh = L.where(ve)
    # decode loop
    loops = [n for n in ast.walk(ve.node) if isinstance(n, ast.For)
             and "ns.items()" in src(n.iter)]
    cmps = [c for lp in loops for c in ast.walk(lp)
            if isinstance(c, ast.Compare) and len(c.comparators) == 1
            and "prefix" in (src(c.left), src(c.comparators[0]))]
    skip = [c for lp in loops for c in ast.walk(lp)
            if isinstance(c, ast.If) and any(
                isinstance(x, ast.Continue) for x in c.body)]
    ok = len(loops) == 1 and len(cmps) >= 3 and all(
        len(c.ops) == 1 and isinstance(c.ops[0], ast.Eq) for c in cmps)
    consts = sorted(src(c.comparators[0]) if src(c.left) == "prefix"
                    else src(c.left) for c in cmps)
    ok = ok and consts.count("TAL") >= 2 and "METAL" in consts
    oks = len(skip) == 1 and "prefix == TAL" in src(skip[0].test).replace(
        "TAL == prefix", "prefix == TAL") and "MULTIPART" in src(skip[0].test)
    rep.check(ok and oks, rule, ve.qualname, "statement values of the TAL "
              "and METAL namespaces are entity-decoded here, the multi-part "
              "TAL statements excepted (split as written first)",
              construct="decode-which", where=wh,
              detail=str([src(c) for c in cmps]))
    # ... and the statements excepted are exactly those whose parser splits
    # the text into parts itself (it decodes each part after the split): a
    # statement missing from the set is decoded twice and split at a decoded
    # ';', one too many is never decoded
    tal_mod = repo.module("chameleon.tal")
    try:
        multipart = set(repo.const("chameleon.tal", "MULTIPART"))
    except Exception:
        multipart = None
    splitters = {n_ for n_, f_ in tal_mod.funcs.items() if any(
        isinstance(c, ast.Call) and src(c.func) == "split_parts"
        for c in ast.walk(f_.node))} if hasattr(tal_mod, "funcs") else set()
    if not splitters:
        splitters = {q.rsplit(".", 1)[1] for q, f_ in repo.funcs.items()
                     if q.startswith("chameleon.tal.") and q.count(".") == 2
                     and any(isinstance(c, ast.Call) and
                             src(c.func) == "split_parts"
                             for c in ast.walk(f_.node))}
    split_stmts = set()
    last = {}
    for n in ast.walk(ve.node):
        if isinstance(n, ast.Assign) and isinstance(n.value, ast.Subscript) \
                and src(n.value.value) == "ns" and isinstance(
                    n.value.slice, ast.Tuple) and len(n.value.slice.elts) == 2 \
                and src(n.value.slice.elts[0]) == "TAL" and isinstance(
                    n.value.slice.elts[1], ast.Constant):
            last[(src(n.targets[0]), n.lineno)] = n.value.slice.elts[1].value
    for c in ast.walk(ve.node):
        if isinstance(c, ast.Call) and isinstance(c.func, ast.Attribute) and \
                src(c.func.value) == "tal" and c.func.attr in splitters and \
                c.args:
            arg = src(c.args[0])
            cands = [(ln, v) for (nm, ln), v in last.items()
                     if nm == arg and ln <= c.lineno]
            if cands:
                split_stmts.add(max(cands)[1])
    rep.check(multipart is not None and len(split_stmts) >= 3 and
              split_stmts == multipart, rule, ve.qualname, "the statements "
              "excepted from decoding (tal.MULTIPART) are exactly those "
              "handed to a parser that splits at ';' itself",
              construct="multipart-complete", where=wh,
              detail="MULTIPART %s, split by their parser %s" % (
                  sorted(multipart or ()), sorted(split_stmts)))
    # a statement value of blanks only is an empty value: the tests for an
    # empty omit-tag / i18n:name / fill-slot clause look at the stripped text
    blank = {}
    for n in ast.walk(ve.node):
        if isinstance(n, (ast.If, ast.IfExp)):
            pt, flip = L._CanonIf._pos(n.test)
            t_ = src(pt).replace(" ", "")
            if t_ in ("clause", "clause.strip()", "clause==''",
                      "clause.strip()==''", "''==clause"):
                cands = [(ln, v) for (nm, ln), v in last_any(ve).items()
                         if nm == "clause" and ln <= n.lineno]
                if cands:
                    stmt = max(cands)[1]
                    stripped = ".strip()" in t_ or any(
                        isinstance(a, ast.Assign) and
                        src(a.targets[0]) == "clause" and
                        src(a.value) == "clause.strip()" and
                        max(cands)[0] <= a.lineno <= n.lineno
                        for a in ast.walk(ve.node))
                    blank[stmt] = stripped
    want_blank = {"omit-tag", "name", "fill-slot"}
    rep.check(want_blank <= set(blank) and all(
        blank[k] for k in want_blank), rule, ve.qualname, "an omit-tag, "
        "i18n:name or fill-slot value of blanks only is treated as the "
        "empty value (tested after strip())",
        construct="blank-clause-empty", where=wh,
        detail=str(sorted(blank.items())))
    # use-macro: omit the element's own tag
    branch = []
    for n in ast.walk(ve.node):
        if isinstance(n, ast.If):
            pt, flip = L._CanonIf._pos(n.test)
            if src(pt) in ("use_macro or extend_macro",
                           "extend_macro or use_macro"):
                branch.append(n.orelse if flip else n.body)
    om = [a for b in branch[:1] for a in b if isinstance(a, ast.Assign)
          and src(a.targets[0]) == "omit"]
    rep.check(len(om) == 1 and isinstance(om[0].value, ast.Constant)
              and om[0].value.value is True, rule, ve.qualname, "the element "
              "that uses (or extends) a macro is replaced by the macro: its "
              "own tag is omitted", construct="use-macro-omits-tag", where=wh)
    # macroname
    mn = [a for a in ast.walk(ve.node) if isinstance(a, ast.Assign)
          and src(a.targets[0]) == "macro_name"
          and "split" in src(a.value)]
    okm = False
    for a in mn:
        v = a.value
        if isinstance(v, ast.Subscript) and isinstance(v.value, ast.Call) \
                and isinstance(v.value.func, ast.Attribute):
            c = v.value
            try:
                idx = ast.literal_eval(v.slice)
            except ValueError:
                idx = None
            sep_ok = c.args and isinstance(c.args[0], ast.Constant) and \
                c.args[0].value == "/"
            if c.func.attr == "rsplit":
                mx = ast.literal_eval(c.args[1]) if len(c.args) > 1 else -1
                okm = sep_ok and idx == -1 and (mx == -1 or mx >= 1)
            elif c.func.attr == "split":
                mx = ast.literal_eval(c.args[1]) if len(c.args) > 1 else -1
                okm = sep_ok and idx == -1 and mx == -1
            elif c.func.attr == "rpartition":
                okm = sep_ok and idx in (2, -1)
    rep.check(okm, rule, ve.qualname, "'macroname' is the part of the "
              "expression behind its last '/'", construct="macroname-tail",
              where=wh, detail=str([src(a.value) for a in mn]))
    # attrs alias first
    ins = [c for c in ast.walk(ve.node) if isinstance(c, ast.Call)
           and src(c.func) == "assignments.insert" and len(c.args) == 2
           and "'attrs'" in src(c.args[1])]
    rep.check(len(ins) == 1 and isinstance(ins[0].args[0], ast.Constant)
              and ins[0].args[0].value == 0, rule, ve.qualname, "the static "
              "attribute dictionary 'attrs' is defined in front of the "
              "element's tal:define parts", construct="attrs-alias-first",
              where=wh, detail=str([src(c) for c in ins]))
    ca = repo.func(PROG + "_create_attributes_nodes")
    qs = [n for n in ast.walk(ca.node) if isinstance(n, ast.If)
          and any(isinstance(a, ast.Assign) and src(a.targets[0]) == "quote"
                  for a in n.body)]
    okq = False
    for n in qs:
        t = n.test
        conj = t.values if isinstance(t, ast.BoolOp) and isinstance(
            t.op, ast.And) else [t]
        dis = [c for c in conj if isinstance(c, ast.BoolOp)
               and isinstance(c.op, ast.Or)]
        if len(dis) == 1:
            parts = sorted(src(v).replace(" ", "") for v in dis[0].values)
            okq = parts == sorted(["exprisnotNone",
                                   "textisnotNoneand'${'intext"])
    rep.check(okq, rule, ca.qualname, "an unquoted attribute value is "
              "quoted when a computed value goes into it: a tal:attributes "
              "expression OR '${' in its (present) text",
              construct="quote-when-computed", where=L.where(ca),
              detail=str([src(n.test) for n in qs]))
